#!/venv/bin/python
"""Statement-by-statement translation of the READING OF A GROUP CONFIGURATION into Transaction / GroupTransaction
objects (Gen/GroupInitGen.v).

Translated (read with `ast` only, never imported):
  utils/command_line/group_config.py : USER_CONFIG_TRANSACTION_TYPES                 -> USER_CONFIG_TRANSACTION_TYPES (table)
                                       dataclasses GroupConfigFunctionCall, GroupConfigTransaction, GroupConfigGroup
                                       (fields, order, types, defaults)               -> three Records
                                       check_fields_are_present                      -> check_fields_are_present_gen
                                       GroupConfigFunctionCall.from_yaml             -> GroupConfigFunctionCall_from_yaml_gen
                                       GroupConfigTransaction.from_yaml              -> GroupConfigTransaction_from_yaml_gen
                                       GroupConfigGroup.from_yaml                    -> GroupConfigGroup_from_yaml_gen
  execution_context/transactions.py  : Transaction.__init__, GroupTransaction.__init__ -> Transaction_init, GroupTransaction_init
  utils/command_line/common.py       : _get_function_from_config                     -> _get_function_from_config_gen
                                       init_tealer_from_config, the body of `for txn_config in config.groups:`
                                       up to (excluding) `group_objs_list.append(group_obj)`  -> init_group_gen
                                       init_tealer_from_single_contract, from `txn_obj = Transaction()` through
                                       `group_obj.transactions = [txn_obj]`            -> init_single_gen
The hand-written counterpart is Model/Group.v (record gtxn, rel_dict); Lemmas/GroupInitGenLemmas.v relates the two and
composes with Gen/GroupGen.v (the regenerated verdict).

Reading of Python in Gallina.
  * exceptions: `rs A := Ok a | Raise e`, e : exn = ETealer template | EInvalid template | EKeyError | ETypeError; the
    template of `raise X(f"..")` is the constant text of the f-string with `{}` for every hole (holes may only be
    names / attributes / subscripts / method-free constants: they have no effect); `d[k]` raises EKeyError.
  * values: str = string, int = Z, bool = bool, Optional[X] = option X, Dict[K, V] = association list in insertion
    order (`d[k] = v` replaces the value of an existing key IN PLACE, a new key is appended: GroupGen.dict_set; `d[k]`
    finds the first entry; `for k in d` goes through the keys in order), List[X] = list X; TransactionType /
    ContractType members are their NAMES (ComparableEnum compares values, members have distinct values:
    fingerprinted in translate_group.py / here).
  * configuration objects (dataclasses of group_config.py) are Records generated from the class bodies.
  * a parsed YAML value (`Dict[str, Any]` / Any) is `yv` (YNull | YBool | YInt | YStr | YList | YMap); the from_yaml
    readers are translated under the TYPED reading given by the annotations (`function_call: Dict[str, Any]`, the
    dataclass field types at the constructor call, the annotation of a local dict): a value of another YAML type at
    such a place is `Raise ETypeError` = "not read" (Python would carry the ill-typed value on; typed
    configurations are the quantifier of every statement about from_yaml).
  * Transaction objects are mutated after references to them were stored (txn_id_to_obj, other objects'
    relative_indexes, group_obj.transactions): they live on a HEAP `heap : list tobj` threaded as state, a reference
    is the allocation index (`Transaction()` appends `Transaction_init`; `o.a = v` is `hset heap o (set_o_a v)`;
    `o.a` is `o_a (hread heap o)`).  There must be exactly one `GroupTransaction()` per translated body, outside
    every loop, bound to a variable that is never re-bound: the group object is then a VALUE variable of type gobj and
    `txn_obj.group_transaction = group_obj` stores the flag `true` ("is the group object of this iteration").
  * a Teal object is `tcontract` (name, type name, functions: name -> index in the table `funcs` of Model/Group.v
    Section Verdict); a Function object is `(index, contract)`: `contracts[c].functions[f].contract` IS `contracts[c]`
    because the contracts loop of init_tealer_from_config (FINGERPRINTED as a whole) builds every function with
    construct_function(teal, ..), which passes `teal` as Function.contract (fingerprinted).
  * `for x in e: body` = foldE over the list / the keys of the dict; the state is the tuple of the variables (and the
    heap) assigned in the body and bound before the loop; variables first bound inside a loop or branch are not
    visible after it (reading them is "unknown name": fail-closed).
  * `if c: body` followed by more statements: when body ends in `raise` the rest is the else-branch, otherwise a join
    on the tuple of the variables assigned in the branches.  `if x is not None:` narrows the pure expression x
    (`match`); narrowings are dropped when something they read is assigned.
  * `fill_group_relative_indexes(group_obj)` is the ALREADY TRANSLATED fill_group_relative_indexes_gen of Gen/GroupGen.v
    applied to the view of the group's transactions as `gtxn` records (GroupGen's glue table 1) and the current value
    of group_obj.group_relative_indexes.
Fail-closed: every statement kind, expression kind, attribute, call and type that is not whitelisted raises
TranslateError.
"""
import ast
import os
import sys

from tcommon import TranslateError, fail, parse, strip_doc, T, coq_str
from translate_search import unparse_nodoc, find_def, find_toplevel

CFG_REL = "utils/command_line/group_config.py"
COMMON_REL = "utils/command_line/common.py"
TX_REL = "execution_context/transactions.py"
ENUM_REL = "utils/teal_enums.py"
FN_REL = "teal/functions.py"
PF_REL = "teal/parse_functions.py"
TEAL_REL = "teal/teal.py"

# ----------------------------------------------------------------------------- types
STR = ("str",)
INT = ("Z",)
BOOL = ("bool",)
REF = ("ref",)
GOBJ = ("gobj",)
GREF = ("groupref",)
GRI = ("gri",)
FN = ("fn",)
CONTRACT = ("contract",)
CFGTXN = ("GroupConfigTransaction",)
CFGCALL = ("GroupConfigFunctionCall",)
CFGGROUP = ("GroupConfigGroup",)
TTYPE = ("ttype",)
CTYPE = ("ctype",)
NONE = ("none",)
HEAP = ("heap",)
YV = ("yv",)
YMAP = ("ymap",)  # Dict[str, Any]
UNIT = ("unit",)
CFGFUNC = ("GroupConfigFunction",)
CFGCONTRACT = ("GroupConfigContract",)
CFGCONFIG = ("GroupConfig",)
FNIDX = ("fnidx",)  # a Function object of the contracts loop: its index in the table of constructed functions
FTABLE = ("ftable",)  # the constructed functions in construction order (the arguments of construct_function)


def opt(t):
    return ("option", t)


def dct(k, v):
    return ("dict", k, v)


def lst(t):
    return ("list", t)


def coqty(t, top=True):
    simple = {
        "str": "string", "Z": "Z", "bool": "bool", "ref": "nat", "gobj": "gobj", "fn": "fn_obj", "contract": "tcontract", "ttype": "string",
        "ctype": "string", "heap": "list tobj", "yv": "yv", "ymap": "list (string * yv)", "unit": "unit", "gri": "list (gtxn * list (gtxn * Z))",
        "pair": "pair", "GroupConfigFunction": "GroupConfigFunction", "GroupConfigContract": "GroupConfigContract", "GroupConfig": "GroupConfig",
        "fnidx": "nat", "ftable": "list (tcontract * list string * string)", "GroupConfigTransaction": "GroupConfigTransaction", "GroupConfigFunctionCall": "GroupConfigFunctionCall", "GroupConfigGroup": "GroupConfigGroup",
    }  # fmt: skip
    if t[0] in simple:
        s = simple[t[0]]
        return s if top or " " not in s else f"({s})"
    if t[0] == "option":
        s = f"option {coqty(t[1], False)}"
    elif t[0] == "list":
        s = f"list {coqty(t[1], False)}"
    elif t[0] == "dict":
        s = f"list ({coqty(t[1], False)} * {coqty(t[2], False)})"
    else:
        raise TranslateError(f"translator: type {t}")
    return s if top else f"({s})"


TXN_ATTRS = {
    "type": TTYPE, "has_logic_sig": BOOL, "logic_sig": opt(FN), "application": opt(FN), "absoulte_index": opt(INT),
    "relative_indexes": dct(INT, REF), "group_transaction": GREF, "transacton_id": STR,
}  # fmt: skip
TXN_ANN = {
    "type": "TransactionType", "has_logic_sig": "bool", "logic_sig": "Optional['Function']", "application": "Optional['Function']",
    "absoulte_index": "Optional[int]", "relative_indexes": "Dict[int, Transaction]", "group_transaction": "Optional[GroupTransaction]",
    "transacton_id": "str",
}  # fmt: skip
GRP_ATTRS = {"transactions": lst(REF), "absolute_indexes": dct(INT, REF), "group_relative_indexes": GRI, "operation_name": STR}
GRP_ANN = {
    "transactions": "List[Transaction]", "absolute_indexes": "Dict[int, Transaction]",
    "group_relative_indexes": "Dict[Transaction, Dict[Transaction, int]]", "operation_name": "str",
}  # fmt: skip
CONTRACT_ATTRS = {"functions": ("c_functions_objs", dct(STR, FN)), "contract_type": ("c_contract_type", CTYPE), "contract_name": ("c_contract_name", STR)}
FN_ATTRS = {"contract": ("fn_contract", CONTRACT)}
ENUMS = {
    "ContractType": (CTYPE, "class ContractType(ComparableEnum):\n    LogicSig = 0\n    ApprovalProgram = 1\n    ClearStateProgram = 2\n    Unknown = 99\n\n    def __str__(self) -> str:\n        return self.name"),
    "TransactionType": (
        TTYPE,
        "class TransactionType(ComparableEnum):\n    Invalid = 0\n    Pay = 1\n    KeyReg = 2\n    Acfg = 3\n    Axfer = 4\n    Afrz = 5\n    Appl = 6\n    Any = 7\n    Unknown = 8",
    ),
}
EXN_CLASSES = {"TealerException": "ETealer", "InvalidGroupConfiguration": "EInvalid"}
DATACLASSES = {
    "GroupConfigFunctionCall": ("fc_", CFGCALL), "GroupConfigTransaction": ("ct_", CFGTXN), "GroupConfigGroup": ("cg_", CFGGROUP),
    "GroupConfigFunction": ("cf_", CFGFUNC), "GroupConfigContract": ("cc_", CFGCONTRACT), "GroupConfig": ("gc_", CFGCONFIG),
}  # fmt: skip
DATACLASSES_1 = ("GroupConfigFunctionCall", "GroupConfigTransaction", "GroupConfigGroup")
DATACLASSES_2 = ("GroupConfigFunction", "GroupConfigContract", "GroupConfig")
# stores into a Teal object that is a value variable of the contracts loop
CONTRACT_STORE = {"contract_type": ("set_c_contract_type", CTYPE), "functions": ("set_c_functions", ("dict", STR, FNIDX))}

RESERVED = {
    "heap", "st", "rs", "Ok", "Raise", "rbind", "foldE", "mapR", "exn", "ETealer", "EInvalid", "EKeyError", "ETypeError", "sdict_set", "sdict_get",
    "sdict_mem", "zdict_set", "zdict_get", "zdict_mem", "dict_values", "dict_keys", "dict_items", "dict_set", "dict_get", "hread", "hset", "tobj",
    "gobj", "tcontract", "fn_obj", "fn_contract", "c_functions_objs", "view_txn", "view_group", "call_fill_group_relative_indexes", "yv",
    "YNull", "YBool", "YInt", "YStr", "YList", "YMap", "as_str", "as_int", "as_bool", "as_map", "as_list", "as_opt", "ymap_get", "ymap_mem", "ymap_get_opt",
    "Transaction_init", "GroupTransaction_init", "USER_CONFIG_TRANSACTION_TYPES", "init_group_gen", "init_single_gen",
    "fold_left", "map", "filter", "rev", "fst", "snd", "negb", "andb", "orb", "true", "false", "nil", "cons", "app", "Some", "None", "length", "nth",
    "O", "S", "nat", "string", "bool", "list", "option", "Z", "N", "unit", "tt", "gtxn", "in", "at", "as", "fun", "let", "match", "end", "if", "then",
    "else", "return", "with", "forall", "exists", "fix", "cofix", "for", "where", "using", "Type", "Prop", "Set", "SProp", "struct", "_",
    "opt_is_some", "ret", "bind", "py", "funcs", "checks", "dtype", "vtypes", "abs_slot",
    "ftable", "load_and_parse", "construct_function_call", "ch_isdigit", "s_startswith", "s_is_empty", "s_forall", "s_isdigit", "s_slice_from", "s_in_list",
    "as_all", "as_list_of", "try_reraise_invalid", "set_c_contract_type", "set_c_functions", "GROUP_CONFIG_CONTRACT_TYPES", "init_contracts_gen",
    "contract_type_from_txt_gen", "init_tealer_from_config_gen", "ascii", "mapR",
}  # fmt: skip

# ----------------------------------------------------------------------------- fixed prelude
PRELUDE = r"""
(* ====================================================================== *)
(* PRELUDE (fixed text)                                                     *)
(* ====================================================================== *)
(* ---- exceptions: TealerException / InvalidGroupConfiguration with the template of their message, KeyError, and
   "a YAML value of another type than the annotation says" *)
Inductive exn : Type := ETealer (template : string) | EInvalid (template : string) | EKeyError | ETypeError.
Inductive rs (A : Type) : Type := Ok (a : A) | Raise (e : exn).
Arguments Ok {A} a.
Arguments Raise {A} e.
Definition rbind {A B : Type} (m : rs A) (k : A -> rs B) : rs B := match m with Ok a => k a | Raise e => Raise e end.
(* for x in l: body  (the first exception ends the loop) *)
Fixpoint foldE {S A : Type} (f : S -> A -> rs S) (l : list A) (s : S) : rs S :=
  match l with
  | [] => Ok s
  | a :: t => rbind (f s a) (fun s' => foldE f t s')
  end.
Definition of_py {A : Type} (m : py A) : rs A := match m with Some a => Ok a | None => Raise EKeyError end.

(* ---- dictionaries = association lists in insertion order (dict_set, dict_keys of Gen/GroupGen.v) *)
Definition sdict_set {V : Type} (k : string) (v : V) (d : list (string * V)) : list (string * V) := GroupGen.dict_set String.eqb k v d.
Definition sdict_get {V : Type} (k : string) (d : list (string * V)) : rs V :=
  match find (fun kv => String.eqb (fst kv) k) d with Some kv => Ok (snd kv) | None => Raise EKeyError end.
Definition sdict_mem {V : Type} (k : string) (d : list (string * V)) : bool := existsb (fun kv => String.eqb (fst kv) k) d.
Definition zdict_set {V : Type} (k : Z) (v : V) (d : list (Z * V)) : list (Z * V) := GroupGen.dict_set Z.eqb k v d.
Definition zdict_get {V : Type} (k : Z) (d : list (Z * V)) : rs V :=
  match find (fun kv => Z.eqb (fst kv) k) d with Some kv => Ok (snd kv) | None => Raise EKeyError end.
Definition zdict_mem {V : Type} (k : Z) (d : list (Z * V)) : bool := existsb (fun kv => Z.eqb (fst kv) k) d.
Definition dict_values {K V : Type} (d : list (K * V)) : list V := map snd d.

(* ---- parsed YAML values and their typed reading *)
Inductive yv : Type := YNull | YBool (b : bool) | YInt (z : Z) | YStr (s : string) | YList (l : list yv) | YMap (m : list (string * yv)).
Definition as_str (v : yv) : rs string := match v with YStr s => Ok s | _ => Raise ETypeError end.
Definition as_int (v : yv) : rs Z := match v with YInt z => Ok z | _ => Raise ETypeError end.
Definition as_bool (v : yv) : rs bool := match v with YBool b => Ok b | _ => Raise ETypeError end.
Definition as_map (v : yv) : rs (list (string * yv)) := match v with YMap m => Ok m | _ => Raise ETypeError end.
Definition as_list (v : yv) : rs (list yv) := match v with YList l => Ok l | _ => Raise ETypeError end.
(* d.get(k): None when the key is absent; an explicit null is None as well *)
Definition ymap_get_opt (k : string) (m : list (string * yv)) : option yv :=
  match find (fun kv => String.eqb (fst kv) k) m with Some (_, YNull) => None | Some (_, v) => Some v | None => None end.
(* Optional[T] at a typed place *)
Definition as_opt {A : Type} (f : yv -> rs A) (o : option yv) : rs (option A) :=
  match o with None => Ok None | Some v => rbind (f v) (fun a => Ok (Some a)) end.

(* ---- GLUE TABLE: Teal / Function objects.  contract = (contract_name, name of the ContractType member, functions:
   name -> index in the function table `funcs`); Function = (index, its .contract) *)
Record tcontract : Type := mkContract { c_contract_name : string; c_contract_type : string; c_functions : list (string * nat) }.
Definition fn_obj : Type := (nat * tcontract)%type.
Definition c_functions_objs (c : tcontract) : list (string * fn_obj) := map (fun kv => (fst kv, (snd kv, c))) (c_functions c).
Definition fn_contract (f : fn_obj) : tcontract := snd f.

(* ---- GLUE TABLE: Transaction objects on a heap, the GroupTransaction object as a value *)
Record tobj : Type := mkTobj {
  o_type : string; o_has_logic_sig : bool; o_logic_sig : option fn_obj; o_application : option fn_obj; o_absoulte_index : option Z;
  o_relative_indexes : list (Z * nat); o_group_transaction : bool; o_transacton_id : string }.
Definition set_o_type v o := mkTobj v (o_has_logic_sig o) (o_logic_sig o) (o_application o) (o_absoulte_index o) (o_relative_indexes o) (o_group_transaction o) (o_transacton_id o).
Definition set_o_has_logic_sig v o := mkTobj (o_type o) v (o_logic_sig o) (o_application o) (o_absoulte_index o) (o_relative_indexes o) (o_group_transaction o) (o_transacton_id o).
Definition set_o_logic_sig v o := mkTobj (o_type o) (o_has_logic_sig o) v (o_application o) (o_absoulte_index o) (o_relative_indexes o) (o_group_transaction o) (o_transacton_id o).
Definition set_o_application v o := mkTobj (o_type o) (o_has_logic_sig o) (o_logic_sig o) v (o_absoulte_index o) (o_relative_indexes o) (o_group_transaction o) (o_transacton_id o).
Definition set_o_absoulte_index v o := mkTobj (o_type o) (o_has_logic_sig o) (o_logic_sig o) (o_application o) v (o_relative_indexes o) (o_group_transaction o) (o_transacton_id o).
Definition set_o_relative_indexes v o := mkTobj (o_type o) (o_has_logic_sig o) (o_logic_sig o) (o_application o) (o_absoulte_index o) v (o_group_transaction o) (o_transacton_id o).
Definition set_o_group_transaction v o := mkTobj (o_type o) (o_has_logic_sig o) (o_logic_sig o) (o_application o) (o_absoulte_index o) (o_relative_indexes o) v (o_transacton_id o).
Definition set_o_transacton_id v o := mkTobj (o_type o) (o_has_logic_sig o) (o_logic_sig o) (o_application o) (o_absoulte_index o) (o_relative_indexes o) (o_group_transaction o) v.
Definition tobj_dangling : tobj := mkTobj "" false None None None [] false "".
Definition hread (heap : list tobj) (r : nat) : tobj := nth r heap tobj_dangling.
Fixpoint hset (heap : list tobj) (r : nat) (f : tobj -> tobj) : list tobj :=
  match heap, r with
  | [], _ => []
  | o :: t, O => f o :: t
  | o :: t, S r' => o :: hset t r' f
  end.
Record gobj : Type := mkGobj {
  gr_transactions : list nat; gr_absolute_indexes : list (Z * nat); gr_group_relative_indexes : list (gtxn * list (gtxn * Z));
  gr_operation_name : string }.
Definition set_gr_transactions v g := mkGobj v (gr_absolute_indexes g) (gr_group_relative_indexes g) (gr_operation_name g).
Definition set_gr_absolute_indexes v g := mkGobj (gr_transactions g) v (gr_group_relative_indexes g) (gr_operation_name g).
Definition set_gr_group_relative_indexes v g := mkGobj (gr_transactions g) (gr_absolute_indexes g) v (gr_operation_name g).
Definition set_gr_operation_name v g := mkGobj (gr_transactions g) (gr_absolute_indexes g) (gr_group_relative_indexes g) v.

(* ---- txn.absoulte_index is any Python int (the configuration is not validated); the model's record and Gen/GroupGen.v
   hold a natural number.  abs_slot i = the slot of the MAX_GROUP_SIZE-entry context lists that gtxn_context(i) /
   absolute_context(i) read: a negative i indexes the Python list from its end; i >= MAX_GROUP_SIZE raises
   TealerException and i < -MAX_GROUP_SIZE IndexError: both are sent to an out-of-range slot, on which Gen/GroupGen.v
   raises as well (Lemmas/AbsIndexLemmas.v: the three consumers of the index agree on i and abs_slot i, for EVERY i) *)
Definition abs_slot (i : Z) : N :=
  let m := Z.of_N MAX_GROUP_SIZE in
  if (i <? - m)%Z then MAX_GROUP_SIZE else if (i <? 0)%Z then Z.to_N (m + i) else Z.to_N i.

(* ---- the Transaction objects as Gen/GroupGen.v reads them (its GLUE TABLE 1): the model's record gtxn, a Function by
   its index, a referenced transaction by its id, the absolute index by its slot *)
Definition view_txn (heap : list tobj) (r : nat) : gtxn :=
  let o := hread heap r in
  mkTxn (o_transacton_id o) (o_type o) (o_has_logic_sig o) (option_map fst (o_logic_sig o)) (option_map fst (o_application o))
        (option_map abs_slot (o_absoulte_index o))
        (map (fun kv => (fst kv, o_transacton_id (hread heap (snd kv)))) (o_relative_indexes o)).
Definition view_group (heap : list tobj) (g : gobj) : list gtxn := map (view_txn heap) (gr_transactions g).
(* fill_group_relative_indexes(group_obj): Gen/GroupGen.v, on the current value of the attribute *)
Definition call_fill_group_relative_indexes (heap : list tobj) (g : gobj) : rs gobj :=
  rbind (of_py (fill_group_relative_indexes_gen (view_group heap g) (gr_group_relative_indexes g)))
        (fun d => Ok (set_gr_group_relative_indexes d g)).
"""

POSTLUDE = r"""
(* ---- the loop `for txn_config in config.groups: <init_group_gen>; group_objs_list.append(group_obj)` and
   `return Tealer(contracts, group_objs_list, output_group=True)` (structure checked by the translator): the groups of
   the Tealer object, each with the heap of its own transactions *)
Fixpoint mapR {A B : Type} (f : A -> rs B) (l : list A) : rs (list B) :=
  match l with
  | [] => Ok []
  | a :: t => rbind (f a) (fun b => rbind (mapR f t) (fun r => Ok (b :: r)))
  end.
Definition init_tealer_from_config_groups_gen (contracts : list (string * tcontract)) (groups : list GroupConfigGroup) : rs (list (list tobj * gobj)) :=
  mapR (init_group_gen contracts) groups.
"""

# appended to the PRELUDE (the contracts part of a configuration)
PRELUDE2 = r"""
(* ---- PRELUDE, part 2: the contracts part of a configuration *)
From Coq Require Import Ascii.
(* the str methods used by GroupConfigFunction.from_yaml, under the assumption that the text is ASCII (the reading of
   Gen/LineGen.v's prelude, same text under other names) *)
(* the ASCII code points c with chr(c).isdigit() *)
Definition ch_isdigit (c : ascii) : bool := let n := nat_of_ascii c in (Nat.leb 48 n && Nat.leb n 57)%bool.
(* s.startswith(p) *)
Definition s_startswith (s p : string) : bool := String.prefix p s.
Definition s_is_empty (s : string) : bool := match s with EmptyString => true | String _ _ => false end.
Fixpoint s_forall (f : ascii -> bool) (s : string) : bool :=
  match s with EmptyString => true | String c t => (f c && s_forall f t)%bool end.
(* s.isdigit(): at least one character, and all characters are decimal digits *)
Definition s_isdigit (s : string) : bool := (negb (s_is_empty s) && s_forall ch_isdigit s)%bool.
(* s[n:] for a constant n >= 0 (the text without its first n characters; "" when there are fewer) *)
Fixpoint s_slice_from (n : nat) (s : string) : string :=
  match n, s with
  | O, _ => s
  | S _, EmptyString => EmptyString
  | S n', String _ t => s_slice_from n' t
  end.
(* x in l / x not in l for a list of str *)
Definition s_in_list (x : string) (l : list string) : bool := existsb (String.eqb x) l.
(* List[T] at a typed place: a YAML list whose members all read as T *)
Fixpoint as_all {A : Type} (f : yv -> rs A) (l : list yv) : rs (list A) :=
  match l with
  | [] => Ok []
  | v :: t => rbind (f v) (fun a => rbind (as_all f t) (fun r => Ok (a :: r)))
  end.
Definition as_list_of {A : Type} (f : yv -> rs A) (v : yv) : rs (list A) := rbind (as_list v) (as_all f).
(* try: m  except InvalidGroupConfiguration as err: raise InvalidGroupConfiguration(f"<prefix>{err}")
   str(err) is the message of the caught exception: the template of the new message is the prefix's template followed
   by the caught one; a result and every other exception pass *)
Definition try_reraise_invalid {A : Type} (prefix : string) (m : rs A) : rs A :=
  match m with
  | Raise (EInvalid t) => Raise (EInvalid (prefix ++ t))
  | other => other
  end.
(* ---- GLUE TABLE: stores into a Teal object that is a value variable (contracts loop of init_tealer_from_config).
   There a Function object is its index in the table of constructed functions: teal.functions = {name: index} *)
Definition set_c_contract_type (v : string) (c : tcontract) : tcontract := mkContract (c_contract_name c) v (c_functions c).
Definition set_c_functions (v : list (string * nat)) (c : tcontract) : tcontract := mkContract (c_contract_name c) (c_contract_type c) v.
"""

POSTLUDE2 = r"""
(* ---- init_tealer_from_config as a whole (structure checked by the translator): `contracts = {}`, the contracts loop,
   `group_objs_list = []`, the groups loop, `return Tealer(contracts, group_objs_list, output_group=True)`:
   (contracts, the constructed functions, the groups) *)
Definition init_tealer_from_config_gen (config : GroupConfig) : rs (list (string * tcontract) * list (tcontract * list string * string) * list (list tobj * gobj)) :=
  rbind (init_contracts_gen config) (fun cf =>
  rbind (init_tealer_from_config_groups_gen (fst cf) (gc_groups config)) (fun gs => Ok (fst cf, snd cf, gs))).
"""

# ----------------------------------------------------------------------------- fingerprints
SINGLE_HEAD = [
    "teal = parse_teal(contract_src, contract_name)",
    "contracts: Dict[str, 'Teal'] = {contract_name: teal}",
    "contract_functions: Dict[str, 'Function'] = {}",
    "contract_functions[contract_name] = construct_function(teal, ['B0'], contract_name)",
    "teal.functions = contract_functions",
]
SINGLE_TAIL = ["group_objs_list = [group_obj]", "return Tealer(contracts, group_objs_list)"]
EXN_CLASS_TEXT = "class InvalidGroupConfiguration(Exception):\n    pass"
TEAL_SETTERS = {
    "contract_type": "@contract_type.setter\ndef contract_type(self, contract_type: ContractType) -> None:\n    self._contract_type = contract_type",
    "functions": "@functions.setter\ndef functions(self, functions: Dict[str, 'Function']) -> None:\n    self._functions = functions",
}
FINGERPRINTS = [
    (TEAL_REL, "Teal", "functions", "@property\ndef functions(self) -> Dict[str, 'Function']:\n    return self._functions"),
    (TEAL_REL, "Teal", "contract_name", "@property\ndef contract_name(self) -> str:\n    return self._contract_name"),
]
FUNCTION_CONTRACT_STMT = "self.contract: 'Teal' = contract"
CONSTRUCT_CALL = "function_obj = Function(function_name, entry, all_function_blocks, teal, function_main, function_subroutines)"


def check_fingerprints():
    for rel, cls, name, text in FINGERPRINTS:
        path = os.path.join(T, rel)
        fn = find_def(path, parse(path), cls, name)
        got = unparse_nodoc(fn)
        if got != text:
            fail(path, fn, f"{cls}.{name} is no longer the property the glue table stands for:\n{got}")
    # Teal.contract_type: getter returns the attribute the setter writes
    path = os.path.join(T, TEAL_REL)
    tree = parse(path)
    g = find_def(path, tree, "Teal", "contract_type")
    if ast.unparse(strip_doc(g.body)[0]) != "return self._contract_type":
        fail(path, g, "Teal.contract_type no longer returns self._contract_type")
    # Teal.contract_type / Teal.functions: the setters write the attribute the getters return
    tcls = [n for n in tree.body if isinstance(n, ast.ClassDef) and n.name == "Teal"]
    for name, text in TEAL_SETTERS.items():
        ss = [n for n in tcls[0].body if isinstance(n, ast.FunctionDef) and n.name == name and any(ast.unparse(d).endswith(".setter") for d in n.decorator_list)]
        if len(ss) != 1 or unparse_nodoc(ss[0]) != text:
            fail(path, ss[0] if ss else tcls[0], f"the setter of Teal.{name} is no longer the plain store the glue table stands for")
    # Function.contract is the constructor argument, construct_function passes teal
    path = os.path.join(T, FN_REL)
    init = find_def(path, parse(path), "Function", "__init__")
    if sum(1 for s in init.body if ast.unparse(s) == FUNCTION_CONTRACT_STMT) != 1 or [a.arg for a in init.args.args][:5] != ["self", "function_name", "entry", "blocks", "contract"]:
        fail(path, init, "Function.__init__ no longer stores its 4th argument as self.contract")
    path = os.path.join(T, PF_REL)
    cf = find_toplevel(parse(path), "construct_function", path)
    if sum(1 for s in ast.walk(cf) if isinstance(s, ast.stmt) and ast.unparse(s) == CONSTRUCT_CALL) != 1 or [a.arg for a in cf.args.args][0] != "teal":
        fail(path, cf, "construct_function no longer builds Function(.., teal, ..)")
    for s in ast.walk(cf):
        if isinstance(s, (ast.Assign, ast.AnnAssign, ast.AugAssign, ast.For)):
            tgs = s.targets if isinstance(s, ast.Assign) else [s.target]
            if any(isinstance(n, ast.Name) and n.id == "teal" for tg in tgs for n in ast.walk(tg)):
                fail(path, s, "construct_function re-binds teal")
    # enums
    path = os.path.join(T, ENUM_REL)
    tree = parse(path)
    for name, (_, text) in ENUMS.items():
        cs = [n for n in tree.body if isinstance(n, ast.ClassDef) and n.name == name]
        if len(cs) != 1:
            raise TranslateError(f"translator: {path}: expected exactly one class {name}")
        import copy

        c = copy.deepcopy(cs[0])
        c.body = strip_doc(c.body)
        if ast.unparse(c) != text:
            fail(path, cs[0], f"enum {name} changed:\n{ast.unparse(c)}")


def enum_members(name):
    return [l.split("=")[0].strip() for l in ENUMS[name][1].split("\n")[1:] if " = " in l and not l.strip().startswith(("def", "return"))]


# ----------------------------------------------------------------------------- annotations -> types
def ann_type(path, node, yaml_any=False):
    if isinstance(node, ast.Constant) and isinstance(node.value, str):
        node = ast.parse(node.value, mode="eval").body
    if isinstance(node, ast.Name):
        if node.id in ("str", "int", "bool"):
            return {"str": STR, "int": INT, "bool": BOOL}[node.id]
        if node.id in DATACLASSES:
            return DATACLASSES[node.id][1]
        if node.id == "Transaction":
            return REF
        if node.id == "GroupTransaction":
            return GOBJ
        if node.id == "Function":
            return FN
        if node.id == "Teal":
            return CONTRACT
        if node.id == "Path":
            return STR  # GLUE: a Path is its text
        if node.id == "Any" and yaml_any:
            return YV
    if isinstance(node, ast.Subscript) and isinstance(node.value, ast.Name):
        h = node.value.id
        if h == "Optional":
            return opt(ann_type(path, node.slice, yaml_any))
        if h == "List":
            return lst(ann_type(path, node.slice, yaml_any))
        if h == "Dict" and isinstance(node.slice, ast.Tuple) and len(node.slice.elts) == 2:
            k = ann_type(path, node.slice.elts[0], yaml_any)
            v = ann_type(path, node.slice.elts[1], yaml_any)
            if k == STR and v == YV:
                return YMAP
            if k not in (STR, INT):
                fail(path, node, "dictionary key type")
            return dct(k, v)
    fail(path, node, f"type annotation {ast.unparse(node)}")


# ----------------------------------------------------------------------------- dataclasses -> Records
class DataClasses:
    def __init__(self, path, tree):
        self.fields = {}  # class -> [(name, type)]
        self.text = []
        for cname, (prefix, _) in DATACLASSES.items():
            cs = [n for n in tree.body if isinstance(n, ast.ClassDef) and n.name == cname]
            if len(cs) != 1:
                raise TranslateError(f"translator: {path}: expected exactly one class {cname}")
            c = cs[0]
            if [ast.unparse(d) for d in c.decorator_list] != ["dataclass"] or c.bases:
                fail(path, c, f"{cname} is not a plain @dataclass")
            fs = []
            for s in strip_doc(c.body):
                if isinstance(s, ast.AnnAssign) and isinstance(s.target, ast.Name):
                    t = ann_type(path, s.annotation)
                    if s.value is not None:
                        if not (isinstance(s.value, ast.Constant) and s.value.value is None and t[0] == "option"):
                            fail(path, s, "dataclass default other than None on an Optional field")
                    elif any(True for _ in []):
                        pass
                    fs.append((s.target.id, t, s.value is not None))
                elif isinstance(s, ast.FunctionDef):
                    if s.name == "__init__" or s.name == "__post_init__":
                        fail(path, s, "dataclass with its own constructor")
                else:
                    fail(path, s, "statement in a dataclass body")
            seen_default = False
            for n, t, d in fs:
                if seen_default and not d:
                    fail(path, c, "field without default after a field with default")
                seen_default |= d
            self.fields[cname] = [(n, t) for n, t, _ in fs]
        # dependency order: FunctionCall, Transaction, Group
        for cname in DATACLASSES_1:
            prefix = DATACLASSES[cname][0]
            fl = "; ".join(f"{prefix}{n} : {coqty(t)}" for n, t in self.fields[cname])
            self.text.append(f"Record {cname} : Type := mk{cname} {{ {fl} }}.")
        # the contracts part (emitted after the group part): Function, Contract, Config
        self.text2 = []
        for cname in DATACLASSES_2:
            prefix = DATACLASSES[cname][0]
            fl = "; ".join(f"{prefix}{n} : {coqty(t)}" for n, t in self.fields[cname])
            self.text2.append(f"Record {cname} : Type := mk{cname} {{ {fl} }}.")

    def attr(self, cls_t, name):
        cname = cls_t[0]
        for n, t in self.fields[cname]:
            if n == name:
                return DATACLASSES[cname][0] + n, t
        return None


# ----------------------------------------------------------------------------- __init__ defaults
def init_record(path, tree, cname, attrs, anns, prefix, coqname, rectype):
    cs = [n for n in tree.body if isinstance(n, ast.ClassDef) and n.name == cname]
    if len(cs) != 1:
        raise TranslateError(f"translator: {path}: expected exactly one class {cname}")
    c = cs[0]
    body = strip_doc(c.body)
    if c.bases or c.decorator_list or len(body) != 1 or not isinstance(body[0], ast.FunctionDef) or body[0].name != "__init__":
        fail(path, c, f"class {cname} is no longer a plain class with only __init__ (identity of objects = `is`)")
    init = body[0]
    if [a.arg for a in init.args.args] != ["self"] or init.args.vararg or init.args.kwarg or init.args.kwonlyargs:
        fail(path, init, "constructor takes arguments")
    vals = {}
    for s in strip_doc(init.body):
        if not (isinstance(s, ast.AnnAssign) and isinstance(s.target, ast.Attribute) and isinstance(s.target.value, ast.Name) and s.target.value.id == "self" and s.value is not None):
            fail(path, s, "statement of __init__")
        a = s.target.attr
        if a not in attrs or a in vals:
            fail(path, s, f"attribute {a} unknown to the glue table / set twice")
        if ast.unparse(s.annotation) != anns[a]:
            fail(path, s, f"annotation of {a} is no longer {anns[a]}")
        t = attrs[a]
        v = s.value
        if isinstance(v, ast.Constant) and v.value is None and t[0] == "option":
            term = "None"
        elif isinstance(v, ast.Constant) and v.value is None and t == GREF:
            term = "false"
        elif isinstance(v, ast.Constant) and isinstance(v.value, bool) and t == BOOL:
            term = "true" if v.value else "false"
        elif isinstance(v, ast.Constant) and isinstance(v.value, str) and t == STR:
            term = coq_str(v.value)
        elif isinstance(v, ast.Dict) and not v.keys and t[0] in ("dict", "gri"):
            term = "[]"
        elif isinstance(v, ast.List) and not v.elts and t[0] == "list":
            term = "[]"
        elif isinstance(v, ast.Attribute) and isinstance(v.value, ast.Name) and v.value.id == "TransactionType" and t == TTYPE and v.attr in enum_members("TransactionType"):
            term = coq_str(v.attr)
        else:
            fail(path, s, f"initial value of {a}")
        vals[a] = term
    if set(vals) != set(attrs):
        fail(path, init, f"attributes {sorted(set(attrs) - set(vals))} are not initialised")
    fl = "; ".join(f"{prefix}{a} := {vals[a]}" for a in attrs)
    return f"(* {TX_REL}: {cname}.__init__ (line {init.lineno}) *)\nDefinition {coqname} : {rectype} := {{| {fl} |}}."


# ----------------------------------------------------------------------------- the statement translator
def ind(s, n=2):
    return "\n".join(" " * n + l for l in s.split("\n"))


def tup(vs):
    return "tt" if not vs else (vs[0] if len(vs) == 1 else "(" + ", ".join(vs) + ")")


def tupty(ts):
    return "unit" if not ts else (coqty(ts[0]) if len(ts) == 1 else "(" + " * ".join(coqty(t, False) for t in ts) + ")%type")


def destruct(vs, src):
    """let-pattern that binds the state variables from the tuple `src`"""
    if not vs:
        return ""
    if len(vs) == 1:
        return f"let {vs[0]} := {src} in\n"
    return f"let '({', '.join(vs)}) := {src} in\n"


def always_raises(stmts):
    return bool(stmts) and isinstance(stmts[-1], ast.Raise)


class Tr:
    def __init__(self, path, dcs, funs, module_consts):
        self.path = path
        self.dcs = dcs
        self.funs = funs  # name -> (coq name, [param types], result type)
        self.consts = module_consts  # name -> (coq name, type)
        self.n = 0
        self.gvars = set()
        self.loop_depth = 0

    def fresh(self):
        self.n += 1
        return f"tmp{self.n}"

    def name_ok(self, node, n):
        if n in RESERVED or n.startswith("tmp") or n.startswith("set_") or n.startswith("o_") or n.startswith("gr_"):
            fail(self.path, node, f"variable name {n} collides with a name of the Gallina prelude")

    # ------------------------------------------------------------------ expressions
    def pure(self, e, env, nar):
        b, t, ty = self.expr(e, env, nar)
        if b:
            fail(self.path, e, "an expression that may raise where a pure one is required")
        return t, ty

    def expr(self, e, env, nar):
        """-> (binds [(var, monadic term)], term, type)"""
        d = ast.dump(e)
        if d in nar:
            v, t, _ = nar[d]
            return [], v, t
        if isinstance(e, ast.Constant):
            if e.value is True or e.value is False:
                return [], "true" if e.value else "false", BOOL
            if e.value is None:
                return [], "None", NONE
            if isinstance(e.value, int):
                return [], f"({e.value})%Z", INT
            if isinstance(e.value, str):
                return [], coq_str(e.value), STR
            fail(self.path, e, "constant")
        if isinstance(e, ast.Name):
            if e.id in env:
                return [], e.id, env[e.id]
            if e.id in self.consts:
                return [], self.consts[e.id][0], self.consts[e.id][1]
            fail(self.path, e, f"unknown name {e.id} (not bound on every path to this point)")
        if isinstance(e, ast.Attribute):
            if isinstance(e.value, ast.Name) and e.value.id in ENUMS and e.value.id not in env:
                if e.attr not in enum_members(e.value.id):
                    fail(self.path, e, f"{e.value.id} has no member {e.attr}")
                return [], coq_str(e.attr), ENUMS[e.value.id][0]
            b, t, ty = self.expr(e.value, env, nar)
            if ty[0] in DATACLASSES:
                r = self.dcs.attr(ty, e.attr)
                if r is None:
                    fail(self.path, e, f"{ty[0]} has no field {e.attr}")
                return b, f"({r[0]} {t})", r[1]
            if ty == REF and e.attr in TXN_ATTRS:
                return b, f"(o_{e.attr} (hread heap {t}))", TXN_ATTRS[e.attr]
            if ty == GOBJ and e.attr in GRP_ATTRS:
                return b, f"(gr_{e.attr} {t})", GRP_ATTRS[e.attr]
            if ty == CONTRACT and e.attr in CONTRACT_ATTRS:
                return b, f"({CONTRACT_ATTRS[e.attr][0]} {t})", CONTRACT_ATTRS[e.attr][1]
            if ty == FN and e.attr in FN_ATTRS:
                return b, f"({FN_ATTRS[e.attr][0]} {t})", FN_ATTRS[e.attr][1]
            fail(self.path, e, f"attribute .{e.attr} of a value of type {ty}")
        if isinstance(e, ast.Subscript) and isinstance(e.slice, ast.Slice):
            # s[n:] on a str, n a non-negative constant
            sl = e.slice
            if sl.upper is not None or sl.step is not None or not (isinstance(sl.lower, ast.Constant) and type(sl.lower.value) is int and sl.lower.value >= 0):
                fail(self.path, e, "slice other than [n:] with a constant n >= 0")
            b1, t1, ty1 = self.expr(e.value, env, nar)
            if ty1 != STR:
                fail(self.path, e, f"slice of a value of type {ty1}")
            return b1, f"(s_slice_from {sl.lower.value} {t1})", STR
        if isinstance(e, ast.Subscript):
            b1, t1, ty1 = self.expr(e.value, env, nar)
            b2, t2, ty2 = self.expr(e.slice, env, nar)
            if ty1 == YV:
                bb, t1 = self.coerce(e, t1, YV, YMAP)
                b1, ty1 = b1 + bb, YMAP
            v = self.fresh()
            if ty1 == YMAP and ty2 == STR:
                return b1 + b2 + [(v, f"(sdict_get {t2} {t1})")], v, YV
            if ty1[0] != "dict" or ty1[1] != ty2:
                fail(self.path, e, f"subscript of {ty1} with {ty2}")
            g = "sdict_get" if ty2 == STR else "zdict_get"
            return b1 + b2 + [(v, f"({g} {t2} {t1})")], v, ty1[2]
        if isinstance(e, ast.Compare) and len(e.ops) == 1:
            op = e.ops[0]
            l, r = e.left, e.comparators[0]
            if isinstance(op, (ast.Is, ast.IsNot)):
                if not (isinstance(r, ast.Constant) and r.value is None):
                    fail(self.path, e, "`is` with something else than None")
                b, t, ty = self.expr(l, env, nar)
                if ty[0] != "option":
                    fail(self.path, e, f"`is None` on a value of type {ty}")
                s = f"(opt_is_some {t})"
                return b, s if isinstance(op, ast.IsNot) else f"(negb {s})", BOOL
            b1, t1, ty1 = self.expr(l, env, nar)
            b2, t2, ty2 = self.expr(r, env, nar)
            if isinstance(op, (ast.In, ast.NotIn)):
                if ty1 == YV and ty2[0] == "dict":
                    bb, t1 = self.coerce(e, t1, YV, ty2[1])
                    b1, ty1 = b1 + bb, ty2[1]
                if ty2 == YMAP and ty1 == STR:
                    s = f"(sdict_mem {t1} {t2})"
                elif ty2[0] == "dict" and ty2[1] == ty1:
                    s = f"({'sdict_mem' if ty1 == STR else 'zdict_mem'} {t1} {t2})"
                elif ty2 == lst(STR) and ty1 == STR:
                    s = f"(s_in_list {t1} {t2})"
                else:
                    fail(self.path, e, f"`in` between {ty1} and {ty2}")
                return b1 + b2, s if isinstance(op, ast.In) else f"(negb {s})", BOOL
            if isinstance(op, (ast.Eq, ast.NotEq)):
                if ty1 != ty2 or ty1 not in (STR, CTYPE, TTYPE, INT, BOOL):
                    fail(self.path, e, f"comparison between {ty1} and {ty2}")
                f = {STR: "String.eqb", CTYPE: "String.eqb", TTYPE: "String.eqb", INT: "Z.eqb", BOOL: "Bool.eqb"}[ty1]
                s = f"({f} {t1} {t2})"
                return b1 + b2, s if isinstance(op, ast.Eq) else f"(negb {s})", BOOL
            fail(self.path, e, "comparison operator")
        if isinstance(e, ast.UnaryOp) and isinstance(e.op, ast.Not):
            b, t, ty = self.expr(e.operand, env, nar)
            if ty == BOOL:
                return b, f"(negb {t})", BOOL
            if ty[0] in ("list", "dict"):  # `not l`: the list is empty
                return b, f"(match {t} with [] => true | _ => false end)", BOOL
            fail(self.path, e, f"`not` on {ty}")
        if isinstance(e, ast.BoolOp):
            parts = [self.pure(v, env, nar) for v in e.values]
            if any(ty != BOOL for _, ty in parts):
                fail(self.path, e, "and/or on non-booleans")
            o = "&&" if isinstance(e.op, ast.And) else "||"
            return [], "(" + f" {o} ".join(t for t, _ in parts) + ")%bool", BOOL
        if isinstance(e, ast.List):
            if not e.elts:
                return [], "[]", ("emptylist",)
            parts = [self.pure(v, env, nar) for v in e.elts]
            if any(ty != parts[0][1] for _, ty in parts):
                fail(self.path, e, "list literal with elements of different types")
            return [], "[" + "; ".join(t for t, _ in parts) + "]", lst(parts[0][1])
        if isinstance(e, ast.Dict) and not e.keys:
            return [], "[]", ("emptydict",)
        if isinstance(e, ast.Dict):
            # a dict literal with distinct constant str keys: the association list in the order of the literal
            ks = []
            for kx in e.keys:
                if not (isinstance(kx, ast.Constant) and isinstance(kx.value, str)) or kx.value in ks:
                    fail(self.path, e, "dict literal whose keys are not distinct str constants")
                ks.append(kx.value)
            parts = [self.pure(v, env, nar) for v in e.values]
            if any(ty != parts[0][1] for _, ty in parts):
                fail(self.path, e, "dict literal with values of different types")
            return [], "[" + "; ".join(f"({coq_str(k)}, {t})" for k, (t, _) in zip(ks, parts)) + "]", dct(STR, parts[0][1])
        if isinstance(e, ast.Call):
            return self.call(e, env, nar)
        fail(self.path, e, f"expression {type(e).__name__}")

    def call(self, e, env, nar):
        if e.keywords:
            fail(self.path, e, "keyword arguments")
        f = e.func
        # list(d.values())
        if isinstance(f, ast.Name) and f.id == "list" and f.id not in env and len(e.args) == 1:
            a = e.args[0]
            if isinstance(a, ast.Call) and isinstance(a.func, ast.Attribute) and a.func.attr == "values" and not a.args and not a.keywords:
                b, t, ty = self.expr(a.func.value, env, nar)
                if ty[0] != "dict":
                    fail(self.path, e, ".values() of a non-dictionary")
                return b, f"(dict_values {t})", lst(ty[2])
            fail(self.path, e, "list(..) of something else than d.values()")
        # d.get(k) on a YAML map
        if isinstance(f, ast.Attribute) and f.attr == "get" and len(e.args) == 1:
            b, t, ty = self.expr(f.value, env, nar)
            b2, t2, ty2 = self.expr(e.args[0], env, nar)
            if ty == YMAP and ty2 == STR:
                return b + b2, f"(ymap_get_opt {t2} {t})", opt(YV)
            fail(self.path, e, ".get on a value that is not a YAML map")
        # Path(x): GLUE, a Path is its text
        if isinstance(f, ast.Name) and f.id == "Path" and f.id not in env and len(e.args) == 1:
            b, t, ty = self.expr(e.args[0], env, nar)
            b2, t2 = self.coerce(e, t, ty, STR)
            return b + b2, t2, STR
        # s.startswith("..") / s.isdigit() on a str
        if isinstance(f, ast.Attribute) and f.attr in ("startswith", "isdigit"):
            b, t, ty = self.expr(f.value, env, nar)
            if ty != STR:
                fail(self.path, e, f".{f.attr} of a value of type {ty}")
            if f.attr == "isdigit":
                if e.args:
                    fail(self.path, e, "isdigit with arguments")
                return b, f"(s_isdigit {t})", BOOL
            if len(e.args) != 1 or not (isinstance(e.args[0], ast.Constant) and isinstance(e.args[0].value, str)):
                fail(self.path, e, "startswith of something else than one str constant")
            return b, f"(s_startswith {t} {coq_str(e.args[0].value)})", BOOL
        # ", ".join(..) only inside messages: not an expression here
        if isinstance(f, ast.Name) and f.id in self.funs and f.id not in env:
            coqn, ptys, rty = self.funs[f.id]
            return self.apply(e, coqn, ptys, rty, e.args, env, nar)
        if isinstance(f, ast.Attribute) and isinstance(f.value, ast.Name) and f.value.id in DATACLASSES and f.value.id not in env and f.attr == "from_yaml":
            key = f"{f.value.id}.from_yaml"
            if key not in self.funs:
                fail(self.path, e, f"{key} is not translated (yet)")
            coqn, ptys, rty = self.funs[key]
            return self.apply(e, coqn, ptys, rty, e.args, env, nar)
        if isinstance(f, ast.Name) and f.id in DATACLASSES and f.id not in env:
            fields = self.dcs.fields[f.id]
            if len(e.args) != len(fields):
                fail(self.path, e, f"{f.id}(..) with {len(e.args)} positional arguments for {len(fields)} fields")
            binds, terms = [], []
            for a, (_, fty) in zip(e.args, fields):
                b, t, ty = self.expr(a, env, nar)
                b2, t2 = self.coerce(a, t, ty, fty)
                binds += b + b2
                terms.append(t2)
            return binds, f"(mk{f.id} {' '.join(terms)})", DATACLASSES[f.id][1]
        fail(self.path, e, f"call {ast.unparse(f)}")

    def apply(self, e, coqn, ptys, rty, args, env, nar):
        if len(args) != len(ptys):
            fail(self.path, e, "number of arguments")
        binds, terms = [], []
        for a, pty in zip(args, ptys):
            b, t, ty = self.expr(a, env, nar)
            b2, t2 = self.coerce(a, t, ty, pty)
            binds += b + b2
            terms.append(t2)
        v = self.fresh()
        return binds + [(v, f"({coqn} {' '.join(terms)})")], v, rty

    def coerce(self, node, term, ty, want):
        """-> (binds, term) of type `want`"""
        if ty == want:
            return [], term
        if want[0] == "option" and ty == want[1]:
            return [], f"(Some {term})"
        if want[0] == "option" and ty == NONE:
            return [], "None"
        if ty == ("emptylist",) and want[0] == "list":
            return [], "[]"
        if ty == ("emptydict",) and want[0] in ("dict", "ymap"):
            return [], "[]"
        # typed reading of YAML values
        yread = {STR: "as_str", INT: "as_int", BOOL: "as_bool", YMAP: "as_map"}
        if ty == YV and want in yread:
            v = self.fresh()
            return [(v, f"({yread[want]} {term})")], v
        if ty == YV and want == lst(YV):
            v = self.fresh()
            return [(v, f"(as_list {term})")], v
        if ty == YV and want[0] == "list" and want[1] in yread:
            v = self.fresh()
            return [(v, f"(as_list_of {yread[want[1]]} {term})")], v
        if ty == opt(YV) and want[0] == "option" and want[1] in yread:
            v = self.fresh()
            return [(v, f"(as_opt {yread[want[1]]} {term})")], v
        fail(self.path, node, f"a value of type {ty} where {want} is expected")

    def infer_list(self, s, n):
        found = set()
        for node in ast.walk(ast.Module(body=self.body, type_ignores=[])):
            if isinstance(node, ast.Call) and isinstance(node.func, ast.Attribute) and node.func.attr == "append" and isinstance(node.func.value, ast.Name) and node.func.value.id == n:
                a = node.args[0] if len(node.args) == 1 else None
                if isinstance(a, ast.Call) and isinstance(a.func, ast.Attribute) and a.func.attr == "from_yaml" and isinstance(a.func.value, ast.Name) and a.func.value.id in DATACLASSES:
                    found.add(DATACLASSES[a.func.value.id][1])
                else:
                    fail(self.path, node, f"element type of the list {n} is not determined")
        if len(found) != 1:
            fail(self.path, s, f"element type of the list {n} is not determined")
        return lst(found.pop())

    def wrap(self, binds, body):
        for v, m in reversed(binds):
            body = f"rbind {m} (fun {v} =>\n{body})"
        return body

    def template(self, node):
        """message of an exception: constant parts, `{}` for holes; holes are effect-free"""
        if isinstance(node, ast.Constant) and isinstance(node.value, str):
            return node.value
        if not isinstance(node, ast.JoinedStr):
            fail(self.path, node, "exception message that is not a string / f-string")
        out = ""
        for v in node.values:
            if isinstance(v, ast.Constant):
                out += v.value
            else:
                for n in ast.walk(v.value):
                    ok = isinstance(n, (ast.Name, ast.Attribute, ast.Subscript, ast.Constant, ast.Load))
                    ok |= isinstance(n, ast.Call) and isinstance(n.func, ast.Attribute) and n.func.attr == "join" and isinstance(n.func.value, ast.Constant)
                    if not ok:
                        fail(self.path, v, "hole of an exception message with an effect")
                out += "{}"
        return out.replace("\n", "\\n")

    def raise_term(self, s):
        x = s.exc
        if s.cause is not None or not (isinstance(x, ast.Call) and isinstance(x.func, ast.Name) and x.func.id in EXN_CLASSES and len(x.args) == 1 and not x.keywords):
            fail(self.path, s, "raise of something else than TealerException(msg) / InvalidGroupConfiguration(msg)")
        return f"Raise ({EXN_CLASSES[x.func.id]} {coq_str(self.template(x.args[0]))})"

    # ------------------------------------------------------------------ assigned variables
    def assigned(self, stmts, env):
        out = []

        def add(n):
            if n not in out:
                out.append(n)

        def store(tg, node):
            if isinstance(tg, ast.Name):
                add(tg.id)
                return
            if isinstance(tg, ast.Subscript):
                tg = tg.value
                if isinstance(tg, ast.Name):
                    add(tg.id)
                    return
            if isinstance(tg, ast.Attribute) and isinstance(tg.value, ast.Name):
                n = tg.value.id
                add(n if (n in self.gvars or n in self.cvars or env.get(n) == GOBJ) else "heap")
                return
            fail(self.path, node, "assignment target")

        def go(ss):
            for s in ss:
                if isinstance(s, ast.Assign):
                    for tg in s.targets:
                        store(tg, s)
                    if isinstance(s.value, ast.Call) and isinstance(s.value.func, ast.Name) and s.value.func.id == "Transaction":
                        add("heap")
                    if isinstance(s.value, ast.Call) and isinstance(s.value.func, ast.Name) and s.value.func.id == "construct_function":
                        add("ftable")
                elif isinstance(s, ast.AnnAssign):
                    store(s.target, s)
                elif isinstance(s, ast.For):
                    go(s.body)
                    go(s.orelse)
                elif isinstance(s, ast.If):
                    go(s.body)
                    go(s.orelse)
                elif isinstance(s, ast.With):
                    go(s.body)
                elif isinstance(s, ast.Try):
                    go(s.body)  # the handler only raises (try_)
                elif isinstance(s, ast.Expr) and isinstance(s.value, ast.Call):
                    c = s.value
                    if isinstance(c.func, ast.Name) and c.func.id == "fill_group_relative_indexes" and len(c.args) == 1 and isinstance(c.args[0], ast.Name):
                        add(c.args[0].id)
                    elif isinstance(c.func, ast.Attribute) and c.func.attr == "append" and isinstance(c.func.value, ast.Name):
                        add(c.func.value.id)
                    else:
                        fail(self.path, s, "expression statement")
                elif isinstance(s, (ast.Raise, ast.Return, ast.Pass)):
                    pass
                else:
                    fail(self.path, s, f"statement {type(s).__name__}")

        go(stmts)
        return out

    def state_of(self, stmts, env):
        a = self.assigned(stmts, env)
        sv = [n for n in a if n in env]
        if "heap" in sv:
            sv.remove("heap")
            sv.insert(0, "heap")
        return sv

    def drop_nar(self, nar, changed):
        return {d: v for d, v in nar.items() if not (set(v[2]) & set(changed))}

    def deps(self, e, env):
        ds = {n.id for n in ast.walk(e) if isinstance(n, ast.Name)}
        for n in ast.walk(e):
            if isinstance(n, ast.Attribute) and isinstance(n.value, ast.Name) and env.get(n.value.id) == REF:
                ds.add("heap")
        return ds

    # ------------------------------------------------------------------ statements
    def block(self, stmts, env, nar, k):
        """Gallina term (of type rs _) for `stmts` followed by the continuation k(env, nar)"""
        if not stmts:
            return k(env, nar)
        s, rest = stmts[0], stmts[1:]
        go = lambda env2, nar2: self.block(rest, env2, nar2, k)  # noqa: E731
        if isinstance(s, ast.Pass):
            return go(env, nar)
        if isinstance(s, ast.Raise):
            if rest:
                fail(self.path, rest[0], "statement after raise")
            return self.raise_term(s)
        if isinstance(s, ast.Return):
            if rest:
                fail(self.path, rest[0], "statement after return")
            return k(env, nar, ret=s)
        if isinstance(s, (ast.Assign, ast.AnnAssign)):
            return self.assign(s, env, nar, go)
        if isinstance(s, ast.Expr) and isinstance(s.value, ast.Call):
            c = s.value
            if isinstance(c.func, ast.Name) and c.func.id == "fill_group_relative_indexes" and len(c.args) == 1 and isinstance(c.args[0], ast.Name) and not c.keywords:
                g = c.args[0].id
                if env.get(g) != GOBJ:
                    fail(self.path, s, "fill_group_relative_indexes of something that is not the group object")
                return f"rbind (call_fill_group_relative_indexes heap {g}) (fun {g} =>\n{go(env, self.drop_nar(nar, [g]))})"
            if isinstance(c.func, ast.Attribute) and c.func.attr == "append" and isinstance(c.func.value, ast.Name) and len(c.args) == 1 and not c.keywords:
                n = c.func.value.id
                if n not in env or env[n][0] != "list":
                    fail(self.path, s, f".append on {n}")
                b, t, ty = self.expr(c.args[0], env, nar)
                b2, t2 = self.coerce(s, t, ty, env[n][1])
                return self.wrap(b + b2, f"let {n} := {n} ++ [{t2}] in\n{go(env, self.drop_nar(nar, [n]))}")
            fail(self.path, s, "expression statement")
        if isinstance(s, ast.If):
            return self.if_(s, env, nar, go)
        if isinstance(s, ast.For):
            return self.for_(s, env, nar, go)
        if isinstance(s, ast.Try):
            return self.try_(s, env, nar, go)
        if isinstance(s, ast.With):
            return self.with_(s, env, nar, go)
        fail(self.path, s, f"statement {type(s).__name__}")

    def try_(self, s, env, nar, go):
        """try: body  except InvalidGroupConfiguration as err: raise InvalidGroupConfiguration(f"<prefix>{err}")"""
        if s.orelse or s.finalbody or len(s.handlers) != 1:
            fail(self.path, s, "try with else / finally / several handlers")
        h = s.handlers[0]
        if not (isinstance(h.type, ast.Name) and h.type.id == "InvalidGroupConfiguration" and h.name and len(h.body) == 1 and isinstance(h.body[0], ast.Raise)):
            fail(self.path, h, "handler other than `except InvalidGroupConfiguration as err: raise ..`")
        r = h.body[0]
        x = r.exc
        if r.cause is not None or not (isinstance(x, ast.Call) and isinstance(x.func, ast.Name) and x.func.id == "InvalidGroupConfiguration" and len(x.args) == 1 and not x.keywords and isinstance(x.args[0], ast.JoinedStr) and x.args[0].values):
            fail(self.path, r, "the handler does not raise InvalidGroupConfiguration(f\"..\")")
        js = x.args[0]
        last = js.values[-1]
        if not (isinstance(last, ast.FormattedValue) and isinstance(last.value, ast.Name) and last.value.id == h.name and last.conversion == -1 and last.format_spec is None):
            fail(self.path, r, "the message of the handler does not end with the caught exception `{err}`")
        rest = ast.JoinedStr(values=js.values[:-1])
        if any(isinstance(n, ast.Name) and n.id == h.name for n in ast.walk(rest)):
            fail(self.path, r, "the caught exception is used twice in the message")
        prefix = self.template(rest)
        self.name_ok(h, h.name)
        if h.name in env:
            fail(self.path, h, f"{h.name} shadows a bound variable")
        sv = self.state_of(s.body, env)
        svt = [env[n] for n in sv]
        body_t = self.block(s.body, env, nar, lambda e2, n2, ret=None: self.no_ret(ret, f"Ok {tup(sv)}"))
        return f"rbind (try_reraise_invalid {coq_str(prefix)} (\n{ind(body_t)})) (fun (st : {tupty(svt)}) =>\n{destruct(sv, 'st')}{go(env, self.drop_nar(nar, sv))})"

    def with_(self, s, env, nar, go):
        """with open(path, encoding='utf-8') as f: teal = parse_teal(f.read(), name)   (contracts loop only)"""
        if not self.contracts_mode:
            fail(self.path, s, "with statement")
        if len(s.items) != 1 or len(s.body) != 1:
            fail(self.path, s, "with statement other than `with open(..) as f: x = parse_teal(f.read(), ..)`")
        it = s.items[0]
        c = it.context_expr
        if not (isinstance(c, ast.Call) and isinstance(c.func, ast.Name) and c.func.id == "open" and "open" not in env and len(c.args) == 1
                and [(k.arg, ast.unparse(k.value)) for k in c.keywords] == [("encoding", "'utf-8'")] and isinstance(it.optional_vars, ast.Name)):  # fmt: skip
            fail(self.path, s, "context manager other than open(path, encoding='utf-8') as f")
        f = it.optional_vars.id
        a = s.body[0]
        if not (isinstance(a, ast.Assign) and len(a.targets) == 1 and isinstance(a.targets[0], ast.Name) and isinstance(a.value, ast.Call) and isinstance(a.value.func, ast.Name)
                and a.value.func.id == "parse_teal" and "parse_teal" not in env and len(a.value.args) == 2 and not a.value.keywords and ast.unparse(a.value.args[0]) == f"{f}.read()"):  # fmt: skip
            fail(self.path, a, "body of the with statement other than `x = parse_teal(f.read(), name)`")
        if f in env or any(isinstance(n, ast.Name) and n.id == f for n in ast.walk(a.value.args[1])) or any(isinstance(n, ast.Name) and n.id == f for n in ast.walk(c.args[0])):
            fail(self.path, s, f"the file object {f} is used elsewhere")
        n = a.targets[0].id
        self.name_ok(a, n)
        if n not in self.cvars or (n in env and env[n] != CONTRACT):
            fail(self.path, a, f"{n} is not a Teal value variable")
        bp, tp, typ = self.expr(c.args[0], env, nar)
        bp2, tp2 = self.coerce(c, tp, typ, STR)
        bn, tn, tyn = self.expr(a.value.args[1], env, nar)
        bn2, tn2 = self.coerce(a, tn, tyn, STR)
        v = self.fresh()
        env2 = dict(env)
        env2[n] = CONTRACT
        return self.wrap(bp + bp2 + bn + bn2 + [(v, f"(load_and_parse {tp2} {tn2})")], f"let {n} := {v} in\n{go(env2, self.drop_nar(nar, [n]))}")

    def fnmode(self, t):
        """in the contracts loop a Function object is its index in the table of constructed functions"""
        if not self.contracts_mode:
            return t
        if t == FN:
            return FNIDX
        if t[0] in ("option", "list"):
            return (t[0], self.fnmode(t[1]))
        if t[0] == "dict":
            return (t[0], t[1], self.fnmode(t[2]))
        return t

    def assign(self, s, env, nar, go):
        if isinstance(s, ast.Assign):
            if len(s.targets) != 1:
                fail(self.path, s, "chained assignment")
            tg, val, ann = s.targets[0], s.value, None
        else:
            tg, val, ann = s.target, s.value, s.annotation
            if val is None:
                fail(self.path, s, "annotation without value")
        # ---- allocations
        if isinstance(val, ast.Call) and isinstance(val.func, ast.Name) and val.func.id in ("Transaction", "GroupTransaction") and val.func.id not in env:
            if val.args or val.keywords or not isinstance(tg, ast.Name):
                fail(self.path, s, "constructor call")
            n = tg.id
            self.name_ok(s, n)
            if val.func.id == "Transaction":
                if n in env and env[n] != REF:
                    fail(self.path, s, f"{n} re-bound with another type")
                env2 = dict(env)
                env2[n] = REF
                return f"let {n} := length heap in\nlet heap := heap ++ [Transaction_init] in\n{go(env2, self.drop_nar(nar, [n, 'heap']))}"
            if self.loop_depth or n in env or self.gvars != {n} or self.group_allocated:
                fail(self.path, s, "GroupTransaction() must be allocated exactly once, outside every loop, in a fresh variable")
            self.group_allocated = True
            env2 = dict(env)
            env2[n] = GOBJ
            return f"let {n} := GroupTransaction_init in\n{go(env2, nar)}"
        # ---- func = construct_function(teal, dispatch_path, name)   (contracts loop only): the next index of the
        #      table of constructed functions; the call itself is an uninterpreted parameter (it may raise)
        if isinstance(val, ast.Call) and isinstance(val.func, ast.Name) and val.func.id == "construct_function" and "construct_function" not in env:
            if not self.contracts_mode or val.keywords or len(val.args) != 3 or not isinstance(tg, ast.Name) or ann is not None or "ftable" not in env:
                fail(self.path, s, "construct_function call")
            a0 = val.args[0]
            if not (isinstance(a0, ast.Name) and a0.id in self.cvars and env.get(a0.id) == CONTRACT):
                fail(self.path, s, "first argument of construct_function is not the Teal value variable")
            b1, t1, ty1 = self.expr(val.args[1], env, nar)
            b1c, t1 = self.coerce(s, t1, ty1, lst(STR))
            b2, t2, ty2 = self.expr(val.args[2], env, nar)
            b2c, t2 = self.coerce(s, t2, ty2, STR)
            n = tg.id
            self.name_ok(s, n)
            if n in self.cvars or n in self.gvars or (n in env and env[n] != FNIDX):
                fail(self.path, s, f"{n} re-bound with another type")
            v = self.fresh()
            env2 = dict(env)
            env2[n] = FNIDX
            return self.wrap(
                b1 + b1c + b2 + b2c + [(v, f"(construct_function_call {a0.id} {t1} {t2})")],
                f"let {n} := length ftable in\nlet ftable := ftable ++ [({a0.id}, {t1}, {t2})] in\n{go(env2, self.drop_nar(nar, [n, 'ftable']))}",
            )
        b, t, ty = self.expr(val, env, nar)
        # ---- x = e
        if isinstance(tg, ast.Name):
            n = tg.id
            self.name_ok(s, n)
            if n in self.gvars:
                fail(self.path, s, "the group object variable is re-bound")
            if n in self.cvars:
                fail(self.path, s, "a Teal value variable is bound to something else than parse_teal(..)")
            want = self.fnmode(ann_type(self.path, ann, yaml_any=True)) if ann is not None else None
            if n in env:
                if want is not None and want != env[n]:
                    fail(self.path, s, f"{n} re-annotated")
                want = env[n]
                if self.retype == n and want[0] == "option" and ty != want and ty != want[1] and ty not in (NONE, YV, opt(YV), ("emptylist",), ("emptydict",)):
                    want = ty  # `if x is not None: x = reader(x)`: x : Optional[new type] after the branch (see if_)
            if want is None and ty == ("emptylist",):
                want = self.infer_list(s, n)
            if want is None:
                if ty in (NONE, ("emptylist",), ("emptydict",)):
                    fail(self.path, s, "type of the assigned value is not determined")
                want = ty
            b2, t2 = self.coerce(s, t, ty, want)
            env2 = dict(env)
            env2[n] = want
            return self.wrap(b + b2, f"let {n} := {t2} in\n{go(env2, self.drop_nar(nar, [n]))}")
        if ann is not None:
            fail(self.path, s, "annotated store")
        # ---- o.a = e
        if isinstance(tg, ast.Attribute) and isinstance(tg.value, ast.Name) and tg.value.id in env:
            o, a = tg.value.id, tg.attr
            if env[o] == REF and a in TXN_ATTRS:
                fty = TXN_ATTRS[a]
                if fty == GREF:
                    if not (isinstance(val, ast.Name) and ty == GOBJ):
                        fail(self.path, s, "group_transaction set to something else than the group object")
                    b2, t2 = [], "true"
                else:
                    b2, t2 = self.coerce(s, t, ty, fty)
                return self.wrap(b + b2, f"let heap := hset heap {o} (set_o_{a} {t2}) in\n{go(env, self.drop_nar(nar, ['heap']))}")
            if env[o] == GOBJ and a in GRP_ATTRS:
                b2, t2 = self.coerce(s, t, ty, GRP_ATTRS[a])
                return self.wrap(b + b2, f"let {o} := set_gr_{a} {t2} {o} in\n{go(env, self.drop_nar(nar, [o]))}")
            if env[o] == CONTRACT and o in self.cvars and a in CONTRACT_STORE:
                setter, fty = CONTRACT_STORE[a]
                b2, t2 = self.coerce(s, t, ty, fty)
                return self.wrap(b + b2, f"let {o} := {setter} {t2} {o} in\n{go(env, self.drop_nar(nar, [o]))}")
            fail(self.path, s, f"store to .{a} of a value of type {env[o]}")
        # ---- d[k] = e  /  o.a[k] = e
        if isinstance(tg, ast.Subscript):
            bk, tk, tyk = self.expr(tg.slice, env, nar)
            base = tg.value
            if isinstance(base, ast.Name) and base.id in env and env[base.id][0] == "dict":
                n = base.id
                dty = env[n]
                bk2, tk2 = self.coerce(s, tk, tyk, dty[1])
                b2, t2 = self.coerce(s, t, ty, dty[2])
                f = "sdict_set" if dty[1] == STR else "zdict_set"
                return self.wrap(b + bk + bk2 + b2, f"let {n} := {f} {tk2} {t2} {n} in\n{go(env, self.drop_nar(nar, [n]))}")
            if isinstance(base, ast.Attribute) and isinstance(base.value, ast.Name) and base.value.id in env:
                o, a = base.value.id, base.attr
                table, pre = (TXN_ATTRS, "o_") if env[o] == REF else ((GRP_ATTRS, "gr_") if env[o] == GOBJ else (None, None))
                if table is None or a not in table or table[a][0] != "dict":
                    fail(self.path, s, f"store into .{a}[..]")
                dty = table[a]
                if tyk != dty[1]:
                    fail(self.path, s, f"key of type {tyk} for {dty}")
                b2, t2 = self.coerce(s, t, ty, dty[2])
                f = "sdict_set" if dty[1] == STR else "zdict_set"
                if env[o] == REF:
                    return self.wrap(
                        b + bk + b2,
                        f"let heap := hset heap {o} (fun o => set_o_{a} ({f} {tk} {t2} (o_{a} o)) o) in\n{go(env, self.drop_nar(nar, ['heap']))}",
                    )
                return self.wrap(b + bk + b2, f"let {o} := set_gr_{a} ({f} {tk} {t2} (gr_{a} {o})) {o} in\n{go(env, self.drop_nar(nar, [o]))}")
        fail(self.path, s, "assignment target")

    def if_(self, s, env, nar, go):
        test = s.test
        body, orelse = s.body, s.orelse
        # narrowing `x is not None` / `x is None`
        narrow = None
        if isinstance(test, ast.Compare) and len(test.ops) == 1 and isinstance(test.ops[0], (ast.Is, ast.IsNot)):
            r = test.comparators[0]
            if isinstance(r, ast.Constant) and r.value is None:
                b, t, ty = self.expr(test.left, env, nar)
                if ty[0] != "option":
                    fail(self.path, s, f"`is None` on a value of type {ty}")
                if not b:
                    narrow = (test.left, t, ty[1], isinstance(test.ops[0], ast.IsNot))
        # `if x:` on Optional / list (absent_fields)
        binds = []
        if narrow is None:
            binds, ct, cty = self.expr(test, env, nar)
            if cty[0] in ("list",):
                ct = f"(match {ct} with [] => false | _ => true end)"
            elif cty != BOOL:
                fail(self.path, s, f"condition of type {cty}")
        sv = self.state_of(body + orelse, env)
        svt = [env[n] for n in sv]

        def branch(stmts, env_b, nar_b, join):
            if join:
                return self.block(stmts, env_b, nar_b, lambda e2, n2, ret=None: self.no_ret(ret, f"Ok {tup(sv)}"))
            return self.block(stmts, env_b, nar_b, lambda e2, n2, ret=None: self.no_ret(ret, None))

        r1, r2 = always_raises(body), always_raises(orelse)
        if narrow is not None:
            left, t, inner, positive = narrow
            v = self.fresh()
            nar_some = dict(nar)
            nar_some[ast.dump(left)] = (v, inner, self.deps(left, env))
            some_stmts, none_stmts = (body, orelse) if positive else (orelse, body)
            rs_, rn_ = (r1, r2) if positive else (r2, r1)
            if rs_ and not rn_:
                # the rest continues in the None branch only
                some_t = self.block(some_stmts, env, nar_some, lambda e2, n2, ret=None: self.no_ret(ret, None))
                none_t = self.block(none_stmts, env, nar, lambda e2, n2, ret=None: go(e2, n2) if ret is None else self.no_ret(ret, None))
                return f"match {t} with\n| Some {v} =>\n{ind(some_t)}\n| None =>\n{ind(none_t)}\nend"
            if rn_ and not rs_:
                some_t = self.block(some_stmts, env, nar_some, lambda e2, n2, ret=None: go(e2, n2) if ret is None else self.no_ret(ret, None))
                none_t = self.block(none_stmts, env, nar, lambda e2, n2, ret=None: self.no_ret(ret, None))
                return f"match {t} with\n| Some {v} =>\n{ind(some_t)}\n| None =>\n{ind(none_t)}\nend"
            retyped = {}
            rname = left.id if (positive and isinstance(left, ast.Name) and not orelse) else None

            def join_some(e2, n2, ret=None):
                parts = []
                for n in sv:
                    if e2[n] != env[n]:
                        if n != rname:
                            fail(self.path, s, f"{n} changes its type in a branch")
                        retyped[n] = opt(e2[n])
                        parts.append(f"(Some {n})")
                    else:
                        parts.append(n)
                return self.no_ret(ret, f"Ok {tup(parts)}")

            old = self.retype
            self.retype = rname
            some_t = self.block(some_stmts, env, nar_some, join_some)
            self.retype = old
            none_parts = ["None" if n in retyped else n for n in sv]
            none_t = self.block(none_stmts, env, nar, lambda e2, n2, ret=None: self.no_ret(ret, f"Ok {tup(none_parts)}"))
            env3 = dict(env)
            env3.update(retyped)
            svt = [env3[n] for n in sv]
            joined = f"match {t} with\n| Some {v} =>\n{ind(some_t)}\n| None =>\n{ind(none_t)}\nend"
            return f"rbind ({joined}) (fun (st : {tupty(svt)}) =>\n{destruct(sv, 'st')}{go(env3, self.drop_nar(nar, sv))})"
        if r1 and not r2:
            then_t = self.block(body, env, nar, lambda e2, n2, ret=None: self.no_ret(ret, None))
            else_t = self.block(orelse, env, nar, lambda e2, n2, ret=None: go(e2, n2) if ret is None else self.no_ret(ret, None))
            return self.wrap(binds, f"if {ct}\nthen\n{ind(then_t)}\nelse\n{else_t}")
        then_t = branch(body, env, nar, True)
        else_t = branch(orelse, env, nar, True)
        joined = f"if {ct}\nthen\n{ind(then_t)}\nelse\n{ind(else_t)}"
        return self.wrap(binds, f"rbind ({joined}) (fun (st : {tupty(svt)}) =>\n{destruct(sv, 'st')}{go(env, self.drop_nar(nar, sv))})")

    def no_ret(self, ret, term):
        if ret is not None:
            fail(self.path, ret, "return inside a branch or a loop")
        if term is None:
            raise TranslateError("translator: internal: a branch that must end in raise does not")
        return term

    def for_(self, s, env, nar, go):
        if s.orelse or not isinstance(s.target, ast.Name):
            fail(self.path, s, "for-else / tuple target")
        x = s.target.id
        self.name_ok(s, x)
        if x in env:
            fail(self.path, s, f"loop variable {x} shadows a bound variable")
        b, t, ty = self.expr(s.iter, env, nar)
        if ty[0] == "list":
            it, xty = t, ty[1]
        elif ty[0] == "dict":
            it, xty = f"(dict_keys {t})", ty[1]
        elif ty == YV:
            v = self.fresh()
            b = b + [(v, f"(as_list {t})")]
            it, xty = v, YV
        else:
            fail(self.path, s, f"iteration over a value of type {ty}")
        for n in ast.walk(s):
            if isinstance(n, (ast.Break, ast.Continue)):
                fail(self.path, n, "break / continue")
        sv = self.state_of(s.body, env)
        svt = [env[n] for n in sv]
        env_b = dict(env)
        env_b[x] = xty
        self.loop_depth += 1
        body = self.block(s.body, env_b, self.drop_nar(nar, sv + [x]), lambda e2, n2, ret=None: self.no_ret(ret, f"Ok {tup(sv)}"))
        self.loop_depth -= 1
        loop = f"foldE (fun (st : {tupty(svt)}) ({x} : {coqty(xty)}) =>\n{ind(destruct(sv, 'st') + body)})\n  {it} {tup(sv)}"
        return self.wrap(b, f"rbind ({loop}) (fun (st : {tupty(svt)}) =>\n{destruct(sv, 'st')}{go(env, self.drop_nar(nar, sv))})")

    # ------------------------------------------------------------------ whole functions
    def function(self, fn, coqname, params, rty, comment, stmts=None, env_extra=None, end=None, pre="", contracts_mode=False):
        """params: [(name, type)]; the body must end in `return e` unless `end` gives the final term"""
        self.n = 0
        self.contracts_mode = contracts_mode
        self.loop_depth = 0
        self.group_allocated = False
        body = strip_doc(fn.body) if stmts is None else stmts
        self.body = body
        self.retype = None
        self.gvars = {
            s.targets[0].id
            for s in ast.walk(ast.Module(body=body, type_ignores=[]))
            if isinstance(s, ast.Assign) and len(s.targets) == 1 and isinstance(s.targets[0], ast.Name) and isinstance(s.value, ast.Call) and isinstance(s.value.func, ast.Name) and s.value.func.id == "GroupTransaction"
        }
        # Teal value variables (contracts loop): the variables bound by `x = parse_teal(..)` inside a with statement
        self.cvars = set()
        if contracts_mode:
            for w_ in ast.walk(ast.Module(body=body, type_ignores=[])):
                if isinstance(w_, ast.With):
                    for a_ in w_.body:
                        if isinstance(a_, ast.Assign) and len(a_.targets) == 1 and isinstance(a_.targets[0], ast.Name):
                            self.cvars.add(a_.targets[0].id)
        env = dict(params)
        env.update(env_extra or {})
        for n, _ in params:
            self.name_ok(fn, n)

        def k(env2, nar2, ret=None):
            if end is not None:
                if ret is not None:
                    fail(self.path, ret, "return in a translated slice")
                return end(env2)
            if ret is None or ret.value is None:
                fail(self.path, fn, "the function can end without `return e`")
            b, t, ty = self.expr(ret.value, env2, nar2)
            b2, t2 = self.coerce(ret, t, ty, rty)
            return self.wrap(b + b2, f"Ok {t2}")

        term = self.block(body, env, {}, k)
        ps = " ".join(f"({n} : {coqty(t)})" for n, t in params)
        return f"(* {comment} *)\nDefinition {coqname} {ps} : rs {coqty(rty, False)} :=\n{ind(pre + term)}."


# ----------------------------------------------------------------------------- signatures
def check_sig(path, fn, names, static=False):
    a = fn.args
    got = [x.arg for x in a.args]
    if got != names or a.vararg or a.kwarg or a.kwonlyargs or a.defaults or a.posonlyargs:
        fail(path, fn, f"signature of {fn.name} is no longer ({', '.join(names)})")
    decs = [ast.unparse(d) for d in fn.decorator_list]
    if decs != (["staticmethod"] if static else []):
        fail(path, fn, f"decorators of {fn.name}")


def user_types_table(path, tree):
    found = [s for s in tree.body if isinstance(s, ast.Assign) and len(s.targets) == 1 and isinstance(s.targets[0], ast.Name) and s.targets[0].id == "USER_CONFIG_TRANSACTION_TYPES"]
    n = sum(1 for node in ast.walk(tree) if isinstance(node, ast.Name) and node.id == "USER_CONFIG_TRANSACTION_TYPES" and isinstance(node.ctx, (ast.Store, ast.Del)))
    if len(found) != 1 or n != 1 or not isinstance(found[0].value, ast.Dict):
        raise TranslateError(f"translator: {path}: USER_CONFIG_TRANSACTION_TYPES must be bound once, to a dict literal")
    rows = []
    for kx, vx in zip(found[0].value.keys, found[0].value.values):
        if not (isinstance(kx, ast.Constant) and isinstance(kx.value, str)):
            fail(path, found[0], "key of USER_CONFIG_TRANSACTION_TYPES")
        if not (isinstance(vx, ast.Attribute) and isinstance(vx.value, ast.Name) and vx.value.id == "TransactionType" and vx.attr in enum_members("TransactionType")):
            fail(path, found[0], "value of USER_CONFIG_TRANSACTION_TYPES")
        if kx.value in [r[0] for r in rows]:
            fail(path, found[0], "repeated key (a dict literal keeps the last)")
        rows.append((kx.value, vx.attr))
    body = "; ".join(f"({coq_str(k)}, {coq_str(v)})" for k, v in rows)
    return f"(* {CFG_REL}: USER_CONFIG_TRANSACTION_TYPES (line {found[0].lineno}) *)\nDefinition USER_CONFIG_TRANSACTION_TYPES : list (string * string) :=\n  [{body}]."


def contract_types_table(path, tree):
    name = "GROUP_CONFIG_CONTRACT_TYPES"
    found = [s for s in tree.body if isinstance(s, ast.Assign) and len(s.targets) == 1 and isinstance(s.targets[0], ast.Name) and s.targets[0].id == name]
    n = sum(1 for node in ast.walk(tree) if isinstance(node, ast.Name) and node.id == name and isinstance(node.ctx, (ast.Store, ast.Del)))
    if len(found) != 1 or n != 1 or not isinstance(found[0].value, ast.List):
        raise TranslateError(f"translator: {path}: {name} must be bound once, to a list literal")
    for node in ast.walk(tree):
        # the list is only read (x in / not in it): no method call on it, no alias
        if isinstance(node, ast.Name) and node.id == name and isinstance(node.ctx, ast.Load):
            pass
        if isinstance(node, ast.Attribute) and isinstance(node.value, ast.Name) and node.value.id == name:
            fail(path, node, f"{name} is used as an object (it may be modified)")
    rows = []
    for x in found[0].value.elts:
        if not (isinstance(x, ast.Constant) and isinstance(x.value, str)):
            fail(path, found[0], f"element of {name}")
        rows.append(x.value)
    body = "; ".join(coq_str(r) for r in rows)
    return f"(* {CFG_REL}: {name} (line {found[0].lineno}) *)\nDefinition {name} : list string :=\n  [{body}]."


def check_contracts_loop(path, loop):
    """the aliasing discipline that makes `teal` a VALUE variable: inside the body of the contracts loop the Teal
    object is only (1) bound by the with statement, (2) the target of attribute stores, (3) the first argument of
    construct_function (Function.contract = teal: fingerprinted; the glue table reads a Function of a contract c as
    (index, c) with the FINAL c), (4) stored once, by the LAST statement of the body, into a dict; the file object of
    the with statement and the loop variable are not stored anywhere"""
    if not (isinstance(loop, ast.For) and ast.unparse(loop.target) == "contract_config" and ast.unparse(loop.iter) == "config.contracts" and not loop.orelse and len(loop.body) >= 2):
        fail(path, loop, "expected `for contract_config in config.contracts:`")
    withs = [n for n in ast.walk(loop) if isinstance(n, ast.With)]
    if len(withs) != 1 or withs[0] is not loop.body[0]:
        fail(path, loop, "the contracts loop no longer starts with its only with statement")
    w_ = withs[0]
    if not (len(w_.body) == 1 and isinstance(w_.body[0], ast.Assign) and len(w_.body[0].targets) == 1 and isinstance(w_.body[0].targets[0], ast.Name)):
        fail(path, w_, "body of the with statement")
    teal = w_.body[0].targets[0].id
    last = loop.body[-1]
    if not (isinstance(last, ast.Assign) and len(last.targets) == 1 and isinstance(last.targets[0], ast.Subscript) and isinstance(last.targets[0].value, ast.Name)
            and isinstance(last.value, ast.Name) and last.value.id == teal):  # fmt: skip
        fail(path, last, f"the last statement of the contracts loop no longer stores {teal} into the table")
    allowed = {id(last.value), id(w_.body[0].targets[0])}
    for node in ast.walk(loop):
        if isinstance(node, ast.Call) and isinstance(node.func, ast.Name) and node.func.id == "construct_function" and node.args and isinstance(node.args[0], ast.Name):
            allowed.add(id(node.args[0]))
        if isinstance(node, ast.Assign) and len(node.targets) == 1 and isinstance(node.targets[0], ast.Attribute) and isinstance(node.targets[0].value, ast.Name):
            allowed.add(id(node.targets[0].value))
    for node in ast.walk(loop):
        if isinstance(node, ast.Name) and node.id == teal and id(node) not in allowed:
            fail(path, node, f"{teal} is used in a way that may create an alias of the Teal object")
    for node in ast.walk(loop):
        if isinstance(node, ast.Name) and node.id == "config" and node is not loop.iter.value:
            fail(path, node, "config is used inside the contracts loop")


def check_imports(path, tree, want):
    got = {}
    for node in ast.walk(tree):
        if isinstance(node, ast.ImportFrom):
            for al in node.names:
                got[al.asname or al.name] = (node.module or "") + "." + al.name
    for n, m in want.items():
        if got.get(n) != m:
            raise TranslateError(f"translator: {path}: {n} is bound to {got.get(n)}, expected {m}")
    for node in ast.walk(tree):
        if isinstance(node, (ast.FunctionDef, ast.ClassDef)) and node.name in want:
            raise TranslateError(f"translator: {path}: {node.name} is re-defined locally")
        if isinstance(node, ast.Name) and isinstance(node.ctx, (ast.Store, ast.Del)) and node.id in want:
            raise TranslateError(f"translator: {path}: {node.id} is re-bound")
        if isinstance(node, ast.arg) and node.arg in want:
            raise TranslateError(f"translator: {path}: {node.arg} is shadowed by a parameter")


def same_stmt(path, node, text):
    if ast.unparse(node) != text:
        fail(path, node, f"expected the statement `{text.splitlines()[0]}`, found `{ast.unparse(node).splitlines()[0]}`")


def emit_groupinit(outdir):
    check_fingerprints()
    cpath = os.path.join(T, CFG_REL)
    ctree = parse(cpath)
    check_imports(cpath, ctree, {"TransactionType": "tealer.utils.teal_enums.TransactionType", "dataclass": "dataclasses.dataclass", "Path": "pathlib.Path"})
    ecs = [n for n in ctree.body if isinstance(n, ast.ClassDef) and n.name == "InvalidGroupConfiguration"]
    if len(ecs) != 1 or ast.unparse(ecs[0]) != EXN_CLASS_TEXT:
        raise TranslateError(f"translator: {cpath}: InvalidGroupConfiguration is no longer a plain subclass of Exception (str(err) = its message)")
    dcs = DataClasses(cpath, ctree)
    tpath = os.path.join(T, TX_REL)
    ttree = parse(tpath)
    check_imports(tpath, ttree, {"TransactionType": "tealer.utils.teal_enums.TransactionType"})
    mpath = os.path.join(T, COMMON_REL)
    mtree = parse(mpath)
    check_imports(
        mpath, mtree,
        {
            "Transaction": "tealer.execution_context.transactions.Transaction",
            "GroupTransaction": "tealer.execution_context.transactions.GroupTransaction",
            "fill_group_relative_indexes": "tealer.execution_context.transactions.fill_group_relative_indexes",
            "USER_CONFIG_TRANSACTION_TYPES": "tealer.utils.command_line.group_config.USER_CONFIG_TRANSACTION_TYPES",
            "ContractType": "tealer.utils.teal_enums.ContractType",
            "TealerException": "tealer.exceptions.TealerException",
            "construct_function": "tealer.teal.parse_functions.construct_function",
            "parse_teal": "tealer.teal.parse_teal.parse_teal",
            "contract_type_from_txt": "tealer.utils.teal_enums.contract_type_from_txt",
        },
    )  # fmt: skip
    for node in ast.walk(mtree):
        if (isinstance(node, ast.Name) and node.id == "open" and isinstance(node.ctx, (ast.Store, ast.Del))) or (isinstance(node, (ast.FunctionDef, ast.ClassDef)) and node.name == "open") or (isinstance(node, ast.arg) and node.arg == "open") or (isinstance(node, ast.alias) and (node.asname or node.name) == "open"):
            raise TranslateError(f"translator: {mpath}: the builtin open is re-bound")

    L = []
    w = L.append
    w("(* GENERATED by tools/translate.py (translate_groupinit) from /repo/tealer -- do not edit *)")
    w("(* utils/command_line/group_config.py (table, dataclasses, from_yaml readers), execution_context/transactions.py")
    w("   (__init__ defaults), utils/command_line/common.py (_get_function_from_config, the group part of")
    w("   init_tealer_from_config, init_tealer_from_single_contract), statement by statement.")
    w("   See tools/translate_groupinit.py. *)")
    w("From Coq Require Import String List NArith ZArith Bool Arith.")
    w("From Tealer Require Import Tables LeafPrelude Syntax Cfg Keys KeysGen Analysis Domains Detect SearchGen Group GroupGen.")
    w("Import ListNotations.")
    w("Open Scope string_scope.")
    w("Open Scope list_scope.")
    w(PRELUDE.rstrip("\n"))
    w(PRELUDE2.rstrip("\n"))
    w("")
    w("(* ====================================================================== *)")
    w("(* TRANSLATED                                                             *)")
    w("(* ====================================================================== *)")
    w(user_types_table(cpath, ctree))
    w("")
    w(f"(* {CFG_REL}: the dataclasses (fields in declaration order; every default is None) *)")
    for t in dcs.text:
        w(t)
    w("")
    w(init_record(tpath, ttree, "Transaction", TXN_ATTRS, TXN_ANN, "o_", "Transaction_init", "tobj"))
    w(init_record(tpath, ttree, "GroupTransaction", GRP_ATTRS, GRP_ANN, "gr_", "GroupTransaction_init", "gobj"))
    w("")
    n = 5

    # ---- from_yaml readers
    funs = {}
    consts = {"USER_CONFIG_TRANSACTION_TYPES": ("USER_CONFIG_TRANSACTION_TYPES", dct(STR, TTYPE))}
    tr = Tr(cpath, dcs, funs, consts)
    fn = find_toplevel(ctree, "check_fields_are_present", cpath)
    check_sig(cpath, fn, ["required_fields", "config"])
    w(tr.function(fn, "check_fields_are_present_gen", [("required_fields", lst(STR)), ("config", YMAP)], lst(STR), f"{CFG_REL}: check_fields_are_present (line {fn.lineno})"))
    funs["check_fields_are_present"] = ("check_fields_are_present_gen", [lst(STR), YMAP], lst(STR))
    w("")
    for cname, pname in (("GroupConfigFunctionCall", "function_call"), ("GroupConfigTransaction", "transaction"), ("GroupConfigGroup", "group")):
        fn = find_def(cpath, ctree, cname, "from_yaml")
        check_sig(cpath, fn, [pname], static=True)
        if ast.unparse(fn.args.args[0].annotation) != "Dict[str, Any]":
            fail(cpath, fn, "parameter annotation is no longer Dict[str, Any]")
        rty = DATACLASSES[cname][1]
        w(tr.function(fn, f"{cname}_from_yaml_gen", [(pname, YMAP)], rty, f"{CFG_REL}: {cname}.from_yaml (line {fn.lineno})"))
        funs[f"{cname}.from_yaml"] = (f"{cname}_from_yaml_gen", [YMAP], rty)
        w("")
        n += 1
    n += 1

    # ---- common.py
    funs2 = {}
    tr = Tr(mpath, dcs, funs2, consts)
    fn = find_toplevel(mtree, "_get_function_from_config", mpath)
    check_sig(mpath, fn, ["function_call_config", "contracts"])
    if [ast.unparse(a.annotation) for a in fn.args.args] != ["'GroupConfigFunctionCall'", "Dict[str, 'Teal']"]:
        fail(mpath, fn, "parameter annotations of _get_function_from_config")
    w(tr.function(fn, "_get_function_from_config_gen", [("function_call_config", CFGCALL), ("contracts", dct(STR, CONTRACT))], FN, f"{COMMON_REL}: _get_function_from_config (line {fn.lineno})"))
    funs2["_get_function_from_config"] = ("_get_function_from_config_gen", [CFGCALL, dct(STR, CONTRACT)], FN)
    w("")
    n += 1

    fn = find_toplevel(mtree, "init_tealer_from_config", mpath)
    check_sig(mpath, fn, ["config"])
    body = strip_doc(fn.body)
    if len(body) != 5:
        fail(mpath, fn, "init_tealer_from_config no longer consists of: contracts = {}, the contracts loop, group_objs_list = [], the groups loop, return")
    same_stmt(mpath, body[0], "contracts: Dict[str, 'Teal'] = {}")
    check_contracts_loop(mpath, body[1])
    same_stmt(mpath, body[2], "group_objs_list: List[GroupTransaction] = []")
    same_stmt(mpath, body[4], "return Tealer(contracts, group_objs_list, output_group=True)")
    loop = body[3]
    if not (isinstance(loop, ast.For) and ast.unparse(loop.target) == "txn_config" and ast.unparse(loop.iter) == "config.groups" and not loop.orelse and len(loop.body) >= 2):
        fail(mpath, loop, "expected `for txn_config in config.groups:`")
    same_stmt(mpath, loop.body[-1], "group_objs_list.append(group_obj)")
    for node in ast.walk(ast.Module(body=loop.body[:-1], type_ignores=[])):
        if isinstance(node, ast.Name) and node.id in ("group_objs_list", "config"):
            fail(mpath, node, f"{node.id} is used inside the translated loop body")
        if isinstance(node, ast.Name) and node.id == "contracts" and isinstance(node.ctx, (ast.Store, ast.Del)):
            fail(mpath, node, "contracts is re-bound")

    def end_group(env2):
        if env2.get("group_obj") != GOBJ:
            fail(mpath, loop, "group_obj is not bound to the GroupTransaction object at the end of the loop body")
        return "Ok (heap, group_obj)"

    w(tr.function(
        fn, "init_group_gen", [("contracts", dct(STR, CONTRACT)), ("txn_config", CFGGROUP)], ("pair",),
        f"{COMMON_REL}: init_tealer_from_config (line {fn.lineno}), the body of `for txn_config in config.groups:` (line {loop.lineno}) without its last statement;\n   result = (the Transaction objects, group_obj)",
        stmts=loop.body[:-1], env_extra={"heap": HEAP}, end=end_group, pre="let heap := [] in\n",
    ).replace("rs pair", "rs (list tobj * gobj)"))  # fmt: skip
    w("")
    n += 1

    fn = find_toplevel(mtree, "init_tealer_from_single_contract", mpath)
    check_sig(mpath, fn, ["contract_src", "contract_name"])
    body = strip_doc(fn.body)
    if len(body) < len(SINGLE_HEAD) + len(SINGLE_TAIL) + 1:
        fail(mpath, fn, "init_tealer_from_single_contract is too short")
    for s, text in zip(body[: len(SINGLE_HEAD)], SINGLE_HEAD):
        same_stmt(mpath, s, text)
    for s, text in zip(body[-len(SINGLE_TAIL):], SINGLE_TAIL):
        same_stmt(mpath, s, text)
    mid = body[len(SINGLE_HEAD): -len(SINGLE_TAIL)]
    for node in ast.walk(ast.Module(body=mid, type_ignores=[])):
        if isinstance(node, ast.Name) and node.id in ("contracts", "contract_src", "group_objs_list"):
            fail(mpath, node, f"{node.id} is used inside the translated slice")
        if isinstance(node, ast.Name) and node.id in ("teal", "contract_functions", "contract_name") and isinstance(node.ctx, (ast.Store, ast.Del)):
            fail(mpath, node, f"{node.id} is re-bound")
        if isinstance(node, ast.Attribute) and isinstance(node.ctx, ast.Store) and isinstance(node.value, ast.Name) and node.value.id == "teal":
            fail(mpath, node, "teal is modified")

    def end_single(env2):
        if env2.get("group_obj") != GOBJ:
            fail(mpath, fn, "group_obj is not bound to the GroupTransaction object")
        return "Ok (heap, group_obj)"

    w("(* glue (the five fingerprinted statements before the slice): teal = the parsed contract with")
    w("   teal.functions = contract_functions = {contract_name: construct_function(teal, ['B0'], contract_name)} *)")
    w(tr.function(
        fn, "init_single_gen", [("contract_name", STR), ("teal", CONTRACT)], ("pair",),
        f"{COMMON_REL}: init_tealer_from_single_contract (line {fn.lineno}), from `txn_obj = Transaction()` through `group_obj.transactions = [txn_obj]`",
        stmts=mid, env_extra={"heap": HEAP, "contract_functions": dct(STR, FN)}, end=end_single,
        pre="let heap := [] in\nlet contract_functions := c_functions_objs teal in\n",
    ).replace("rs pair", "rs (list tobj * gobj)"))  # fmt: skip
    n += 1
    w(POSTLUDE.rstrip("\n"))

    # ================================================================== the contracts part of a configuration
    w("")
    w("(* ====================================================================== *)")
    w("(* TRANSLATED, part 2: the contracts part of a configuration                 *)")
    w("(* ====================================================================== *)")
    w(contract_types_table(cpath, ctree))
    n += 1
    w("")
    w(f"(* {CFG_REL}: the dataclasses GroupConfigFunction, GroupConfigContract, GroupConfig (fields in declaration order;")
    w("   GLUE: a Path is its text) *)")
    for t in dcs.text2:
        w(t)
    w("")
    consts2 = dict(consts)
    consts2["GROUP_CONFIG_CONTRACT_TYPES"] = ("GROUP_CONFIG_CONTRACT_TYPES", lst(STR))
    tr = Tr(cpath, dcs, funs, consts2)
    for cname, pname in (("GroupConfigFunction", "function"), ("GroupConfigContract", "contract"), ("GroupConfig", "config")):
        fn = find_def(cpath, ctree, cname, "from_yaml")
        check_sig(cpath, fn, [pname], static=True)
        if ast.unparse(fn.args.args[0].annotation) != "Dict[str, Any]":
            fail(cpath, fn, "parameter annotation is no longer Dict[str, Any]")
        rty = DATACLASSES[cname][1]
        w(tr.function(fn, f"{cname}_from_yaml_gen", [(pname, YMAP)], rty, f"{CFG_REL}: {cname}.from_yaml (line {fn.lineno})"))
        funs[f"{cname}.from_yaml"] = (f"{cname}_from_yaml_gen", [YMAP], rty)
        w("")
        n += 1

    # ---- teal_enums.py: contract_type_from_txt
    epath = os.path.join(T, ENUM_REL)
    etree = parse(epath)
    fn = find_toplevel(etree, "contract_type_from_txt", epath)
    check_sig(epath, fn, ["contract_type"])
    if ast.unparse(fn.args.args[0].annotation) != "str" or ast.unparse(fn.returns) != "ContractType":
        fail(epath, fn, "annotations of contract_type_from_txt")
    tr = Tr(epath, dcs, {}, {})
    w(tr.function(fn, "contract_type_from_txt_gen", [("contract_type", STR)], CTYPE, f"{ENUM_REL}: contract_type_from_txt (line {fn.lineno})"))
    w("")
    n += 1

    # ---- common.py: the contracts loop of init_tealer_from_config
    fn = find_toplevel(mtree, "init_tealer_from_config", mpath)
    body = strip_doc(fn.body)
    if ast.unparse(fn.args.args[0].annotation) != "'GroupConfig'":
        fail(mpath, fn, "parameter annotation of init_tealer_from_config")
    tr = Tr(mpath, dcs, {"contract_type_from_txt": ("contract_type_from_txt_gen", [STR], CTYPE)}, consts)

    def end_contracts(env2):
        if env2.get("contracts") != dct(STR, CONTRACT) or env2.get("ftable") != FTABLE:
            fail(mpath, fn, "contracts is not the table of Teal objects at the end of the contracts loop")
        return "Ok (contracts, ftable)"

    w("(* GLUE (contracts loop): reading the file and parse_teal, and construct_function, are UNINTERPRETED parameters.")
    w("   `with open(p, encoding='utf-8') as f: teal = parse_teal(f.read(), n)` is `load_and_parse p n` (it may raise); teal is")
    w("   then a VALUE variable (the translator checks that the object is not aliased before the last statement of the")
    w("   loop body, except as Function.contract, which the glue table reads as the final value);")
    w("   `func = construct_function(teal, path, name)` may raise (construct_function_call) and otherwise yields the next")
    w("   index of the table `ftable` of constructed functions, which records the arguments of the calls in order *)")
    w("Section ContractsLoop.")
    w("Variable load_and_parse : string -> string -> rs tcontract.")
    w("Variable construct_function_call : tcontract -> list string -> string -> rs unit.")
    w("")
    w(tr.function(
        fn, "init_contracts_gen", [("config", CFGCONFIG)], ("pair",),
        f"{COMMON_REL}: init_tealer_from_config (line {fn.lineno}): `contracts = {{}}` and the loop `for contract_config in config.contracts:` (line {body[1].lineno});\n   result = (contracts, the table of constructed functions)",
        stmts=body[:2], env_extra={"ftable": FTABLE}, end=end_contracts, pre="let ftable := [] in\n", contracts_mode=True,
    ).replace("rs pair", "rs (list (string * tcontract) * list (tcontract * list string * string))"))  # fmt: skip
    n += 1
    w(POSTLUDE2.rstrip("\n"))
    w("End ContractsLoop.")
    os.makedirs(outdir, exist_ok=True)
    with open(os.path.join(outdir, "GroupInitGen.v"), "w") as fh:
        fh.write("\n".join(L) + "\n")
    return n


def main():
    outdir = sys.argv[1] if len(sys.argv) > 1 else os.path.join(os.path.dirname(os.path.abspath(__file__)), "..", "coq", "Gen")
    try:
        n = emit_groupinit(outdir)
    except TranslateError as e:
        print(str(e))
        sys.exit(2)
    print(f"translate_groupinit: {n} group-configuration functions / tables -> {outdir}/GroupInitGen.v")


if __name__ == "__main__":
    main()
