"""Generator of single TEAL source lines for the parse/print/table correspondence (C11, C16, C19)."""
import json
import os
import random

HERE = os.path.dirname(os.path.abspath(__file__))
ROOT = os.path.dirname(HERE)


def tables():
    return json.load(open(os.path.join(ROOT, "coq", "Gen", "tables.json")))


INTS = [0, 1, 2, 3, 7, 8, 15, 16, 255, 256, 1000, 65535, 272000, 2**32, 2**63, 2**64 - 1]


def int_spellings(rng, v):
    out = [str(v), hex(v)]
    if v > 0:
        out.append("0" + oct(v)[2:])
    return out


def small_int(rng):
    return rng.choice([0, 1, 2, 3, 4, 5, 7, 10, 15, 16, 100, 255])


B64 = ["AA==", "QQ==", "aGVsbG8=", "aGVsbG8", "/+8=", "AQID", "//8=", "AB//", "//", "a//b"]
B32 = ["AA", "ME======", "MFRGG===", "MFRGG", "74======"]
BYTES_FORMS = ['0x', "0x00", "0xdeadBEEF", '"str"', '"a b // c"', '"q\\"x"'] + [f"base64 {x}" for x in B64] + [f"b64 {x}" for x in B64] + [f"base64({x})" for x in B64] + [f"b64({x})" for x in B64] + [f"base32 {x}" for x in B32] + [f"b32 {x}" for x in B32] + [f"base32({x})" for x in B32] + [f"b32({x})" for x in B32]


def random_bytes_form(rng):
    """a byte constant with random content in one of the accepted spellings (the data of base64 / base32 literals may
    contain any letter of the alphabet, e.g. the digits 6 and 4 or the characters '/' and '+')"""
    import base64
    raw = bytes(rng.randrange(256) for _ in range(rng.choice([0, 1, 2, 3, 4, 5, 7, 8, 10, 11, 16, 20, 32])))
    c = rng.random()
    if c < 0.25:
        # data that collides with the syntax around it: the keywords and digits of the prefixes are themselves
        # letters of the base32 / base64 alphabets
        kw = rng.choice(["64", "32", "B64", "B32", "BASE64", "BASE32", "b64", "b32", "base64", "base32", "0x", "//"])
        if kw.isupper() or kw.isdigit():
            alpha = "ABCDEFGHIJKLMNOPQRSTUVWXYZ234567"
            d = "".join(rng.choice(alpha) for _ in range(rng.randrange(0, 6))) + kw + "".join(rng.choice(alpha) for _ in range(rng.randrange(0, 6)))
            while len(d) % 8 not in (0, 2, 4, 5, 7):
                d += "A"
            return rng.choice(["base32 {}", "b32 {}", "base32({})", "b32({})"]).format(d)
        alpha = "ABCDEFGHIJKLMNOPQRSTUVWXYZabcdefghijklmnopqrstuvwxyz0123456789+/"
        d = "".join(rng.choice(alpha) for _ in range(rng.randrange(0, 6))) + kw + "".join(rng.choice(alpha) for _ in range(rng.randrange(0, 6)))
        while len(d) % 4 != 0:
            d += "A"
        return rng.choice(["base64 {}", "b64 {}", "base64({})", "b64({})"]).format(d)
    if c < 0.2:
        h = raw.hex()
        return "0x" + (h.upper() if rng.random() < 0.3 else h)
    if c < 0.6:
        d = base64.b64encode(raw).decode()
        if rng.random() < 0.3:
            d = d.rstrip("=")
        if not d:
            d = "AA=="
        return rng.choice(["base64 {}", "b64 {}", "base64({})", "b64({})"]).format(d)
    d = base64.b32encode(raw).decode()
    if rng.random() < 0.5:
        d = d.rstrip("=")
    if not d:
        d = "AA"
    return rng.choice(["base32 {}", "b32 {}", "base32({})", "b32({})"]).format(d)


# classes whose SInt immediate the AVM assembler (and the model: Parse.signed_imm_class) reads as a SIGNED integer (int8)
SIGNED_CLASSES = ("FrameDig", "FrameBury")


def signed_imm(rng):
    """an int8 immediate of frame_dig / frame_bury; negative offsets (the arguments below the frame pointer) are the
    common case in compiled code.  Non-negative ones keep the three integer spellings; a negative one is decimal
    (Python's int(): `-010` is -10, `-0` is 0)."""
    c = rng.random()
    if c < 0.7:
        return "-" + str(rng.choice([1, 2, 3, 4, 8, 100, 127, 128, rng.randrange(1, 129)]))
    if c < 0.8:
        return rng.choice(["-0", "-01", "-010", "-007"])
    return rng.choice(int_spellings(rng, rng.choice([0, 1, 2, 3, 7, 8, 15, 16, 100, 127])))


def signed_frame_lines(rng, n):
    """lines over the rules of the signed classes: directed offsets x decorations, then random ones"""
    out = []
    for mn in ("frame_dig", "frame_bury"):
        for kk in sorted({1, 2, 3, 127, 128, rng.randrange(1, 129)}):
            for deco in ("{} -{}", "  {} -{}", "{} -{} // c", "\t{}\t-{}"):
                out.append((deco.format(mn, kk), 8, "rule:SInt:signed"))
    for _ in range(n):
        mn = rng.choice(("frame_dig", "frame_bury"))
        out.append((decorate(rng, f"{mn} {signed_imm(rng)}"), rng.randrange(1, 9), "rule:SInt:signed"))
    return out


def imm_for(rng, shape, tb):
    txf = [k for k, _ in tb["tx_fields"]]
    arr = [k for k, _ in tb["tx_array_fields"]]
    if shape == "SNone":
        return ""
    if shape == "SInt":
        return rng.choice(int_spellings(rng, rng.choice(INTS[:10])))
    if shape == "SIntOrName":
        c = rng.random()
        if c < 0.7:
            return rng.choice(int_spellings(rng, rng.choice(INTS)))
        return rng.choice(["pay", "axfer", "appl", "NoOp", "UpdateApplication", "DeleteApplication", "keyreg", "OptIn", "unknown_name"])
    if shape == "SStr":
        return rng.choice(["Secp256k1", "Secp256r1", "label_1", "main", "URLEncoding", "StdEncoding", "JSONString", "JSONUint64", "BlkSeed", "VrfAlgorand", "OWQEGN2AZIA77YIE7YZEZLUN2JKVRUCTSFY3U3YH7PXWIDIQIPRA4IUKII", "x y"])
    if shape == "STxField":
        if rng.random() < 0.25:
            return f"{rng.choice(arr)} {rng.choice(int_spellings(rng, small_int(rng)))}"
        return rng.choice(txf)
    if shape == "STxFieldStack":
        return rng.choice(arr) if rng.random() < 0.8 else rng.choice(txf)
    if shape == "SGlobalField":
        return rng.choice(["GroupSize", "MinTxnFee", "ZeroAddress", "MinBalance", "MaxTxnLife", "LogicSigVersion", "Round", "LatestTimestamp", "CurrentApplicationID", "CreatorAddress", "CurrentApplicationAddress", "GroupID", "OpcodeBudget", "CallerApplicationID", "CallerApplicationAddress"])
    if shape == "SAssetHoldingField":
        return rng.choice(["AssetBalance", "AssetFrozen"])
    if shape == "SAssetParamsField":
        return rng.choice(["AssetTotal", "AssetDecimals", "AssetDefaultFrozen", "AssetUnitName", "AssetName", "AssetURL", "AssetMetadataHash", "AssetManager", "AssetReserve", "AssetFreeze", "AssetClawback", "AssetCreator"])
    if shape == "SAppParamsField":
        return rng.choice(["AppApprovalProgram", "AppClearStateProgram", "AppGlobalNumUint", "AppGlobalNumByteSlice", "AppLocalNumUint", "AppLocalNumByteSlice", "AppExtraProgramPages", "AppCreator", "AppAddress"])
    if shape == "SAcctParamsField":
        return rng.choice(["AcctBalance", "AcctMinBalance", "AcctAuthAddr"])
    if shape in ("SIntsSplit", "SIntsWs"):
        return " ".join(rng.choice(int_spellings(rng, rng.choice(INTS))) for _ in range(rng.randrange(1, 5)))
    if shape == "SInt2":
        return f"{rng.choice(int_spellings(rng, small_int(rng)))} {rng.choice(int_spellings(rng, small_int(rng)))}"
    if shape == "SLabels":
        return " ".join(f"l{rng.randrange(0, 9)}" for _ in range(rng.randrange(1, 5)))
    if shape == "SOptInt":
        return rng.choice(["", "0", rng.choice(["00", "0x0", "0"]), str(small_int(rng)), rng.choice(int_spellings(rng, small_int(rng)))])
    if shape == "SGtxn":
        f = f"{rng.choice(arr)} {small_int(rng)}" if rng.random() < 0.3 else rng.choice(txf)
        return f"{rng.choice(int_spellings(rng, small_int(rng)))} {f}"
    if shape == "SGtxnStack":
        return f"{rng.choice(int_spellings(rng, small_int(rng)))} {rng.choice(arr)}"
    raise ValueError(shape)


def decorate(rng, line):
    c = rng.random()
    if c < 0.5:
        return line
    if c < 0.6:
        return "    " + line
    if c < 0.7:
        return "\t" + line + "  "
    if c < 0.85:
        return line + " // comment " + rng.choice(["", "with // inside", '"quoted"'])
    if c < 0.92:
        return "  " + line.replace(" ", "  ", 1) + "\t// c"
    return line + " //"


def all_lines(rng, n):
    """returns list of (text, version, kind)"""
    tb = tables()
    out = []
    rules = tb["rules"]
    # a second stream for later additions, derived without consuming from rng (keeps the older lines stable)
    rng2 = random.Random(str(rng.getstate()[1][:8]))
    # every rule at least a few times, across versions
    per = max(2, n // (len(rules) + 40))
    for key, cls, shape in rules:
        for _ in range(per):
            imm = imm_for(rng, shape, tb)
            base = key.rstrip(" ")
            line = base if imm == "" else base + " " + imm
            out.append((decorate(rng, line), rng.randrange(1, 9), "rule:" + shape))
    for _ in range(per * 10):
        op = rng.choice(["byte", "pushbytes"])
        out.append((decorate(rng, f"{op} {rng.choice(BYTES_FORMS)}"), rng.randrange(1, 9), "bytes"))
        out.append((decorate(rng, "bytecblock " + " ".join(rng.choice(BYTES_FORMS) for _ in range(rng.randrange(0, 4)))).rstrip() or "bytecblock", rng.randrange(1, 9), "bytes-list"))
        out.append((decorate(rng, "pushbytess " + " ".join(rng.choice(BYTES_FORMS) for _ in range(rng.randrange(1, 4)))), rng.randrange(1, 9), "bytes-list"))
    for sig in ['"add(uint64,uint64)uint64"', '"hello(string)string"', '"f()void"']:
        out.append((decorate(rng, "method " + sig), 8, "method"))
    for lab in ["main:", "l1:", "  loop_2:  ", "end: // c", "a_b.c:"]:
        out.append((lab, 8, "label"))
    for unk in ["foo", "foo 1 2", "ec_add BN254g1", "switch", "match", "itxn_field", "txn", "int", "bury", "errx", "assertz 1", "dup2x", "bzero", "bsqrt", "b== ", "gloadss", "box_put", "popn 2", "dupn 3", "frame_dig 1", "frame_bury 2", "proto 1 2"]:
        out.append((unk, rng.randrange(1, 9), "unknown-or-edge"))
    for blank in ["", "   ", "// only comment", "   // c", "\t"]:
        out.append((blank, 8, "blank"))
    rng.shuffle(out)
    out = out[: max(n, len(rules) * 2)]
    extra = []
    for _ in range(max(40, n // 10)):
        op = rng2.choice(["byte", "pushbytes"])
        extra.append((decorate(rng2, f"{op} {random_bytes_form(rng2)}"), rng2.randrange(1, 9), "bytes-random"))
        if rng2.random() < 0.4:
            extra.append((decorate(rng2, rng2.choice(["bytecblock ", "pushbytess "]) + " ".join(random_bytes_form(rng2) for _ in range(rng2.randrange(1, 4)))), rng2.randrange(1, 9), "bytes-list-random"))
    # signed immediates of the frame opcodes (shape SInt + class in SIGNED_CLASSES); drawn last from the second stream
    extra += signed_frame_lines(rng2, max(24, n // 50))
    return out + extra


BLOCK_SPLITTERS = ("b ", "bz ", "bnz ", "callsub ", "retsub", "return", "err", "switch ", "match ")


def stack_soup(rng, n):
    """a straight-line sequence of n random opcodes (any rule of the parser table that does not end a block),
    biased towards stack-shuffling and multi-push/pop ones; returns program text"""
    tb = tables()
    rules = [r for r in tb["rules"] if not r[0].startswith(BLOCK_SPLITTERS) and r[0] != "#pragma version " and r[1] not in ("Intcblock",)]
    shuffle = ["dup", "dup2", "swap", "pop", "select", "dig 1", "dig 2", "dig 3", "cover 1", "cover 2", "cover 3", "uncover 1", "uncover 2",
               "uncover 3", "bury 1", "bury 2", "popn 1", "popn 2", "popn 3", "popn 4", "dupn 1", "dupn 2", "dupn 3", "pushints 1 2 3", "mulw", "addw",
               "divmodw", "expw", "app_global_get_ex", "asset_holding_get AssetBalance", "frame_dig 0", "frame_bury 0", "proto 2 1",
               "int 1", "int 2", "txn RekeyTo", "global ZeroAddress", "txn Fee", "==", "!=", "&&", "||", "!", "+", "-", "<", "assert", "load 0", "store 0",
               # boundary immediates of the deep-stack opcodes (0 is valid for all of these) and list immediates of length 1 / with repeats
               "dig 0", "cover 0", "uncover 0", "popn 0", "dupn 0", "dupn 0", "pushints 7", "pushbytess 0x01 0x02", "replace 0", "replace",
               "extract 0 0", "substring 0 0", "gloads 0", "gload 0 0"]
    out = ["#pragma version 8"]
    for _ in range(n):
        if rng.random() < 0.7:
            out.append(rng.choice(shuffle))
        else:
            key, cls, shape = rng.choice(rules)
            imm = imm_for(rng, shape, tb)
            base = key.rstrip(" ")
            out.append(base if imm == "" else base + " " + imm)
    # frame_dig / frame_bury: about half of the occurrences get a negative offset (second stream: the rest of the soup
    # is what it was before signed immediates were generated)
    rng2 = random.Random("signed" + str(rng.getstate()[1][:8]))
    for k, l in enumerate(out):
        w = l.split()
        if len(w) == 2 and w[0] in ("frame_dig", "frame_bury") and rng2.random() < 0.5:
            out[k] = f"{w[0]} {signed_imm(rng2)}"
    if rng.random() < 0.3:
        # the block ends in a multi-way branch whose label list may name one label several times (match pops one value per
        # LISTED label plus the value compared; switch pops one)
        labs = [rng.choice(["la", "lb", "lc"]) for _ in range(rng.randrange(1, 5))]
        out.append(rng.choice(["match ", "switch "]) + " ".join(labs))
        out += ["int 1", "return"]
        for l in sorted(set(labs)):
            out += [l + ":", "int 1", "return"]
    return "\n".join(out)
