#!/venv/bin/python
"""Self-test of tools/translate_detectors.py (the regenerated detect() methods of the nine detectors, Gen/DetectorsGen.v).

(a) runs the translator on the clean source ($VERIF_REPO, default /tmp/cleanrepo) and checks that the output is the
    current coq/Gen/DetectorsGen.v, compiles, and that Lemmas/DetectorsGenLemmas.v compiles against it;
(b) applies small mutations to a scratch copy of the detector modules (and of the fingerprinted glue sources) and shows
    that, for each, either the translator stops (TranslateError) or the generated Gallina differs AND
    Lemmas/DetectorsGenLemmas.v no longer compiles against it; two semantically neutral mutants (e1, e2) are included
    as a control: their Gallina differs and the lemmas must still compile (the proofs are not a text comparison).

Precondition: coq/ has been built (`make`).  Every coqc runs under `timeout`.  Exit status 0 iff every row has the
expected verdict.

usage: VERIF_REPO=/tmp/cleanrepo /venv/bin/python tools/test_translate_detectors.py [-v]
"""
import ast
import os
import re
import shutil
import subprocess
import sys
import tempfile

HERE = os.path.dirname(os.path.abspath(__file__))
ROOT = os.path.dirname(HERE)
COQ = os.path.join(ROOT, "coq")
PY = "/venv/bin/python"
REPO = os.environ.get("VERIF_REPO", "/tmp/cleanrepo")

D = "tealer/detectors/"
REKEY, CLOSE, ASSET, FEE = D + "rekeyto.py", D + "can_close_account.py", D + "can_close_asset.py", D + "fee_check.py"
UPD, DEL, AUPD, ADEL, GS = D + "is_updatable.py", D + "is_deletable.py", D + "anyone_can_update.py", D + "anyone_can_delete.py", D + "groupsize.py"
UTILS, ALL = D + "utils.py", D + "all_detectors.py"
CTX = "tealer/teal/context/block_transaction_context.py"
TEALER = "tealer/tealer.py"
INS = "tealer/teal/instructions/instructions.py"


def sh(cmd, cwd=None, env=None):
    e = dict(os.environ)
    if env:
        e.update(env)
    p = subprocess.run(cmd, shell=True, cwd=cwd, stdout=subprocess.PIPE, stderr=subprocess.STDOUT, env=e, check=False)
    return p.returncode, p.stdout.decode(errors="replace")


def rep(old, new, count=1):
    def f(src):
        if src.count(old) != count:
            raise RuntimeError(f"mutation anchor found {src.count(old)} times: " + old[:70])
        return src.replace(old, new, 1)

    return f


WRAP_LOOP = "        for contract, vulnerable_paths in output:\n            detector_output.append(ExecutionPaths(contract, self, vulnerable_paths))\n"

MUTATIONS = [
    # ---- the mutations named in the task
    ("(1) rekey-to: any_addr -> no_addr", REKEY, rep("return not block_ctx.rekeyto.any_addr", "return not block_ctx.rekeyto.no_addr")),
    ("(2) fee: `<=` -> `<` on the fee bound", FEE, rep("block_ctx.max_fee <= MAX_TRANSACTION_COST", "block_ctx.max_fee < MAX_TRANSACTION_COST")),
    ("(3) fee: `or` -> `and`", FEE, rep("return block_ctx.max_fee_unknown or block_ctx.max_fee", "return block_ctx.max_fee_unknown and block_ctx.max_fee")),
    ("(4) can-close-account: `and` -> `or`", CLOSE, rep("                and TealerTransactionType.Pay in", "                or TealerTransactionType.Pay in")),
    ("(5) can-close-account: Unknown dropped from the type list", CLOSE, rep("[TransactionType.Any, TransactionType.Unknown, TransactionType.Pay]", "[TransactionType.Any, TransactionType.Pay]")),
    ("(6) is-updatable: `not` dropped", UPD, rep("return not TealerTransactionType.ApplUpdateApplication in", "return TealerTransactionType.ApplUpdateApplication in")),
    ("(7) can-close-asset: closeto read for assetcloseto", ASSET, rep("block_ctx.assetcloseto.any_addr", "block_ctx.closeto.any_addr")),
    ("(8) rekey-to: NAME changed", REKEY, rep('    NAME = "rekey-to"\n', '    NAME = "rekey_to"\n')),
    # ---- further predicate mutations
    ("(9) unprotected-updatable: tests ApplDeleteApplication", AUPD, rep("TealerTransactionType.ApplUpdateApplication in block_ctx.transaction_types", "TealerTransactionType.ApplDeleteApplication in block_ctx.transaction_types")),
    ("(10) unprotected-deletable: sender conjunct dropped", ADEL, rep("                TealerTransactionType.ApplDeleteApplication in block_ctx.transaction_types\n                and block_ctx.sender.any_addr\n", "                TealerTransactionType.ApplDeleteApplication in block_ctx.transaction_types\n")),
    ("(11) can-close-asset: Axfer -> Pay in the predicate", ASSET, rep("and TealerTransactionType.Axfer in", "and TealerTransactionType.Pay in")),
    ("(12) fee: bound is MIN_ALGORAND_FEE", FEE, lambda s: rep("block_ctx.max_fee <= MAX_TRANSACTION_COST", "block_ctx.max_fee <= MIN_ALGORAND_FEE")(rep("from tealer.utils.algorand_constants import MAX_TRANSACTION_COST\n", "from tealer.utils.algorand_constants import MAX_TRANSACTION_COST, MIN_ALGORAND_FEE\n")(s))),
    ("(13) group-size: `not in` -> `in`", GS, rep("return MAX_GROUP_SIZE not in block_ctx.group_sizes", "return MAX_GROUP_SIZE in block_ctx.group_sizes")),
    ("(14) group-size: gtxn contexts no longer excluded", GS, rep("            if block_ctx.is_gtxn_context:\n                # gtxn_contexts have group-sizes, group-indices set to 0.\n                return False\n", "")),
    ("(15) group-size: group_indices read for group_sizes", GS, rep("not in block_ctx.group_sizes", "not in block_ctx.group_indices")),
    ("(16) is-deletable: TYPE STATELESS", DEL, rep("    TYPE = DetectorType.STATEFULL\n", "    TYPE = DetectorType.STATELESS\n")),
    # ---- detect() body
    ("(17) rekey-to: output_group test negated", REKEY, rep("        if self.tealer.output_group:\n", "        if not self.tealer.output_group:\n")),
    ("(18) fee: detect returns []", FEE, rep(WRAP_LOOP + "\n        return detector_output\n", WRAP_LOOP + "\n        return []\n")),
    ("(19) is-updatable: paths not wrapped (loop dropped)", UPD, rep(WRAP_LOOP, "")),
    ("(20) can-close-asset: vulnerable types not passed", ASSET, rep("                    checks_field,\n                    [TransactionType.Any, TransactionType.Unknown, TransactionType.Axfer],\n", "                    checks_field,\n")),
    ("(21) group-size: report condition not passed", GS, rep("            self.tealer, checks_group_size, satisfies_report_condition\n", "            self.tealer, checks_group_size\n")),
    ("(22) group-size: report condition returns False on a hit", GS, rep("                if self._accessed_using_absolute_index(block):\n                    return True\n", "                if self._accessed_using_absolute_index(block):\n                    return False\n")),
    # ---- _accessed_using_absolute_index
    ("(23) group-size: Gtxnas dropped from the class tuple", GS, rep("isinstance(ins, (Gtxn, Gtxna, Gtxnas))", "isinstance(ins, (Gtxn, Gtxna))")),
    ("(24) group-size: args[1] read as the index", GS, rep("index_value = ast_values[ins].args[0]", "index_value = ast_values[ins].args[1]")),
    ("(25) group-size: unknown index counts as absolute", GS, rep("            if isinstance(index_value, UnknownStackValue):\n                continue\n", "            if isinstance(index_value, UnknownStackValue):\n                return True\n")),
    ("(26) group-size: `if is_int` negated", GS, rep("            if is_int:\n                return True\n", "            if not is_int:\n                return True\n")),
    ("(27) group-size: gtxns also answers immediately", GS, rep("            if isinstance(ins, (Gtxns, Gtxnsa, Gtxnsas)):\n                stack_gtxns_ins.append(ins)\n", "            if isinstance(ins, (Gtxns, Gtxnsa, Gtxnsas)):\n                return True\n")),
    ("(28) group-size: Gtxnas moved to the stack-indexed tuple", GS, lambda s: rep("isinstance(ins, (Gtxns, Gtxnsa, Gtxnsas))", "isinstance(ins, (Gtxns, Gtxnsa, Gtxnsas, Gtxnas))")(rep("isinstance(ins, (Gtxn, Gtxna, Gtxnas))", "isinstance(ins, (Gtxn, Gtxna))")(s))),
    # ---- glue (fingerprints) and whitelist
    ("(s1) AddrFieldValue.any_addr defaults to False (fingerprint)", CTX, rep("    any_addr: bool = True\n", "    any_addr: bool = False\n")),
    ("(s2) BlockTransactionContext.max_fee becomes a property", CTX, rep("    def gtxn_context(self, txn_index: int)", "    @property\n    def max_fee(self) -> int:\n        return 0\n\n    def gtxn_context(self, txn_index: int)")),
    ("(s3) default report condition `lambda _x: False` (utils.py)", UTILS, lambda s: s.replace("] = lambda _x: True,\n) -> List[Tuple[", "] = lambda _x: False,\n) -> List[Tuple[", 1) if s.count("] = lambda _x: True,\n) -> List[Tuple[") == 1 else (_ for _ in ()).throw(RuntimeError("anchor s3"))),
    ("(s4) Tealer.output_group negated (fingerprint)", TEALER, rep("        return self._output_group\n", "        return not self._output_group\n")),
    ("(s5) IsDeletable not registered in all_detectors.py", ALL, rep("from tealer.detectors.is_deletable import IsDeletable\n", "")),
    ("(s6) rekey-to: an attribute outside the glue table", REKEY, rep("return not block_ctx.rekeyto.any_addr", "return not block_ctx.lease.any_addr")),
    ("(s7) fee: while statement", FEE, rep("        # there should be a better to decide which function to call ??\n", "        while False:\n            pass\n")),
    ("(s8) a subclass of Gtxns (isinstance no longer a constructor test)", INS, lambda s: s + "\n\nclass GtxnsX(Gtxns):\n    pass\n"),
    ("(s9) rekey-to: closure reads a local of detect()", REKEY, rep("            return not block_ctx.rekeyto.any_addr\n", "            return not block_ctx.rekeyto.any_addr and flag\n")),
    ("(s10) can-close-account: the single-function driver is called", CLOSE, rep("] = detect_missing_tx_field_validations_group(self.tealer, checks_field)", "] = detect_missing_tx_field_validations(self.tealer, checks_field)")),
    # ---- semantically neutral controls
    ("(e1) EQUIVALENT: fee, operands of `or` swapped", FEE, rep("return block_ctx.max_fee_unknown or block_ctx.max_fee <= MAX_TRANSACTION_COST", "return block_ctx.max_fee <= MAX_TRANSACTION_COST or block_ctx.max_fee_unknown")),
    ("(e2) EQUIVALENT: unprotected-updatable, conjuncts swapped", AUPD, rep("                TealerTransactionType.ApplUpdateApplication in block_ctx.transaction_types\n                and block_ctx.sender.any_addr\n", "                block_ctx.sender.any_addr\n                and TealerTransactionType.ApplUpdateApplication in block_ctx.transaction_types\n")),
]
EQUIVALENT = {n for n, _, _ in MUTATIONS if n.startswith("(e")}


def enclosing(vfile, line):
    name = "?"
    with open(vfile, encoding="utf-8") as f:
        for i, l in enumerate(f, 1):
            m = re.match(r"\s*(Lemma|Theorem|Corollary|Definition)\s+(\w+)", l)
            if m and i <= line:
                name = m.group(2)
            if i > line:
                break
    return name


def run_case(work, scratch, rel=None, mutate=None):
    gen = os.path.join(work, "Gen")
    lem = os.path.join(work, "Lemmas")
    os.makedirs(gen)
    os.makedirs(lem)
    path, orig = None, None
    if mutate:
        path = os.path.join(scratch, rel)
        with open(path, encoding="utf-8") as fh:
            orig = fh.read()
        new = mutate(orig)
        if new == orig:
            raise RuntimeError("mutation did not change the source")
        ast.parse(new)
        with open(path, "w", encoding="utf-8") as fh:
            fh.write(new)
    try:
        rc, out = sh(f"{PY} {HERE}/translate_detectors.py {gen}", env={"VERIF_REPO": scratch})
    finally:
        if path:
            with open(path, "w", encoding="utf-8") as fh:
                fh.write(orig)
    res = {"translator": "ok" if rc == 0 else "STOPPED", "log": out.strip().replace(scratch + "/", ""), "text": None, "gen_ok": None, "lemmas_ok": None, "where": None}
    if rc != 0:
        if rc != 2 or "translator:" not in out:
            res["translator"] = "CRASHED"
        return res
    with open(os.path.join(gen, "DetectorsGen.v"), encoding="utf-8") as fh:
        res["text"] = fh.read()
    # the other generated files are taken (compiled) from the built tree
    for f in os.listdir(os.path.join(COQ, "Gen")):
        if f.endswith(".vo") and f != "DetectorsGen.vo":
            os.symlink(os.path.join(COQ, "Gen", f), os.path.join(gen, f))
    lemv = os.path.join(lem, "DetectorsGenLemmas.v")
    shutil.copy(os.path.join(COQ, "Lemmas", "DetectorsGenLemmas.v"), lemv)
    q = f"-Q {COQ}/Model Tealer -Q {gen} Tealer -Q {COQ}/Spec Tealer -Q {COQ}/Lemmas Tealer"
    rc, out = sh(f"timeout 300 coqc {q} {gen}/DetectorsGen.v 2>&1")
    res["gen_ok"] = rc == 0
    res["log"] += "\n" + out[-1500:]
    if rc == 0:
        rc, out = sh(f"timeout 900 coqc {q} {lemv} 2>&1")
        res["lemmas_ok"] = rc == 0
        res["log"] += "\n" + out[-1500:]
        if rc != 0:
            m = re.search(r"line (\d+), characters", out)
            res["where"] = f"{enclosing(lemv, int(m.group(1)))} (line {m.group(1)})" if m else "?"
    return res


def main():
    verbose = "-v" in sys.argv
    for f in ("Model/Detect.vo", "Model/Driver.vo", "Gen/StackGen.vo", "Gen/SearchGen.vo", "Lemmas/SearchGenLemmas.vo", "Lemmas/StackGenLemmas.vo", "Lemmas/NoMiss.vo"):
        if not os.path.exists(os.path.join(COQ, f)):
            print(f"precondition: {COQ}/{f} missing -- build coq/ first (make)")
            sys.exit(3)
    top = tempfile.mkdtemp(prefix="tdetectors_")
    scratch = os.path.join(top, "repo")
    shutil.copytree(os.path.join(REPO, "tealer"), os.path.join(scratch, "tealer"), ignore=shutil.ignore_patterns("__pycache__"))
    rows = []
    ok = True
    try:
        base = run_case(os.path.join(top, "base"), scratch)
        same = None
        cur = os.path.join(COQ, "Gen", "DetectorsGen.v")
        if base["text"] is not None and os.path.exists(cur):
            with open(cur, encoding="utf-8") as fh:
                same = fh.read() == base["text"]
        good = base["translator"] == "ok" and base["gen_ok"] and base["lemmas_ok"] and same is True
        ok &= bool(good)
        rows.append(("(a) clean source", base["translator"], "= coq/Gen/DetectorsGen.v" if same else ("DIFFERS from coq/Gen" if same is False else "-"), base["gen_ok"], base["lemmas_ok"], "PASS" if good else "FAIL"))
        if verbose or not good:
            print(base["log"])
        for i, (name, rel, fn) in enumerate(MUTATIONS):
            r = run_case(os.path.join(top, f"m{i}"), scratch, rel, fn)
            if r["translator"] == "STOPPED":
                verdict, good, diff = "caught: translator stops", True, "-"
            elif r["translator"] == "CRASHED":
                verdict, good, diff = "FAIL: translator crashed", False, "-"
            else:
                differs = r["text"] != base["text"]
                diff = "differs" if differs else "IDENTICAL"
                if name in EQUIVALENT:
                    good = differs and bool(r["gen_ok"]) and r["lemmas_ok"] is True
                    verdict = "equivalent mutant: lemmas still hold (expected)" if good else "FAIL: equivalent mutant rejected"
                elif differs and r["gen_ok"] and r["lemmas_ok"] is False:
                    verdict, good = f"caught: lemmas break in {r['where']}", True
                elif differs and not r["gen_ok"]:
                    verdict, good = "caught: DetectorsGen.v ill-typed", True
                else:
                    verdict, good = "FAIL: NOT DETECTED", False
            ok &= good
            rows.append((name, r["translator"], diff, r["gen_ok"], r["lemmas_ok"], verdict))
            if verbose or not good:
                print(f"--- {name}\n{r['log']}\n")
            elif r["translator"] == "STOPPED":
                print(f"--- {name}: {r['log'].splitlines()[0][:260]}")
    finally:
        shutil.rmtree(top, ignore_errors=True)
    hdr = ("case", "translator", "generated Gallina", "DetectorsGen.v compiles", "DetectorsGenLemmas.v compiles", "verdict")
    fmt = lambda x: "-" if x is None else ("yes" if x is True else ("NO" if x is False else str(x)))  # noqa: E731
    table = [hdr] + [tuple(fmt(c) for c in r) for r in rows]
    widths = [max(len(r[i]) for r in table) for i in range(len(hdr))]
    print()
    for k, r in enumerate(table):
        print(" | ".join(c.ljust(w) for c, w in zip(r, widths)))
        if k == 0:
            print("-+-".join("-" * w for w in widths))
    print("\nRESULT:", "all mutations caught, clean source accepted" if ok else "FAILURE")
    sys.exit(0 if ok else 1)


if __name__ == "__main__":
    main()
