"""Statement-by-statement translation of tealer's leaf functions into Gallina (Gen/Leaves.v).

Supported subset (anything else -> TranslateError):
  statements : `if c: <block>` / elif / else, `return e`, `x = e` (single assignment, becomes let),
               the idiom `if v in U: U.remove(v)` (becomes let U := remove_first v U)
  expressions: names, attribute reads, int/bool/None constants, comparisons (== != < <= > >=, in, not in),
               and/or/not, a if c else b, isinstance(x, C), max(a,b), a - b, a + b, a | b, a & b,
               set([..]) / set(x) / list(x), list comprehension `[i for i in U if i <op> k]`,
               FeeValue(...), self._universal_set()/self._null_set(), tuples.
"""
import ast
import os

from tcommon import TranslateError, fail, parse, strip_doc, coq_str, T


class Ctx:
    def __init__(self, path, names, attrs, calls, isinst):
        self.path = path
        self.names = names  # python name -> coq term
        self.attrs = attrs  # attribute name -> coq projection function
        self.calls = calls  # python call text -> coq term builder
        self.isinst = isinst  # class name -> coq predicate


def cmpop(op, path, node):
    return {
        ast.Eq: "veq",
        ast.NotEq: "vneq",
        ast.Lt: "Z.ltb",
        ast.LtE: "Z.leb",
        ast.Gt: "Z.gtb",
        ast.GtE: "Z.geb",
    }.get(type(op)) or fail(path, node, "comparison operator")


def expr(cx, e, ty=None):
    p = cx.path
    if isinstance(e, ast.Constant):
        if e.value is True:
            return "true"
        if e.value is False:
            return "false"
        if isinstance(e.value, int):
            return f"({e.value})%Z"
        if isinstance(e.value, str):
            return coq_str(e.value)
        fail(p, e, "constant")
    if isinstance(e, ast.Name):
        if e.id in cx.names:
            return cx.names[e.id]
        fail(p, e, f"unknown name {e.id}")
    if isinstance(e, ast.Attribute):
        u = ast.unparse(e)
        if u in cx.names:
            return cx.names[u]
        if e.attr in cx.attrs:
            return f"({cx.attrs[e.attr]} {expr(cx, e.value)})"
        fail(p, e, f"attribute {u}")
    if isinstance(e, ast.UnaryOp) and isinstance(e.op, ast.Not):
        return f"(negb {expr(cx, e.operand)})"
    if isinstance(e, ast.BoolOp):
        f = "andb" if isinstance(e.op, ast.And) else "orb"
        out = expr(cx, e.values[-1])
        for v in reversed(e.values[:-1]):
            out = f"({f} {expr(cx, v)} {out})"
        return out
    if isinstance(e, ast.IfExp):
        return f"(if {expr(cx, e.test)} then {expr(cx, e.body)} else {expr(cx, e.orelse)})"
    if isinstance(e, ast.Compare):
        if len(e.ops) != 1:
            fail(p, e, "chained comparison")
        op = e.ops[0]
        l, r = e.left, e.comparators[0]
        if isinstance(op, ast.In):
            return f"(mem_any {expr(cx, l)} {expr(cx, r)})"
        if isinstance(op, ast.NotIn):
            return f"(negb (mem_any {expr(cx, l)} {expr(cx, r)}))"
        if isinstance(op, (ast.Eq, ast.NotEq)):
            f = "Z.eqb" if True else ""
            body = f"(Z.eqb {expr(cx, l)} {expr(cx, r)})"
            return body if isinstance(op, ast.Eq) else f"(negb {body})"
        return f"({cmpop(op, p, e)} {expr(cx, l)} {expr(cx, r)})"
    if isinstance(e, ast.BinOp):
        l, r = expr(cx, e.left), expr(cx, e.right)
        if isinstance(e.op, ast.Sub):
            if ast.unparse(e.left).startswith("set("):
                return f"(set_diff {l} {r})"
            return f"(Z.sub {l} {r})"
        if isinstance(e.op, ast.Add):
            return f"(Z.add {l} {r})"
        if isinstance(e.op, ast.BitOr):
            return f"(set_union {l} {r})"
        if isinstance(e.op, ast.BitAnd):
            return f"(set_inter {l} {r})"
        fail(p, e, "binary operator")
    if isinstance(e, ast.Tuple):
        return "(" + ", ".join(expr(cx, x) for x in e.elts) + ")"
    if isinstance(e, ast.List):
        return "[" + "; ".join(expr(cx, x) for x in e.elts) + "]"
    if isinstance(e, ast.ListComp):
        # [i for i in U if i <op> k]
        if len(e.generators) == 1 and isinstance(e.elt, ast.Name) and isinstance(e.generators[0].target, ast.Name) and e.elt.id == e.generators[0].target.id and len(e.generators[0].ifs) == 1:
            g = e.generators[0]
            v = g.target.id
            cx2 = Ctx(cx.path, dict(cx.names, **{v: v}), cx.attrs, cx.calls, cx.isinst)
            return f"(filter (fun {v} => {expr(cx2, g.ifs[0])}) {expr(cx, g.iter)})"
        fail(p, e, "list comprehension")
    if isinstance(e, ast.Call):
        u = ast.unparse(e)
        fu = ast.unparse(e.func)
        if fu == "isinstance" and len(e.args) == 2:
            c = ast.unparse(e.args[1])
            if c in cx.isinst:
                return f"({cx.isinst[c]} {expr(cx, e.args[0])})"
            fail(p, e, f"isinstance class {c}")
        if fu == "max" and len(e.args) == 2:
            return f"(Z.max {expr(cx, e.args[0])} {expr(cx, e.args[1])})"
        if fu in ("set", "list") and len(e.args) == 1:
            a = e.args[0]
            if isinstance(a, ast.List):
                return "(set_of_list [" + "; ".join(expr(cx, x) for x in a.elts) + "])"
            return f"(set_of_list {expr(cx, a)})" if fu == "set" else expr(cx, a)
        if fu == "FeeValue":
            iu, val = "false", "MAX_UINT64z"
            if e.args:
                fail(p, e, "FeeValue positional args")
            for kw in e.keywords:
                if kw.arg == "is_unknown":
                    iu = expr(cx, kw.value)
                elif kw.arg == "value":
                    val = expr(cx, kw.value)
                else:
                    fail(p, e, "FeeValue keyword")
            return f"(mkFee {iu} {val})"
        if u in cx.calls:
            return cx.calls[u]
        fail(p, e, "call " + u)
    fail(p, e, "expression " + ast.unparse(e))


def block(cx, stmts, fallthrough=None):
    """translate a statement list that ends by returning on every path"""
    p = cx.path
    stmts = strip_doc(stmts)
    if not stmts:
        if fallthrough is None:
            raise TranslateError(f"translator: {p}: control reaches end of function without return")
        return fallthrough
    st, rest = stmts[0], stmts[1:]
    if isinstance(st, ast.Return):
        return expr(cx, st.value)
    if isinstance(st, ast.Assign) and len(st.targets) == 1 and isinstance(st.targets[0], ast.Name):
        v = st.targets[0].id
        val = expr(cx, st.value)
        cx2 = Ctx(cx.path, dict(cx.names, **{v: v}), cx.attrs, cx.calls, cx.isinst)
        return f"(let {v} := {val} in {block(cx2, rest, fallthrough)})"
    if isinstance(st, ast.If):
        # idiom: if v in U: U.remove(v)
        if not st.orelse and len(st.body) == 1 and isinstance(st.body[0], ast.Expr):
            c = st.body[0].value
            t = st.test
            if (
                isinstance(c, ast.Call)
                and isinstance(c.func, ast.Attribute)
                and c.func.attr == "remove"
                and isinstance(c.func.value, ast.Name)
                and isinstance(t, ast.Compare)
                and isinstance(t.ops[0], ast.In)
                and ast.unparse(t.left) == ast.unparse(c.args[0])
                and ast.unparse(t.comparators[0]) == c.func.value.id
            ):
                lst = c.func.value.id
                return f"(let {lst} := remove_first {expr(cx, c.args[0])} {cx.names[lst]} in {block(Ctx(cx.path, dict(cx.names, **{lst: lst}), cx.attrs, cx.calls, cx.isinst), rest, fallthrough)})"
            fail(p, st, "if-statement with expression body")
        rest_term = block(cx, rest, fallthrough) if (rest or fallthrough is not None) else None
        then_t = block(cx, st.body, rest_term)
        if st.orelse:
            else_t = block(cx, st.orelse, rest_term)
        else:
            if rest_term is None:
                raise TranslateError(f"translator: {p}:{st.lineno}: if without else at end of function")
            else_t = rest_term
        return f"(if {expr(cx, st.test)}\n   then {then_t}\n   else {else_t})"
    fail(p, st, "statement " + ast.unparse(st)[:60])


def find_func(tree, cls, name, path):
    for node in tree.body:
        if isinstance(node, ast.ClassDef) and node.name == cls:
            for m in node.body:
                if isinstance(m, ast.FunctionDef) and m.name == name:
                    return m
    raise TranslateError(f"translator: {path}: {cls}.{name} not found")


def find_nested(fn, name, path):
    for st in ast.walk(fn):
        if isinstance(st, ast.FunctionDef) and st.name == name:
            return st
    raise TranslateError(f"translator: {path}: nested function {name} not found")


CMP_ISINST = {"Eq": "is_Eq", "Neq": "is_Neq", "Less": "is_Less", "LessE": "is_LessE", "Greater": "is_Greater", "GreaterE": "is_GreaterE"}


def emit_leaves(outdir):
    L = []
    w = L.append
    w("(* GENERATED by tools/translate.py (translate_leaves) from /repo/tealer -- do not edit *)")
    w("From Coq Require Import String List ZArith Bool.")
    w("From Tealer Require Import LeafPrelude Tables.")
    w("Import ListNotations.")
    w("Open Scope string_scope.")
    w("Definition MAX_UINT64z : Z := Z.of_N MAX_UINT64.")
    w("Definition MAX_TRANSACTION_COSTz : Z := Z.of_N MAX_TRANSACTION_COST.")
    w("")
    n = 0
    # ------------------------------------------------ fee_field.py
    path = os.path.join(T, "analyses/dataflow/transaction_context/fee_field.py")
    tree = parse(path)
    # dataclass defaults
    for node in tree.body:
        if isinstance(node, ast.ClassDef) and node.name == "FeeValue":
            d = {}
            for m in node.body:
                if isinstance(m, ast.AnnAssign) and isinstance(m.target, ast.Name):
                    d[m.target.id] = ast.unparse(m.value)
            if d != {"is_unknown": "False", "value": "MAX_UINT64"}:
                raise TranslateError(f"translator: {path}: FeeValue defaults changed: {d}")
    names = {"MAX_TRANSACTION_COST": "MAX_TRANSACTION_COSTz", "MAX_UINT64": "MAX_UINT64z", "a": "a", "b": "b"}
    attrs = {"is_unknown": "fee_unknown", "value": "fee_value"}
    cx = Ctx(path, names, attrs, {}, CMP_ISINST)
    for fn in ("_union", "_intersection"):
        f = find_func(tree, "FeeField", fn, path)
        if [a.arg for a in f.args.args] != ["self", "key", "a", "b"]:
            fail(path, f, "signature")
        w(f"Definition fee{fn} (a b : feeval) : feeval :=\n  {block(cx, f.body)}.")
        w("")
        n += 1
    f = find_func(tree, "FeeField", "_get_asserted_max_value", path)
    if [a.arg for a in f.args.args] != ["comparison_ins", "compared_value"]:
        fail(path, f, "signature")
    cx = Ctx(path, {"comparison_ins": "comparison_ins", "compared_value": "compared_value", "MAX_UINT64": "MAX_UINT64z"}, attrs, {}, CMP_ISINST)
    w(f"Definition fee_get_asserted_max_value (comparison_ins : cmpop) (compared_value : feeval) : feeval * feeval :=\n  {block(cx, f.body)}.")
    w("")
    n += 1
    f = find_func(tree, "FeeField", "_universal_set", path)
    w(f"Definition fee_universal_set : feeval := {block(Ctx(path, {'MAX_UINT64': 'MAX_UINT64z'}, attrs, {}, {}), f.body)}.")
    f = find_func(tree, "FeeField", "_null_set", path)
    w(f"Definition fee_null_set : feeval := {block(Ctx(path, {'MAX_UINT64': 'MAX_UINT64z'}, attrs, {}, {}), f.body)}.")
    w("")
    n += 2
    # ------------------------------------------------ addr_fields.py
    path = os.path.join(T, "analyses/dataflow/transaction_context/addr_fields.py")
    tree = parse(path)
    consts = {}
    for node in tree.body:
        if isinstance(node, ast.Assign) and isinstance(node.targets[0], ast.Name) and isinstance(node.value, ast.Constant) and isinstance(node.value.value, str):
            consts[node.targets[0].id] = node.value.value
    for k in ("ANY_ADDRESS", "NO_ADDRESS", "SOME_ADDRESS", "CREATOR_ADDRESS"):
        if k not in consts:
            raise TranslateError(f"translator: {path}: {k} missing")
        w(f"Definition {k} : string := {coq_str(consts[k])}.")
    names = {"a": "a", "b": "b", "ANY_ADDRESS": "ANY_ADDRESS", "NO_ADDRESS": "NO_ADDRESS"}
    calls = {"self._universal_set()": "addr_universal_set", "self._null_set()": "addr_null_set"}
    for fn in ("_universal_set", "_null_set"):
        f = find_func(tree, "AddrFields", fn, path)
        w(f"Definition addr{fn} : sset := {block(Ctx(path, names, {}, {}, {}), f.body)}.")
        n += 1
    for fn in ("_union", "_intersection"):
        f = find_func(tree, "AddrFields", fn, path)
        if [a.arg for a in f.args.args] != ["self", "key", "a", "b"]:
            fail(path, f, "signature")
        w(f"Definition addr{fn} (a b : sset) : sset :=\n  {block(Ctx(path, names, {}, calls, {}), f.body)}.")
        w("")
        n += 1
    # ------------------------------------------------ int_fields.py
    path = os.path.join(T, "analyses/dataflow/transaction_context/int_fields.py")
    tree = parse(path)
    f = find_func(tree, "GroupIndices", "_get_asserted_int_values", path)
    if [a.arg for a in f.args.args] != ["comparison_ins", "compared_int", "universal_set"]:
        fail(path, f, "signature")
    cx = Ctx(path, {"comparison_ins": "comparison_ins", "compared_int": "compared_int", "universal_set": "universal_set"}, {}, {}, CMP_ISINST)
    w(f"Definition int_get_asserted_int_values (comparison_ins : cmpop) (compared_int : Z) (universal_set : list Z) : list Z :=\n  {block(cx, f.body)}.")
    w("")
    n += 1
    # universal sets
    us = {}
    for node in tree.body:
        if isinstance(node, ast.Assign) and isinstance(node.targets[0], ast.Subscript) and ast.unparse(node.targets[0].value) == "universal_sets":
            us[ast.unparse(node.targets[0].slice)] = ast.unparse(node.value)
    if us != {"group_size_key": "list(range(1, MAX_GROUP_SIZE + 1))", "group_index_key": "list(range(0, MAX_GROUP_SIZE))"}:
        raise TranslateError(f"translator: {path}: universal sets changed: {us}")
    w("Definition int_universal_groupsize : list Z := zrange 1 (Z.of_N MAX_GROUP_SIZE + 1).")
    w("Definition int_universal_groupindex : list Z := zrange 0 (Z.of_N MAX_GROUP_SIZE).")
    w("")
    # ------------------------------------------------ detectors: checks_field
    dets = [
        ("rekeyto.py", "MissingRekeyTo", "checks_field"),
        ("can_close_account.py", "CanCloseAccount", "checks_field"),
        ("can_close_asset.py", "CanCloseAsset", "checks_field"),
        ("fee_check.py", "MissingFeeCheck", "checks_field"),
        ("is_updatable.py", "IsUpdatable", "checks_field"),
        ("is_deletable.py", "IsDeletable", "checks_field"),
        ("anyone_can_update.py", "AnyoneCanUpdate", "checks_field"),
        ("anyone_can_delete.py", "AnyoneCanDelete", "checks_field"),
        ("groupsize.py", "MissingGroupSize", "checks_group_size"),
    ]
    attrs = {
        "rekeyto": "ctx_rekeyto",
        "closeto": "ctx_closeto",
        "assetcloseto": "ctx_assetcloseto",
        "sender": "ctx_sender",
        "any_addr": "av_any",
        "no_addr": "av_no",
        "possible_addr": "av_possible",
        "transaction_types": "ctx_transaction_types",
        "max_fee": "ctx_max_fee",
        "max_fee_unknown": "ctx_max_fee_unknown",
        "group_sizes": "ctx_group_sizes",
        "group_indices": "ctx_group_indices",
        "is_gtxn_context": "ctx_is_gtxn_context",
    }
    det_rows = []
    for fname, cls, fnname in dets:
        path = os.path.join(T, "detectors", fname)
        tree = parse(path)
        cnode = None
        for node in tree.body:
            if isinstance(node, ast.ClassDef) and node.name == cls:
                cnode = node
        if cnode is None:
            raise TranslateError(f"translator: {path}: class {cls} not found")
        meta = {}
        for m in cnode.body:
            if isinstance(m, ast.Assign) and isinstance(m.targets[0], ast.Name) and m.targets[0].id in ("NAME", "TYPE"):
                meta[m.targets[0].id] = m.value.value if isinstance(m.value, ast.Constant) else ast.unparse(m.value)
        det = find_func(tree, cls, "detect", path)
        cf = find_nested(det, fnname, path)
        names = {"block_ctx": "block_ctx", "MAX_TRANSACTION_COST": "MAX_TRANSACTION_COSTz", "MAX_GROUP_SIZE": "(Z.of_N MAX_GROUP_SIZE)"}
        for k in ("Pay", "Axfer", "ApplUpdateApplication", "ApplDeleteApplication"):
            names["TealerTransactionType." + k] = coq_str(k)
        cx = Ctx(path, names, attrs, {}, {})
        ident = meta["NAME"].replace("-", "_")
        w(f"Definition checks_{ident} (block_ctx : bctx) : bool :=\n  {block(cx, cf.body)}.")
        w("")
        n += 1
        # vulnerable transaction types argument of the group-complete call
        vt = "None"
        for c in ast.walk(det):
            if isinstance(c, ast.Call) and ast.unparse(c.func) == "detect_missing_tx_field_validations_group_complete" and len(c.args) == 4:
                if not isinstance(c.args[3], ast.List):
                    fail(path, c, "vulnerable types argument")
                vt = "Some [" + "; ".join(coq_str(ast.unparse(e).split(".")[-1]) for e in c.args[3].elts) + "]"
        det_rows.append(f"  ({coq_str(meta['NAME'])}, ({coq_str(meta['TYPE'].split('.')[-1])}, {vt}))")
    w("Definition detector_table : list (string * (string * option (list string))) := [")
    w(";\n".join(det_rows))
    w("].")
    with open(os.path.join(outdir, "Leaves.v"), "w") as f:
        f.write("\n".join(L) + "\n")
    return n
