#!/venv/bin/python
"""Statement-by-statement translation of tealer's operand reconstruction into Gallina (Gen/StackGen.v).

Translated (read with `ast` only, never imported), all from analyses/utils/stack_ast_builder.py:
  class Stack: __init__                                          -> Stack_init_gen
               push_n_values                                     -> Stack_push_n_values_gen
               pop_n_values                                      -> Stack_pop_n_values_gen
  construct_stack_ast                                            -> construct_stack_ast_gen
The hand-written counterparts are Model/StackAst.v: pop_n, push_outs, emulate_ins / emulate / construct_stack_ast;
Lemmas/StackGenLemmas.v proves generated = hand-written on every input and transports the C11 lemmas.

The two remaining functions of the file, _flatten_ast and compute_equations, are translated by
tools/translate_asserted.py (Gen/AssertedGen.v: flatten_ast_gen, compute_equations_gen).  They are NOT translated a
second time here; Lemmas/StackGenLemmas.v relates them to the model's flattening (StackAst.and_leaves_c / or_leaves_c
over StackAst.cond_of), and tools/test_translate_stack.py regenerates both files from the mutated source.

Reading of Python in Gallina.  The exception monad (`py A := option A`, ret, bind, ifE) is the one of the fixed prelude
of Gen/KeysGen.v, imported, not repeated.  In addition:
  * values.  A StackValue is a Model/StackAst.sval: UnknownStackValue() = SUnknown (the class has no state: checked),
    KnownStackValue(ins, args, i) = SKnown op k args i where the Instruction object `ins` is its POSITION k in the
    parsed instruction list `p : Cfg.prog` (as in Gen/CfgGen.v) and op = op_at p k is its class with its immediates
    (new_KnownStackValue; a dangling position is the exception None).  The default value of ins_out_values_index is
    read from the signature of KnownStackValue.__init__.  A python int is a `nat` (the only ints here are stack sizes,
    lengths and loop counters; `a - b` is accepted only as the argument of range(), where Python's negative result
    and nat's truncated 0 give the same empty range).  A BasicBlock is the model's Cfg.block record (only
    bb.instructions is read, nothing is mutated).  The returned Dict[Instruction, KnownStackValue] is an association
    list in insertion order (ast_dict); `d[k] = v` overwrites in place or inserts at the end (dict_store); Instruction
    defines no __eq__ / __hash__ (checked): keys are compared by identity, i.e. Nat.eqb on positions.
  * ins.stack_pop_size / ins.stack_push_size are Model/Syntax.stack_pop_size / stack_push_size of op_at p k, i.e. the
    lookup in the class table of the REGENERATED Gen/Tables.v (c_pop / c_push, read by tools/translate.py from the
    property bodies of every Instruction subclass).
  * the mutable object.  A Stack object is the value of its only attribute `_values` (stackobj := list sval, TOP OF
    STACK AT THE END, as in Python; the model's sstack has the top at the head).  The translator checks that __init__
    creates exactly that attribute and that the methods touch no other.  Inside a method `self._values` is the
    variable self_values; `self._values = e` re-binds it, `self._values.extend(e)` is self_values := self_values ++ e.
    A method returns (result, final self_values); a method that returns None returns the final self_values.
    In the caller `x = stack.m(a)` is `tmp <- Stack_m_gen stack a; x := fst tmp; stack := snd tmp` and the statement
    `stack.m(a)` is `stack <- Stack_m_gen stack a`.
  * aliasing.  Lists are values in Gallina, objects in Python.  The translator REJECTS every statement that would
    make two names denote the same list object: `x = y`, `self._values = <name>`, `return self._values`,
    `x = self._values` (a bare name or attribute of list type on the right-hand side of an assignment / return);
    every accepted right-hand side builds a fresh list (slice, `+`, literal, comprehension).  list.extend copies.
    A list captured by KnownStackValue(ins, args, i) must never be the receiver of append / extend afterwards.
  * slices: xs[-n:] = slice_from_neg xs n and xs[:-n] = slice_to_neg xs n, with Python's meaning for EVERY n >= 0
    (xs[-0:] is the whole list and xs[:-0] is []: this is why pop_n_values tests count == 0 first).
  * `for x in e: body` is `fold_left (fun acc x => bind acc (fun st => <body>)) <e> (ret <state>)`, state = the variables
    (re)bound or mutated in the body and bound before the loop; loops nest (acc2 / st2); the iterable (an attribute
    read, or range(n) = py_range n) is evaluated once, before the loop.  return / break / continue in a loop: rejected.
  * `[e for v in range(n)]` is `map (fun v => e) (py_range n)` (e pure).
  * an `if` whose branch returns is followed by the rest of the function in the other branch (early returns).
  * decorators.  `@lru_cache(maxsize=None)` on construct_stack_ast (and on compute_equations) is read as the IDENTITY:
    the translated function is the undecorated body.  Whether a cached result is still the result of the body (the
    cache is keyed on the BasicBlock object, whose instruction list is mutable) is the subject of another property.
    The decorator list of every function and method of the file is fingerprinted (DECORATORS): any change stops the
    translator.

Fail-closed: every statement kind, expression kind, attribute name, call name, class name, annotation and variable type
that is not whitelisted below raises TranslateError; the classes / properties the glue table stands for are
fingerprinted (FINGERPRINTS).
"""
import ast
import os
import sys

from tcommon import TranslateError, fail, parse, strip_doc, T
from translate_keys import indent, same_text, check_imports

SB_REL = "analyses/utils/stack_ast_builder.py"
BB_REL = "teal/basic_blocks.py"
INS_REL = "teal/instructions/instructions.py"

# ----------------------------------------------------------------------------- types of the little typed language
VAL, INS, NAT, BOOL, BLK, STK, DICT = "sval", "ins", "int", "bool", "blk", "stackobj", "astdict"
LVAL, LINS, LNAT, LIST_ANY, DICT_ANY = "list sval", "list ins", "list int", "list ?", "dict ?"
COQ_TYPE = {
    VAL: "sval", INS: "nat", NAT: "nat", BOOL: "bool", BLK: "block", STK: "stackobj", DICT: "ast_dict",
    LVAL: "(list sval)", LINS: "(list nat)", LNAT: "(list nat)",
}  # fmt: skip
ANNOTATIONS = {
    "List[StackValue]": LVAL,
    "int": NAT,
    "BasicBlock": BLK,
    "Dict[Instruction, KnownStackValue]": DICT,
    "None": None,
}

# ----------------------------------------------------------------------------- the glue table (FIXED)
# attribute reads: (attribute, type of the object) -> (glue function, needs p, type of the result, pure)
ATTRS = {
    ("instructions", BLK): ("bb_attr_instructions", False, LINS, True),
    ("stack_pop_size", INS): ("ins_attr_stack_pop_size", True, NAT, False),
    ("stack_push_size", INS): ("ins_attr_stack_push_size", True, NAT, False),
}
# constructors: class -> (glue term, needs p, argument types, result type, pure)
CONSTRUCTORS = {
    "UnknownStackValue": ("SUnknown", False, [], VAL, True),
    "KnownStackValue": ("new_KnownStackValue", True, [INS, LVAL, NAT], VAL, False),
}
# the class whose methods are translated, its single attribute
OBJ_CLASS, OBJ_ATTR, OBJ_ATTR_TYPE, OBJ_VAR = "Stack", "_values", LVAL, "self_values"
OBJ_METHODS = ["__init__", "push_n_values", "pop_n_values"]  # translated, in this order
OBJ_OTHER_METHODS = ["__str__", "__repr__"]  # not called by the translated code (checked: no str()/repr()/f-string is accepted)

# decorator list of every top-level function and every method of stack_ast_builder.py
DECORATORS = {
    "UnknownStackValue.__str__": [], "UnknownStackValue.__repr__": [],
    "KnownStackValue.__init__": [], "KnownStackValue.instruction": ["property"], "KnownStackValue.args": ["property"],
    "KnownStackValue.ins_out_values_index": ["property"], "KnownStackValue.__str__": [], "KnownStackValue.__repr__": [],
    "Stack.__init__": [], "Stack.push_n_values": [], "Stack.pop_n_values": [], "Stack.__str__": [], "Stack.__repr__": [],
    "construct_stack_ast": ["lru_cache(maxsize=None)"],
    "_flatten_ast": [],
    "compute_equations": ["lru_cache(maxsize=None)"],
    "get_stack_value_for_ins": [],
}  # fmt: skip
# decorators read as the identity (see the module docstring)
IDENTITY_DECORATORS = ["lru_cache(maxsize=None)"]

# Python text (docstrings stripped, layout normalised) of everything the glue table stands for
FINGERPRINTS = [
    (SB_REL, "UnknownStackValue", "__str__", "def __str__(self) -> str:\n    return 'UnknownStackValue()'"),
    (SB_REL, "UnknownStackValue", "__repr__", "def __repr__(self) -> str:\n    return 'UnknownStackValue()'"),
    (
        SB_REL, "KnownStackValue", "__init__",
        "def __init__(self, ins: Instruction, args: List, ins_out_values_index: int=0) -> None:\n    self._ins = ins\n"
        "    self._args: List[Union[KnownStackValue, UnknownStackValue]] = args\n    self._ins_out_values_index = ins_out_values_index",
    ),
    (SB_REL, "KnownStackValue", "instruction", "@property\ndef instruction(self) -> Instruction:\n    return self._ins"),
    (SB_REL, "KnownStackValue", "args", "@property\ndef args(self) -> List[Union['KnownStackValue', UnknownStackValue]]:\n    return self._args"),
    (SB_REL, "KnownStackValue", "ins_out_values_index", "@property\ndef ins_out_values_index(self) -> int:\n    return self._ins_out_values_index"),
    (BB_REL, "BasicBlock", "instructions", "@property\ndef instructions(self) -> List[Instruction]:\n    return self._instructions"),
]
# members (functions) of the three classes of stack_ast_builder.py
CLASS_MEMBERS = {
    "UnknownStackValue": ["__str__", "__repr__"],
    "KnownStackValue": ["__init__", "instruction", "args", "ins_out_values_index", "__str__", "__repr__"],
    "Stack": OBJ_METHODS + OBJ_OTHER_METHODS,
}
# dunder methods that would change dict keys (identity), truth values, len(), attribute reads
FORBIDDEN_DUNDERS = ("__eq__", "__ne__", "__hash__", "__bool__", "__len__", "__contains__", "__getattr__", "__getattribute__", "__setattr__", "__iter__", "__getitem__")

RESERVED = {
    "p", "fuel", "acc", "st", "acc2", "st2", "acc3", "st3", "ret", "bind", "py", "ifE", "notE", "andE", "orE", "fold_left", "map", "rev",
    "fst", "snd", "negb", "andb", "orb", "true", "false", "nil", "cons", "app", "length", "Some", "None", "O", "S", "nat", "bool", "list",
    "option", "block", "prog", "op_at", "instr", "sval", "SUnknown", "SKnown", "seq", "skipn", "firstn", "stackobj", "ast_dict",
    "py_range", "slice_from_neg", "slice_to_neg", "dict_store", "new_KnownStackValue", "bb_attr_instructions",
    "ins_attr_stack_pop_size", "ins_attr_stack_push_size", "stack_pop_size", "stack_push_size", "b_ins", "Nat", OBJ_VAR,
    "in", "at", "as", "fun", "let", "match", "end", "if", "then", "else", "return", "with", "forall", "exists", "fix", "cofix", "for",
    "where", "using", "Type", "Prop", "Set", "SProp", "struct", "self", "_",
}  # fmt: skip

PRELUDE = r"""
(* ====================================================================== *)
(* PRELUDE (fixed text): the glue table.  The exception monad is the one of Gen/KeysGen.v.                  *)
(* ====================================================================== *)
(* How the Python objects are read.
     - an Instruction object is its position k in the parsed instruction list p : Cfg.prog (as in Gen/CfgGen.v); its
       class and immediates are those of `op_at p k`; a dangling position is an exception.
     - a StackValue is a StackAst.sval: UnknownStackValue() = SUnknown; KnownStackValue(ins, args, i) = SKnown op k args i
       with op = op_at p k.  (.instruction / .args are attr_instruction / attr_args of Gen/KeysGen.v.)
     - a BasicBlock is the Cfg.block record; only bb.instructions (= self._instructions) is read.
     - a Stack object is the value of its only attribute _values: the TOP of the stack is the END of the list.
     - Dict[Instruction, KnownStackValue] is an association list in insertion order; keys are compared by identity
       (Instruction defines no __eq__ / __hash__: checked by the translator), i.e. Nat.eqb on positions.
   The Python text of every class / property named here is fingerprinted by tools/translate_stack.py. *)
Definition stackobj : Type := list sval.
Definition ast_dict : Type := list (nat * sval).
(* bb.instructions *)
Definition bb_attr_instructions (bb : block) : list nat := b_ins bb.
(* ins.stack_pop_size / ins.stack_push_size: the class table of Gen/Tables.v through Model/Syntax.v *)
Definition ins_attr_stack_pop_size (p : prog) (ins : nat) : py nat := bind (op_at p ins) stack_pop_size.
Definition ins_attr_stack_push_size (p : prog) (ins : nat) : py nat := bind (op_at p ins) stack_push_size.
(* KnownStackValue(ins, args, ins_out_values_index) *)
Definition new_KnownStackValue (p : prog) (ins : nat) (args : list sval) (ins_out_values_index : nat) : py sval :=
  bind (op_at p ins) (fun op => ret (SKnown op ins args ins_out_values_index)).
(* range(n) for n : nat (a negative python int, which only arises from `a - b`, gives the same empty range as the
   truncated subtraction of nat) *)
Definition py_range (n : nat) : list nat := seq 0 n.
(* xs[-n:] and xs[:-n] for n >= 0, with Python's meaning of -0 = 0: xs[-0:] = xs[0:] = xs, xs[:-0] = xs[:0] = [];
   for n >= len(xs): xs[-n:] = xs, xs[:-n] = [] *)
Definition slice_from_neg {A : Type} (xs : list A) (n : nat) : list A :=
  match n with O => xs | S _ => skipn (length xs - n) xs end.
Definition slice_to_neg {A : Type} (xs : list A) (n : nat) : list A :=
  match n with O => [] | S _ => firstn (length xs - n) xs end.
(* d[k] = v : overwrite in place, or insert at the end *)
Fixpoint dict_store (d : ast_dict) (k : nat) (v : sval) : ast_dict :=
  match d with
  | [] => [(k, v)]
  | (k', w) :: t => if Nat.eqb k' k then (k', v) :: t else (k', w) :: dict_store t k v
  end.
"""


# ----------------------------------------------------------------------------- environment
class Env:
    def __init__(self, path, vars_, kind, ret_type, imports, methods):
        self.path = path
        self.vars = dict(vars_)  # python name -> type (the Coq name is the Python name)
        self.kind = kind  # "method" | "function"
        self.ret_type = ret_type  # type of the returned value (None: the function returns None)
        self.imports = imports
        self.methods = methods  # translated methods of OBJ_CLASS: name -> ([argument types], result type)
        self.counter = [0]
        self.depth = 0  # loop nesting depth
        self.params = set()  # names of the parameters of the function being translated

    def child(self, **new):
        e = Env(self.path, self.vars, self.kind, self.ret_type, self.imports, self.methods)
        e.counter = self.counter
        e.depth = self.depth
        e.params = self.params
        e.vars.update(new)
        return e

    def fresh(self):
        self.counter[0] += 1
        return f"tmp{self.counter[0]}"


def seq(env, parts, build, monadic_result=False):
    """parts: [(term, pure)]; impure parts are bound left to right to fresh names. -> (term, pure)"""
    binds, atoms = [], []
    for t, pure in parts:
        if pure:
            atoms.append(t)
        else:
            v = env.fresh()
            binds.append((v, t))
            atoms.append(v)
    body = build(*atoms)
    if not binds and not monadic_result:
        return body, True
    out = body if monadic_result else f"(ret {body})"
    for v, t in reversed(binds):
        out = f"(bind {t} (fun {v} =>\n{out}))"
    return out, False


def as_monadic(t, pure):
    return f"(ret {t})" if pure else t


def compatible(a, b):
    if a == b:
        return a
    for x, y in ((a, b), (b, a)):
        if x == LIST_ANY and y is not None and y.startswith("list "):
            return y
        if x == DICT_ANY and y == DICT:
            return y
    return None


def is_list(ty):
    return ty is not None and ty.startswith("list ")


def need_origin(env, node, name, origin):
    if name in env.vars:
        fail(env.path, node, f"{name} is a local variable")
    if env.imports.get(name) != origin:
        fail(env.path, node, f"name {name} is bound to {env.imports.get(name)}, expected {origin}")


def is_self_attr(e, attr=None):
    return isinstance(e, ast.Attribute) and isinstance(e.value, ast.Name) and e.value.id == "self" and (attr is None or e.attr == attr)


def neg_of(e):
    """the operand of a unary minus, or None"""
    if isinstance(e, ast.UnaryOp) and isinstance(e.op, ast.USub):
        return e.operand
    return None


# ----------------------------------------------------------------------------- expressions
def nat_expr(env, e, what):
    t, ty, pure = expr(env, e)
    if ty != NAT:
        fail(env.path, e, f"{what} of type {ty}")
    return t, pure


def range_arg(env, e):
    """range(<e>) -> (term of the list, pure); `a - b` is accepted here only"""
    if not (isinstance(e, ast.Call) and isinstance(e.func, ast.Name) and e.func.id == "range" and len(e.args) == 1 and not e.keywords):
        return None
    if "range" in env.vars or "range" in env.imports:
        fail(env.path, e, "range is rebound")
    a = e.args[0]
    if isinstance(a, ast.BinOp) and isinstance(a.op, ast.Sub):
        l, lp = nat_expr(env, a.left, "operand of `-`")
        r, rp = nat_expr(env, a.right, "operand of `-`")
        return seq(env, [(l, lp), (r, rp)], lambda x, y: f"(py_range ({x} - {y}))")
    t, pure = nat_expr(env, a, "argument of range")
    return seq(env, [(t, pure)], lambda x: f"(py_range {x})")


def expr(env, e):
    """-> (term, type, pure)"""
    p = env.path
    if isinstance(e, ast.Constant):
        if isinstance(e.value, int) and not isinstance(e.value, bool) and e.value >= 0:
            return str(e.value), NAT, True
        fail(p, e, "constant " + ast.unparse(e))
    if isinstance(e, ast.Name):
        if e.id in env.vars:
            return e.id, env.vars[e.id], True
        fail(p, e, f"unknown name {e.id}")
    if isinstance(e, ast.Attribute):
        if is_self_attr(e):
            if env.kind != "method" or e.attr != OBJ_ATTR:
                fail(p, e, "attribute " + ast.unparse(e))
            return OBJ_VAR, OBJ_ATTR_TYPE, True
        t, ty, pure = expr(env, e.value)
        if (e.attr, ty) not in ATTRS:
            fail(p, e, f"attribute .{e.attr} of a value of type {ty}")
        g, needs_p, rty, gpure = ATTRS[(e.attr, ty)]
        head = f"{g} p" if needs_p else g
        if gpure:
            out, pure2 = seq(env, [(t, pure)], lambda a: f"({head} {a})")
            return out, rty, pure2
        out, _ = seq(env, [(t, pure)], lambda a: f"({head} {a})", monadic_result=True)
        return out, rty, False
    if isinstance(e, ast.Subscript):
        # xs[-n:] / xs[:-n]
        if isinstance(e.slice, ast.Slice) and e.slice.step is None:
            lo, hi = e.slice.lower, e.slice.upper
            t, ty, pure = expr(env, e.value)
            if not is_list(ty) or ty == LIST_ANY:
                fail(p, e, f"slice of a value of type {ty}")
            if lo is not None and hi is None and neg_of(lo) is not None:
                n, npure = nat_expr(env, neg_of(lo), "slice bound")
                out, pure2 = seq(env, [(t, pure), (n, npure)], lambda a, b: f"(slice_from_neg {a} {b})")
                return out, ty, pure2
            if lo is None and hi is not None and neg_of(hi) is not None:
                n, npure = nat_expr(env, neg_of(hi), "slice bound")
                out, pure2 = seq(env, [(t, pure), (n, npure)], lambda a, b: f"(slice_to_neg {a} {b})")
                return out, ty, pure2
        fail(p, e, "subscript " + ast.unparse(e))
    if isinstance(e, ast.Compare):
        if len(e.ops) != 1 or len(e.comparators) != 1:
            fail(p, e, "chained comparison")
        l, lp = nat_expr(env, e.left, "comparison operand")
        r, rp = nat_expr(env, e.comparators[0], "comparison operand")
        op = e.ops[0]
        if isinstance(op, ast.Eq):
            build = lambda a, b: f"(Nat.eqb {a} {b})"  # noqa: E731
        elif isinstance(op, ast.NotEq):
            build = lambda a, b: f"(negb (Nat.eqb {a} {b}))"  # noqa: E731
        elif isinstance(op, ast.GtE):
            build = lambda a, b: f"(Nat.leb {b} {a})"  # noqa: E731
        elif isinstance(op, ast.LtE):
            build = lambda a, b: f"(Nat.leb {a} {b})"  # noqa: E731
        elif isinstance(op, ast.Gt):
            build = lambda a, b: f"(Nat.ltb {b} {a})"  # noqa: E731
        elif isinstance(op, ast.Lt):
            build = lambda a, b: f"(Nat.ltb {a} {b})"  # noqa: E731
        else:
            fail(p, e, "comparison operator " + ast.unparse(e))
        out, pure = seq(env, [(l, lp), (r, rp)], build)
        return out, BOOL, pure
    if isinstance(e, ast.List):
        if not e.elts:
            return "[]", LIST_ANY, True
        fail(p, e, "list literal " + ast.unparse(e))
    if isinstance(e, ast.Dict):
        if not e.keys:
            return "[]", DICT_ANY, True
        fail(p, e, "dict literal " + ast.unparse(e))
    if isinstance(e, ast.BinOp):
        if isinstance(e.op, ast.Add):
            l, lty, lp = expr(env, e.left)
            r, rty, rp = expr(env, e.right)
            ty = compatible(lty, rty)
            if ty is None or not is_list(ty) or ty == LIST_ANY:
                fail(p, e, f"`+` on values of types {lty}, {rty}")
            out, pure = seq(env, [(l, lp), (r, rp)], lambda a, b: f"({a} ++ {b})")
            return out, ty, pure
        fail(p, e, "binary operator " + ast.unparse(e))
    if isinstance(e, ast.ListComp):
        if len(e.generators) != 1:
            fail(p, e, "comprehension with several generators")
        g = e.generators[0]
        if g.ifs or g.is_async or not isinstance(g.target, ast.Name):
            fail(p, e, "comprehension " + ast.unparse(e))
        it = range_arg(env, g.iter)
        if it is None:
            fail(p, e, "comprehension over " + ast.unparse(g.iter))
        v = g.target.id
        if v == "_":
            env2 = env
        else:
            check_name(env, v, e)
            if v in env.vars:
                fail(p, e, f"comprehension variable {v} shadows a variable")
            env2 = env.child(**{v: NAT})
        t, ty, pure = expr(env2, e.elt)
        if not pure or ty not in (VAL, NAT):
            fail(p, e, f"comprehension element of type {ty}" + ("" if pure else " that can raise"))
        out, pure2 = seq(env, [it], lambda a: f"(map (fun {v} => {t}) {a})")
        return out, f"list {ty}", pure2
    if isinstance(e, ast.Call):
        return call(env, e)
    fail(p, e, "expression " + ast.unparse(e)[:60])


def call(env, e):
    p = env.path
    if e.keywords:
        fail(p, e, "keyword arguments: " + ast.unparse(e)[:60])
    if isinstance(e.func, ast.Name):
        fn = e.func.id
        if fn == "len" and len(e.args) == 1:
            if "len" in env.vars or "len" in env.imports:
                fail(p, e, "len is rebound")
            t, ty, pure = expr(env, e.args[0])
            if not is_list(ty) or ty == LIST_ANY:
                fail(p, e, f"len of a value of type {ty}")
            out, pure2 = seq(env, [(t, pure)], lambda a: f"(length {a})")
            return out, NAT, pure2
        if fn in CONSTRUCTORS:
            need_origin(env, e, fn, "<local>")
            g, needs_p, atys, rty, gpure = CONSTRUCTORS[fn]
            args = list(e.args)
            defaults = KSV_DEFAULTS.get(fn, {})
            while len(args) < len(atys) and len(args) in defaults:
                args.append(ast.Constant(defaults[len(args)]))
            if len(args) != len(atys):
                fail(p, e, f"{fn} with {len(e.args)} arguments")
            parts = [expr(env, a) for a in args]
            for (_, ty, _), want, a in zip(parts, atys, args):
                if compatible(ty, want) != want:
                    fail(p, a, f"argument of {fn} of type {ty}, expected {want}")
            for a, want in zip(args, atys):
                # the list object is captured by the new value: a variable that is never mutated (check_capture_discipline)
                if is_list(want) and not (isinstance(a, ast.Name) and a.id in env.vars):
                    fail(p, a, f"list argument of {fn} that is not a variable")
            if not atys:
                return g, rty, True
            head = f"{g} p" if needs_p else g
            out, pure = seq(env, [(t, pu) for t, _, pu in parts], lambda *a: f"({head} " + " ".join(a) + ")", monadic_result=not gpure)
            return out, rty, pure and gpure
        if fn == OBJ_CLASS and not e.args and env.kind == "function":
            need_origin(env, e, fn, "<local>")
            return f"{OBJ_CLASS}_init_gen", STK, False
    fail(p, e, "call " + ast.unparse(e)[:60])


def obj_method_call(env, v):
    """`x.m(args)` with x a variable holding a Stack object -> (x, m) or None"""
    if (
        isinstance(v, ast.Call)
        and isinstance(v.func, ast.Attribute)
        and isinstance(v.func.value, ast.Name)
        and env.vars.get(v.func.value.id) == STK
    ):
        return v.func.value.id, v.func.attr
    return None


def method_term(env, v):
    """-> (object variable, term of type py (R * stackobj) or py stackobj, result type or None)"""
    p = env.path
    x, m = obj_method_call(env, v)
    if env.kind != "function" or m not in env.methods or m == "__init__":
        fail(p, v, f"method call {ast.unparse(v)[:60]}")
    atys, rty = env.methods[m]
    if v.keywords or len(v.args) != len(atys):
        fail(p, v, f"arguments of {m}")
    parts = [expr(env, a) for a in v.args]
    for (_, ty, _), want, a in zip(parts, atys, v.args):
        if compatible(ty, want) != want:
            fail(p, a, f"argument of {m} of type {ty}, expected {want}")
    out, _ = seq(env, [(t, pu) for t, _, pu in parts], lambda *a: f"({OBJ_CLASS}_{m}_gen {x} " + " ".join(a) + ")", monadic_result=True)
    return x, out, rty


# ----------------------------------------------------------------------------- statements
def check_name(env, name, node):
    if name in RESERVED or name.startswith("tmp") or name in CONSTRUCTORS or name == OBJ_CLASS or name.endswith("_gen"):
        fail(env.path, node, f"variable name {name} is reserved by the translator")
    if not name.isidentifier() or not name.isascii():
        fail(env.path, node, f"variable name {name}")


def bind_var(env, name, node, t, ty, pure, rest_of, check=True):
    """`name = <t>`; a re-assignment must keep the type of the variable"""
    if check:
        check_name(env, name, node)
    if name in env.vars:
        ty2 = compatible(env.vars[name], ty)
        if ty2 is None:
            fail(env.path, node, f"re-assignment of {name} changes its type from {env.vars[name]} to {ty}")
        ty = ty2
    if ty in (LIST_ANY, DICT_ANY):
        if ty == DICT_ANY:
            ty = DICT
        else:
            fail(env.path, node, f"the element type of the empty list bound to {name} is not determined (no annotation)")
    rest = rest_of(env.child(**{name: ty}))
    if pure:
        return f"(let {name} := {t} in\n{rest})"
    return f"(bind {t} (fun {name} =>\n{rest}))"


def tuple_term(names):
    return names[0] if len(names) == 1 else "(" + ", ".join(names) + ")"


def projections(n, st):
    """terms of the n components of the left-nested tuple st"""
    if n == 1:
        return [st]
    return projections(n - 1, f"(fst {st})") + [f"(snd {st})"]


def fresh_list_rhs(env, v, what):
    """aliasing: the right-hand side of an assignment / a returned expression of list type must build a fresh list"""
    if isinstance(v, (ast.Name, ast.Attribute)):
        t, ty, _ = expr(env, v)
        if is_list(ty) or ty in (STK, DICT):
            fail(env.path, v, f"{what} {ast.unparse(v)} would alias a mutable {ty} object (lists are values in Gallina)")


def receiver_name(st):
    """`x.append(e)` / `x.extend(e)` -> (x as ast node, method, argument) or None"""
    v = st.value if isinstance(st, ast.Expr) else None
    if isinstance(v, ast.Call) and isinstance(v.func, ast.Attribute) and v.func.attr in ("append", "extend") and len(v.args) == 1 and not v.keywords:
        return v.func.value, v.func.attr, v.args[0]
    return None


LOOP_FORBIDDEN = (
    ast.Return, ast.Break, ast.Continue, ast.While, ast.Try, ast.With, ast.FunctionDef, ast.Lambda, ast.NamedExpr, ast.AugAssign,
    ast.Delete, ast.Global, ast.Nonlocal, ast.GeneratorExp, ast.Yield, ast.YieldFrom, ast.Raise, ast.Assert, ast.Await,
)  # fmt: skip


def assigned_in(env, stmts):
    """names (re)bound or mutated by the statements of a loop body, in order of first occurrence"""
    out = []

    def add(n):
        if n not in out:
            out.append(n)

    for st in stmts:
        for node in ast.walk(st):
            if isinstance(node, LOOP_FORBIDDEN):
                fail(env.path, node, "statement/expression not accepted in a loop body: " + type(node).__name__)
            if isinstance(node, (ast.Assign, ast.AnnAssign)):
                for tg in node.targets if isinstance(node, ast.Assign) else [node.target]:
                    if isinstance(tg, ast.Name):
                        add(tg.id)
                    elif isinstance(tg, ast.Subscript) and isinstance(tg.value, ast.Name):
                        add(tg.value.id)
                    elif is_self_attr(tg):
                        add(OBJ_VAR)
                    else:
                        fail(env.path, node, "assignment target " + ast.unparse(tg))
            if isinstance(node, ast.For) and isinstance(node.target, ast.Name):
                pass  # the loop variable is local to the inner loop
            if isinstance(node, ast.Call) and isinstance(node.func, ast.Attribute):
                recv = node.func.value
                if isinstance(recv, ast.Name):
                    add(recv.id)  # x.append / x.extend / stack.m(..): the receiver is mutated
                elif is_self_attr(recv):
                    add(OBJ_VAR)
                else:
                    fail(env.path, node, "method call on " + ast.unparse(recv))
    return out


def returns(stmts):
    """the statement list always ends with a return (syntactically)"""
    stmts = strip_doc(stmts)
    if not stmts:
        return False
    last = stmts[-1]
    if isinstance(last, ast.Return):
        return True
    if isinstance(last, ast.If):
        return returns(last.body) and bool(last.orelse) and returns(last.orelse)
    return False


def end_of_function(env):
    if env.kind == "method" and env.ret_type is None:
        return f"(ret {OBJ_VAR})"
    raise TranslateError(f"translator: {env.path}: control reaches the end of a function that returns a value")


def block(env, stmts, fall):
    """stmts: statement list; fall: function env -> term for what follows the block.  Returns a term of type py R."""
    p = env.path
    stmts = strip_doc(stmts)
    if not stmts:
        return fall(env)
    st, rest = stmts[0], stmts[1:]
    rest_of = lambda env2: block(env2, rest, fall)  # noqa: E731
    if isinstance(st, ast.Return):
        if env.depth:
            fail(p, st, "return in a loop body")
        if rest:
            fail(p, rest[0], "statement after return")
        if env.ret_type is None:
            if st.value is not None and not (isinstance(st.value, ast.Constant) and st.value.value is None):
                fail(p, st, "return of a value in a function that returns None")
            return end_of_function(env)
        if st.value is None:
            fail(p, st, "bare return")
        # a local variable only ever holds a fresh list (see assign); a parameter / attribute would be an alias
        if not (isinstance(st.value, ast.Name) and st.value.id in env.vars and st.value.id not in env.params):
            fresh_list_rhs(env, st.value, "return of")
        t, ty, pure = expr(env, st.value)
        if compatible(ty, env.ret_type) != env.ret_type:
            fail(p, st, f"return of a value of type {ty}, expected {env.ret_type}")
        if env.kind == "method":
            out, pure2 = seq(env, [(t, pure)], lambda a: f"({a}, {OBJ_VAR})")
            return as_monadic(out, pure2)
        return as_monadic(t, pure)
    if isinstance(st, (ast.Assign, ast.AnnAssign)):
        return assign(env, st, rest_of)
    if isinstance(st, ast.Expr):
        return expr_stmt(env, st, rest_of)
    if isinstance(st, ast.If):
        t, ty, pure = expr(env, st.test)
        if ty != BOOL:
            fail(p, st, f"if-condition of type {ty}")
        falls = (0 if returns(st.body) else 1) + (0 if (st.orelse and returns(st.orelse)) else 1)
        if falls > 1 and rest:
            fail(p, st, "an `if` both of whose branches fall through to more statements (join point) is not supported")
        then_t = block(env, st.body, rest_of)
        else_t = block(env, st.orelse, rest_of) if st.orelse else rest_of(env)
        if pure:
            return f"(if {t}\n then\n{indent(then_t)}\n else\n{else_t})"
        return f"(ifE {t}\n{indent(then_t)}\n{else_t})"
    if isinstance(st, ast.For):
        return for_term(env, st, rest_of)
    fail(p, st, "statement " + ast.unparse(st)[:60])


def assign(env, st, rest_of):
    p = env.path
    if isinstance(st, ast.AnnAssign):
        if st.value is None or not st.simple and not is_self_attr(st.target):
            fail(p, st, "annotated declaration " + ast.unparse(st)[:60])
        ann = ast.unparse(st.annotation)
        if ann not in ANNOTATIONS or ANNOTATIONS[ann] is None:
            fail(p, st, f"annotation {ann}")
        tg, aty = st.target, ANNOTATIONS[ann]
    else:
        if len(st.targets) != 1:
            fail(p, st, "chained assignment")
        tg, aty = st.targets[0], None
    v = st.value
    # x = stack.m(args)
    if obj_method_call(env, v):
        if not isinstance(tg, ast.Name):
            fail(p, st, "assignment target " + ast.unparse(tg))
        x, term, rty = method_term(env, v)
        if rty is None:
            fail(p, st, f"the result (None) of {ast.unparse(v)[:40]} is assigned")
        if aty is not None and aty != rty:
            fail(p, st, f"annotation {aty} of a value of type {rty}")
        if tg.id == x:
            fail(p, st, "the object is overwritten by the result of its method")
        tmp = env.fresh()
        inner = bind_var(env, tg.id, st, f"(fst {tmp})", rty, True, lambda env2: bind_var(env2, x, st, f"(snd {tmp})", STK, True, rest_of, check=False))
        return f"(bind {term} (fun {tmp} =>\n{inner}))"
    fresh_list_rhs(env, v, "assignment of")
    t, ty, pure = expr(env, v)
    if aty is not None:
        if compatible(ty, aty) != aty:
            fail(p, st, f"annotation {aty} of a value of type {ty}")
        ty = aty
    if isinstance(tg, ast.Name):
        if env.vars.get(tg.id) == STK or ty == STK and tg.id in env.vars:
            fail(p, st, f"re-assignment of the object variable {tg.id}")
        return bind_var(env, tg.id, st, t, ty, pure, rest_of)
    if is_self_attr(tg):
        # self._values = e
        if env.kind != "method" or tg.attr != OBJ_ATTR:
            fail(p, st, "assignment target " + ast.unparse(tg))
        if compatible(ty, OBJ_ATTR_TYPE) != OBJ_ATTR_TYPE:
            fail(p, st, f"self.{OBJ_ATTR} = a value of type {ty}")
        return bind_var(env, OBJ_VAR, st, t, OBJ_ATTR_TYPE, pure, rest_of, check=False)
    if isinstance(tg, ast.Subscript) and isinstance(tg.value, ast.Name) and env.vars.get(tg.value.id) == DICT and not isinstance(tg.slice, ast.Slice):
        # d[k] = v
        d = tg.value.id
        k, kty, kp = expr(env, tg.slice)
        if kty != INS or ty != VAL:
            fail(p, st, f"dictionary store with a key of type {kty} and a value of type {ty}")
        # Python evaluates the right-hand side first, then the key
        out, pure2 = seq(env, [(t, pure), (k, kp)], lambda a, b: f"(dict_store {d} {b} {a})")
        return bind_var(env, d, st, out, DICT, pure2, rest_of, check=False)
    fail(p, st, "assignment target " + ast.unparse(tg))


def expr_stmt(env, st, rest_of):
    p = env.path
    v = st.value
    if obj_method_call(env, v):
        x, term, rty = method_term(env, v)
        if rty is None:
            return f"(bind {term} (fun {x} =>\n{rest_of(env)}))"
        tmp = env.fresh()
        return f"(bind {term} (fun {tmp} =>\n(let {x} := (snd {tmp}) in\n{rest_of(env)})))"
    r = receiver_name(st)
    if r:
        recv, m, arg = r
        if isinstance(recv, ast.Name):
            x = recv.id
            if not is_list(env.vars.get(x)) or env.vars[x] == LIST_ANY:
                fail(p, st, f".{m} on {x}, which is not a list variable")
            if x in env.params:
                fail(p, st, f".{m} on the parameter {x}: the caller's list would be mutated")
            lty, coq = env.vars[x], x
        elif is_self_attr(recv, OBJ_ATTR) and env.kind == "method":
            x, lty, coq = OBJ_VAR, OBJ_ATTR_TYPE, OBJ_VAR
        else:
            fail(p, st, "receiver " + ast.unparse(recv))
        t, ty, pure = expr(env, arg)
        if m == "append":
            if f"list {ty}" != lty:
                fail(p, st, f".append of a value of type {ty} to a {lty}")
            out, pure2 = seq(env, [(t, pure)], lambda a: f"({coq} ++ [{a}])")
        else:
            if compatible(ty, lty) != lty:
                fail(p, st, f".extend of a {lty} with a value of type {ty}")
            out, pure2 = seq(env, [(t, pure)], lambda a: f"({coq} ++ {a})")
        return bind_var(env, x, st, out, lty, pure2, rest_of, check=False)
    fail(p, st, "expression statement " + ast.unparse(st)[:60])


def for_term(env, st, rest_of):
    p = env.path
    if st.orelse or getattr(st, "type_comment", None) or env.depth >= 3:
        fail(p, st, "for-else / loops nested too deep")
    if not isinstance(st.target, ast.Name):
        fail(p, st, "loop target " + ast.unparse(st.target))
    x = st.target.id
    check_name(env, x, st)
    if x in env.vars:
        fail(p, st, f"loop variable {x} shadows a variable")
    it = range_arg(env, st.iter)
    if it is not None:
        it_t, it_pure = it
        ety = NAT
    else:
        if not isinstance(st.iter, ast.Attribute):
            fail(p, st, "iteration over " + ast.unparse(st.iter)[:60] + " (only an attribute read or range(..))")
        it_t, lty, it_pure = expr(env, st.iter)
        if not is_list(lty) or lty == LIST_ANY:
            fail(p, st, f"iteration over a value of type {lty}")
        ety = lty[len("list "):]
    body = strip_doc(st.body)
    assigned = assigned_in(env, body)
    if x in assigned:
        fail(p, st, "loop body assigns the loop variable")
    for n in names_in(st.iter):
        if n in assigned:
            fail(p, st, f"loop body mutates {n}, which the iterable is read from")
    state = [n for n in assigned if n in env.vars]
    if not state:
        fail(p, st, "loop without carried variable")
    d = env.depth + 1
    accv, stv = ("acc", "st") if d == 1 else (f"acc{d}", f"st{d}")
    stys = [env.vars[n] for n in state]
    benv = env.child(**{x: ety})
    benv.depth = d

    def body_end(env2):
        for n, ty in zip(state, stys):
            if env2.vars.get(n) != ty:
                fail(p, st, f"loop body changes the type of {n} from {ty} to {env2.vars.get(n)}")
        return f"(ret {tuple_term(state)})"

    body_t = block(benv, body, body_end)
    for n, pr in reversed(list(zip(state, projections(len(state), stv)))):
        body_t = f"(let {n} := {pr} in\n{body_t})"
    tmp_it = None
    if not it_pure:
        tmp_it = env.fresh()
    loop = f"(fold_left (fun {accv} {x} => (bind {accv} (fun {stv} =>\n{indent(body_t, 2)})))\n  {tmp_it or it_t} (ret {tuple_term(state)}))"
    tmp = env.fresh()
    after = rest_of(env)  # only the carried variables are rebound; body-local names stay unknown (fail-closed)
    for n, pr in reversed(list(zip(state, projections(len(state), tmp)))):
        after = f"(let {n} := {pr} in\n{after})"
    out = f"(bind {loop} (fun {tmp} =>\n{after}))"
    if tmp_it:
        out = f"(bind {it_t} (fun {tmp_it} =>\n{out}))"
    return out


def names_in(node):
    return {n.id for n in ast.walk(node) if isinstance(n, ast.Name)}


# ----------------------------------------------------------------------------- source checks
def find_class(tree, name, path):
    found = [n for n in tree.body if isinstance(n, ast.ClassDef) and n.name == name]
    if len(found) != 1:
        raise TranslateError(f"translator: {path}: expected exactly one class {name}")
    return found[0]


def find_toplevel(tree, name, path):
    found = [n for n in tree.body if isinstance(n, ast.FunctionDef) and n.name == name]
    if len(found) != 1:
        raise TranslateError(f"translator: {path}: expected exactly one top-level function {name}")
    return found[0]


def member_text(node):
    node = ast.parse(ast.unparse(node)).body[0]
    node.body = strip_doc(node.body) or [ast.Pass()]
    return ast.unparse(node)


def members(cls):
    return [n for n in cls.body if isinstance(n, (ast.FunctionDef, ast.AsyncFunctionDef))]


def bound_names(tree):
    """top-level bindings of a module: imported name -> module.name, local definitions -> <local>; a name bound twice
    is reported as <rebound>"""
    got = {}

    def put(n, v):
        got[n] = "<rebound>" if n in got else v

    for node in tree.body:
        if isinstance(node, ast.ImportFrom):
            for al in node.names:
                put(al.asname or al.name, (node.module or "") + "." + al.name)
        elif isinstance(node, ast.Import):
            for al in node.names:
                put((al.asname or al.name).split(".")[0], "<module>")
        elif isinstance(node, (ast.FunctionDef, ast.AsyncFunctionDef, ast.ClassDef)):
            put(node.name, "<local>")
        elif isinstance(node, (ast.Assign, ast.AnnAssign, ast.AugAssign)):
            for tg in node.targets if isinstance(node, ast.Assign) else [node.target]:
                for n in names_in(tg):
                    put(n, "<local>")
        elif isinstance(node, ast.Expr) and isinstance(node.value, ast.Constant):
            pass  # module docstring
        else:
            raise TranslateError(f"translator: unsupported construct at {getattr(node, 'lineno', '?')}: top-level statement {type(node).__name__}")
    return got


def check_source(sb, stree):
    """decorators, class members, fingerprints, identity of the Instruction keys"""
    # every top-level function / class of the file is known, with its decorator list
    seen = {}
    for node in stree.body:
        if isinstance(node, (ast.FunctionDef, ast.AsyncFunctionDef)):
            seen[node.name] = [ast.unparse(d) for d in node.decorator_list]
        elif isinstance(node, ast.ClassDef):
            if node.name not in CLASS_MEMBERS:
                fail(sb, node, f"unexpected class {node.name}")
            if node.bases or node.keywords or node.decorator_list:
                fail(sb, node, f"class {node.name} has bases / decorators")
            got = [m.name for m in members(node)]
            if got != CLASS_MEMBERS[node.name]:
                fail(sb, node, f"members of class {node.name}: {got}, expected {CLASS_MEMBERS[node.name]}")
            for n in node.body:
                if isinstance(n, (ast.Assign, ast.AnnAssign, ast.AugAssign)):
                    fail(sb, n, f"class {node.name} has a class attribute")
                if isinstance(n, ast.ClassDef):
                    fail(sb, n, f"class {node.name} has a nested class")
            for m in members(node):
                if m.name in FORBIDDEN_DUNDERS:
                    fail(sb, m, f"class {node.name} defines {m.name}")
                seen[f"{node.name}.{m.name}"] = [ast.unparse(d) for d in m.decorator_list]
    if seen != DECORATORS:
        diff = sorted(k for k in set(seen) | set(DECORATORS) if seen.get(k) != DECORATORS.get(k))
        raise TranslateError(f"translator: {sb}: functions / decorator lists changed for {diff}: " + ", ".join(f"{k}: {seen.get(k)}" for k in diff))
    for decos in DECORATORS.values():
        for d in decos:
            if d != "property" and d not in IDENTITY_DECORATORS:
                raise TranslateError(f"translator: decorator {d} has no reading")
    trees = {SB_REL: stree, BB_REL: parse(os.path.join(T, BB_REL))}
    for rel, cname, mname, text in FINGERPRINTS:
        path = os.path.join(T, rel)
        cls = find_class(trees[rel], cname, path)
        found = [m for m in members(cls) if m.name == mname and [ast.unparse(d) for d in m.decorator_list] in ([], ["property"])]
        if len(found) != 1 or len([m for m in members(cls) if m.name == mname]) != 1:
            raise TranslateError(f"translator: {path}: expected exactly one definition of {cname}.{mname}")
        got = member_text(found[0])
        if not same_text(ast.parse(got), text):
            raise TranslateError(f"translator: {path}: {cname}.{mname} changed (its entry in the glue table of Gen/StackGen.v is no longer justified):\n{got}")
    # BasicBlock.instructions is not a class attribute as well
    bbcls = find_class(trees[BB_REL], "BasicBlock", os.path.join(T, BB_REL))
    if bbcls.bases or bbcls.keywords or bbcls.decorator_list:
        fail(os.path.join(T, BB_REL), bbcls, "class BasicBlock has bases / decorators")
    # dictionary keys: Instruction objects are compared by identity; stack sizes are plain properties
    ipath = os.path.join(T, INS_REL)
    for cls in ast.walk(parse(ipath)):
        if isinstance(cls, ast.ClassDef):
            for n in cls.body:
                if isinstance(n, ast.FunctionDef) and n.name in ("__eq__", "__ne__", "__hash__"):
                    fail(ipath, n, f"class {cls.name} defines {n.name}: Instruction keys of a dict are no longer compared by identity")
                if isinstance(n, ast.FunctionDef) and n.name in ("stack_pop_size", "stack_push_size") and [ast.unparse(d) for d in n.decorator_list] != ["property"]:
                    fail(ipath, n, f"{cls.name}.{n.name} is not a plain property")
                for tg in n.targets if isinstance(n, ast.Assign) else [n.target] if isinstance(n, ast.AnnAssign) else []:
                    if isinstance(tg, ast.Name) and tg.id in ("__eq__", "__ne__", "__hash__", "stack_pop_size", "stack_push_size"):
                        fail(ipath, n, f"class {cls.name} has the class attribute {tg.id}")


def read_defaults(sb, stree):
    """default values of the parameters of KnownStackValue.__init__ (position among the explicit arguments -> value)"""
    cls = find_class(stree, "KnownStackValue", sb)
    init = [m for m in members(cls) if m.name == "__init__"][0]
    a = init.args
    if a.vararg or a.kwarg or a.kwonlyargs or a.posonlyargs or a.kw_defaults:
        fail(sb, init, "signature of KnownStackValue.__init__")
    names = [x.arg for x in a.args][1:]
    out = {}
    for name, dflt in zip(names[len(names) - len(a.defaults):], a.defaults):
        if not (isinstance(dflt, ast.Constant) and isinstance(dflt.value, int) and not isinstance(dflt.value, bool) and dflt.value >= 0):
            fail(sb, init, f"default value of {name}")
        out[names.index(name)] = dflt.value
    return {"KnownStackValue": out}


KSV_DEFAULTS = {}


def signature(path, fn, expected, returns_):
    a = fn.args
    if a.vararg or a.kwarg or a.kwonlyargs or a.posonlyargs or a.defaults or a.kw_defaults:
        fail(path, fn, "signature of " + fn.name)
    got = [(x.arg, ast.unparse(x.annotation) if x.annotation else None) for x in a.args]
    if got != expected:
        fail(path, fn, f"signature of {fn.name}: {got}")
    r = ast.unparse(fn.returns) if fn.returns else None
    if r != returns_:
        fail(path, fn, f"return annotation of {fn.name}: {r}")


def check_attr_discipline(path, fn):
    """a method touches no attribute of self besides OBJ_ATTR and calls no other method of self"""
    for node in ast.walk(fn):
        if isinstance(node, ast.Name) and node.id == "self":
            pass
        if isinstance(node, ast.Attribute) and isinstance(node.value, ast.Name) and node.value.id == "self" and node.attr != OBJ_ATTR:
            fail(path, node, f"self.{node.attr}: the object has the single attribute {OBJ_ATTR}")
    # `self` only occurs as self._values
    uses = sum(1 for n in ast.walk(fn) if isinstance(n, ast.Name) and n.id == "self")
    attr_uses = sum(1 for n in ast.walk(fn) if is_self_attr(n, OBJ_ATTR))
    if uses != attr_uses:
        fail(path, fn, "`self` is used other than as self." + OBJ_ATTR)


def check_capture_discipline(path, fn):
    """a list variable passed to a constructor (captured by the new object) is never the receiver of append / extend
    anywhere in the function (a loop may run the mutation after the capture)"""
    captured, mutated = {}, {}
    for node in ast.walk(fn):
        if isinstance(node, ast.Call) and isinstance(node.func, ast.Name) and node.func.id in CONSTRUCTORS:
            for a in node.args:
                for n in names_in(a):
                    captured.setdefault(n, node)
        if isinstance(node, ast.Call) and isinstance(node.func, ast.Attribute) and node.func.attr in ("append", "extend", "insert", "pop", "remove", "clear", "sort", "reverse"):
            for n in names_in(node.func.value):
                mutated.setdefault(n, node)
        if isinstance(node, (ast.Assign, ast.AugAssign, ast.Delete)):
            for tg in node.targets if not isinstance(node, ast.AugAssign) else [node.target]:
                if isinstance(tg, ast.Subscript):
                    for n in names_in(tg.value):
                        mutated.setdefault(n, node)
    for n in captured:
        if n in mutated and n != "self":
            fail(path, mutated[n], f"the list {n} is captured by a constructor call (line {captured[n].lineno}) and mutated")


# ----------------------------------------------------------------------------- emission
def emit_method(w, sb, cls, name, imports, methods):
    fn = [m for m in members(cls) if m.name == name][0]
    a = fn.args
    if a.vararg or a.kwarg or a.kwonlyargs or a.posonlyargs or a.defaults or a.kw_defaults or not a.args or a.args[0].arg != "self" or a.args[0].annotation:
        fail(sb, fn, "signature of " + fn.name)
    check_attr_discipline(sb, fn)
    params = []
    for x in a.args[1:]:
        ann = ast.unparse(x.annotation) if x.annotation else None
        if ann not in ANNOTATIONS or ANNOTATIONS[ann] is None:
            fail(sb, fn, f"annotation of the parameter {x.arg}: {ann}")
        params.append((x.arg, ANNOTATIONS[ann]))
    r = ast.unparse(fn.returns) if fn.returns else None
    if r not in ANNOTATIONS:
        fail(sb, fn, f"return annotation of {fn.name}: {r}")
    rty = ANNOTATIONS[r]
    vars_ = dict(params)
    if name != "__init__":
        vars_[OBJ_VAR] = OBJ_ATTR_TYPE
    elif params or rty is not None:
        fail(sb, fn, "signature of __init__")
    env = Env(sb, vars_, "method", rty, imports, {})
    for n, _ in params:
        check_name(env, n, fn)
    env.params = {n for n, _ in params}
    check_capture_discipline(sb, fn)

    def fall(env2):
        if name == "__init__" and env2.vars.get(OBJ_VAR) != OBJ_ATTR_TYPE:
            raise TranslateError(f"translator: {sb}: {OBJ_CLASS}.__init__ does not create self.{OBJ_ATTR}")
        return end_of_function(env2)

    body = block(env, fn.body, fall)
    ps = ("" if name == "__init__" else f" ({OBJ_VAR} : stackobj)") + "".join(f" ({n} : {COQ_TYPE[t].strip('()')})" for n, t in params)
    res = "stackobj" if rty is None else f"({COQ_TYPE[rty].strip('()')} * stackobj)"
    w(f"(* {SB_REL}: {OBJ_CLASS}.{name} (line {fn.lineno})" + ("; returns the new object" if name == "__init__" else "; returns " + ("the final self._values" if rty is None else "(result, final self._values)")) + " *)")
    w(f"Definition {OBJ_CLASS}_{name.strip('_')}_gen{ps} : py {res} :=\n{indent(body, 2)}.")
    w("")
    methods[name] = ([t for _, t in params], rty)


def emit_stack(outdir):
    global KSV_DEFAULTS
    sb = os.path.join(T, SB_REL)
    stree = parse(sb)
    imports = bound_names(stree)
    check_imports(
        sb, stree,
        {
            "UnknownStackValue": "<local>", "KnownStackValue": "<local>", "Stack": "<local>", "construct_stack_ast": "<local>",
            "lru_cache": "functools.lru_cache", "BasicBlock": "tealer.teal.basic_blocks.BasicBlock",
            "Instruction": "tealer.teal.instructions.instructions.Instruction",
        },
    )  # fmt: skip
    for n in ("UnknownStackValue", "KnownStackValue", "Stack", "StackValue", "construct_stack_ast", "lru_cache", "BasicBlock", "Instruction", "List", "Dict"):
        if imports.get(n) == "<rebound>":
            raise TranslateError(f"translator: {sb}: the name {n} is bound more than once at top level")
    for node in stree.body:
        if isinstance(node, ast.Assign) and [ast.unparse(t) for t in node.targets] == ["StackValue"]:
            if ast.unparse(node.value) != "Union[KnownStackValue, UnknownStackValue]":
                fail(sb, node, "StackValue is no longer Union[KnownStackValue, UnknownStackValue]")
            break
    else:
        raise TranslateError(f"translator: {sb}: the type alias StackValue not found")
    check_source(sb, stree)
    KSV_DEFAULTS = read_defaults(sb, stree)

    L = []
    w = L.append
    w("(* GENERATED by tools/translate.py (translate_stack) from /repo/tealer -- do not edit *)")
    w("(* analyses/utils/stack_ast_builder.py: class Stack (__init__, push_n_values, pop_n_values) and construct_stack_ast,")
    w("   statement by statement.  See tools/translate_stack.py for the reading.  (_flatten_ast / compute_equations of the")
    w("   same file are in Gen/AssertedGen.v.)  `@lru_cache(maxsize=None)` is read as the identity. *)")
    w("From Coq Require Import String List NArith ZArith Bool Arith.")
    w("From Tealer Require Import Tables Syntax Parse Cfg StackAst KeysGen.")
    w("Import ListNotations.")
    w("Open Scope list_scope.")
    w(PRELUDE.rstrip("\n"))
    w("")
    w("(* ====================================================================== *)")
    w("(* TRANSLATED functions                                                     *)")
    w("(* ====================================================================== *)")
    cls = find_class(stree, OBJ_CLASS, sb)
    methods = {}
    for m in OBJ_METHODS:
        emit_method(w, sb, cls, m, imports, methods)
    if "__init__" not in methods:
        raise TranslateError(f"translator: {sb}: {OBJ_CLASS}.__init__ not translated")
    # --- construct_stack_ast
    f = find_toplevel(stree, "construct_stack_ast", sb)
    signature(sb, f, [("bb", "BasicBlock")], "Dict[Instruction, KnownStackValue]")
    env = Env(sb, {"bb": BLK}, "function", DICT, imports, methods)
    env.params = {"bb"}
    check_capture_discipline(sb, f)
    body = block(env, f.body, end_of_function)
    w(f"(* {SB_REL}: construct_stack_ast (line {f.lineno}); decorators read as the identity: {[ast.unparse(d) for d in f.decorator_list]} *)")
    w(f"Definition construct_stack_ast_gen (p : prog) (bb : block) : py ast_dict :=\n{indent(body, 2)}.")
    os.makedirs(outdir, exist_ok=True)
    with open(os.path.join(outdir, "StackGen.v"), "w") as fh:
        fh.write("\n".join(L) + "\n")
    return len(OBJ_METHODS) + 1


def main():
    outdir = sys.argv[1] if len(sys.argv) > 1 else os.path.join(os.path.dirname(os.path.abspath(__file__)), "..", "coq", "Gen")
    try:
        n = emit_stack(outdir)
    except TranslateError as e:
        print(str(e))
        sys.exit(2)
    print(f"translate_stack: {n} operand-reconstruction functions -> {outdir}/StackGen.v")


if __name__ == "__main__":
    main()
