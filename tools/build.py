"""Build steps shared by every check: translate -> make -> extraction -> driver. Serialised with flock."""
import fcntl
import hashlib
import os
import subprocess
import sys
import time

HERE = os.path.dirname(os.path.abspath(__file__))
ROOT = os.path.dirname(HERE)
COQ = os.path.join(ROOT, "coq")
OCAML = os.path.join(ROOT, "ocaml")
PY = "/venv/bin/python"


class BuildError(Exception):
    def __init__(self, stage, log):
        super().__init__(stage)
        self.stage = stage
        self.log = log


def sh(cmd, cwd=None, timeout=3000, env=None):
    e = dict(os.environ)
    if env:
        e.update(env)
    p = subprocess.run(cmd, shell=True, cwd=cwd, stdout=subprocess.PIPE, stderr=subprocess.STDOUT, timeout=timeout, env=e, check=False)
    return p.returncode, p.stdout.decode(errors="replace")


def file_hash(paths):
    h = hashlib.sha256()
    for p in sorted(paths):
        if os.path.exists(p):
            h.update(p.encode())
            with open(p, "rb") as f:
                h.update(f.read())
    return h.hexdigest()


def coq_files():
    out = []
    with open(os.path.join(COQ, "_CoqProject")) as f:
        for l in f:
            l = l.strip()
            if l.endswith(".v"):
                out.append(l)
    return out


def build(targets=None, jobs=16, quiet=True):
    """translate + make (all .v files listed in _CoqProject, or just `targets`) + extraction + driver.
    Returns dict with timings and logs. Raises BuildError."""
    info = {}
    lock = open(os.path.join(ROOT, ".build.lock"), "w")
    fcntl.flock(lock, fcntl.LOCK_EX)
    try:
        t0 = time.time()
        gen = os.path.join(COQ, "Gen")
        tmp = os.path.join(COQ, "Gen.new")
        os.makedirs(tmp, exist_ok=True)
        rc, out = sh(f"{PY} {HERE}/translate.py {tmp}")
        info["translate_log"] = out.strip()
        if rc != 0:
            raise BuildError("translate", out)
        # only replace generated files whose content changed (keeps make incremental)
        os.makedirs(gen, exist_ok=True)
        changed = []
        for fn in os.listdir(tmp):
            a, b = os.path.join(tmp, fn), os.path.join(gen, fn)
            new = open(a, "rb").read()
            if not os.path.exists(b) or open(b, "rb").read() != new:
                with open(b, "wb") as f:
                    f.write(new)
                changed.append(fn)
        info["generated_changed"] = changed
        info["translate_s"] = round(time.time() - t0, 2)
        t1 = time.time()
        rc, out = sh("coq_makefile -f _CoqProject -o Makefile 2>&1", cwd=COQ)
        if rc != 0:
            raise BuildError("coq_makefile", out)
        tg = " ".join(t.replace(".v", ".vo") for t in targets) if targets else ""
        rc, out = sh(f"timeout 2400 make -j{jobs} {tg} 2>&1", cwd=COQ)
        info["make_log_tail"] = out[-3000:]
        info["make_s"] = round(time.time() - t1, 2)
        if rc != 0:
            raise BuildError("make", out)
        # extraction + driver (only when model or generated files changed)
        t2 = time.time()
        model_files = [os.path.join(COQ, f) for f in coq_files() if f.startswith(("Model/", "Gen/"))] + [os.path.join(COQ, "Extr/Extract.v"), os.path.join(OCAML, "main.ml")]
        hv = file_hash(model_files)
        stamp = os.path.join(OCAML, "driver.stamp")
        if not (os.path.exists(stamp) and open(stamp).read() == hv and os.path.exists(os.path.join(OCAML, "driver"))):
            ex = os.path.join(OCAML, "extracted")
            sh(f"rm -rf {ex}; mkdir -p {ex}")
            rc, out = sh(f"cp {COQ}/Extr/Extract.v . && timeout 600 coqc -Q {COQ}/Model Tealer -Q {COQ}/Gen Tealer -Q {COQ}/Spec Tealer Extract.v 2>&1", cwd=ex)
            if rc != 0:
                raise BuildError("extraction", out)
            rc, out = sh("cp ../main.ml . && ocamlfind ocamlopt -w -a $(ocamlfind ocamldep -sort *.ml *.mli | tr '\\n' ' ') -o ../driver 2>&1", cwd=ex)
            if rc != 0:
                raise BuildError("ocaml", out)
            with open(stamp, "w") as f:
                f.write(hv)
            info["driver_rebuilt"] = True
        info["extract_s"] = round(time.time() - t2, 2)
        return info
    finally:
        fcntl.flock(lock, fcntl.LOCK_UN)
        lock.close()


if __name__ == "__main__":
    try:
        i = build()
        print({k: v for k, v in i.items() if k != "make_log_tail"})
    except BuildError as e:
        print("BUILD FAILED at", e.stage)
        print(e.log[-3000:])
        sys.exit(1)
