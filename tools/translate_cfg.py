#!/venv/bin/python
"""Statement-by-statement translation of the CFG construction of tealer's parser into Gallina (Gen/CfgGen.v).

Translated (read with `ast` only, never imported), all from teal/parse_teal.py:
  first_pass  (the instruction-edge part of the loop body)      -> first_pass_gen
  second_pass                                                   -> second_pass_gen
  create_bb   (third pass)                                      -> create_bb_gen
  fourth_pass                                                   -> fourth_pass_gen
  identify_subroutine_blocks                                    -> identify_subroutine_blocks_loop_gen (the `while`)
                                                                   + identify_subroutine_blocks_gen
  parse_teal  (the loop that unlinks the unreachable blocks)    -> prune_unreachable_gen
The hand-written counterparts are Model/Cfg.v: ins_next, scan_step / scan / create_bb, build_blocks, dfs_blocks /
identify_subroutine_blocks and the pruning inside parse_teal; Lemmas/CfgGenLemmas.v proves generated = hand-written.

Reading of Python in Gallina.  The exception monad (`py A := option A`, ret, bind, ifE, andE, orE, notE) is the one of
the fixed prelude of Gen/KeysGen.v, imported, not repeated.  In addition:
  * the Python object graph.  The code works on mutable Instruction and BasicBlock objects.
      - an Instruction object is its POSITION in the parsed instruction list `p : Cfg.prog` (a nat); its class and its
        immediate arguments are read from `op_at p k` (ins_class, ins_attr_label, ins_attr_labels); its mutable attributes
        (_next, _prev, _bb) are the fields of the k-th cell of the instruction heap `iheap : list insobj`.
      - a BasicBlock object is its ADDRESS in the block heap `bheap : list Cfg.block`: `BasicBlock()` allocates the next
        address (cell mkBlock addr [] [] []); the attributes _instructions, _next, _prev are the fields b_ins, b_next,
        b_prev of the cell; b_idx holds the address (Python's _idx is assigned later, by _add_basic_blocks_idx, in
        creation order; it is not read by the translated code).
      - neither class (nor any subclass of Instruction) defines __eq__/__hash__/__bool__/__len__ (checked): `==`, `in`,
        list.remove are identity, i.e. Nat.eqb on positions / addresses; the truth value of an Optional[Instruction]
        is `is not None`.
    Every attribute read, property and mutator method is ONE function of the fixed glue table of the prelude (GLUE
    below), and the Python text of each of them is fingerprinted (FINGERPRINTS): any edit stops the translator.
    A dangling reference is the exception None.
  * mutable state.  Everything that is mutated is threaded as state: the two heaps (variables bheap / iheap: an extra
    parameter and an extra result of every function that uses them), the list objects `all_bbs`, `instructions`,
    `stack`, `subroutines_blocks` (`xs.append(e)` is `xs := xs ++ [e]`, `xs.remove(e)` is lst_remove: ValueError when
    absent, `x = xs.pop()` is lst_last + removelast), the dictionaries `labels` (store = overwrite or insert at the
    end) and `subroutines` (a defaultdict(list): `subroutines[k].append(e)`).  A function that returns None returns the
    final value of what it mutated.  `e.prev.remove(x)` / `e.next.remove(x)` mutate the list object the property
    returns, i.e. the attribute itself (the properties return self._prev / self._next: fingerprinted).
  * `for x in e: body` is `fold_left (fun acc x => bind acc (fun st => <body>)) <e> (ret <state>)`, state = the variables
    (re)bound in the body and bound before the loop; loops nest (acc2/st2, acc3/st3); `continue` ends the body with the
    current state; the iterated list is evaluated once, before the loop.  A body that mutates the list object it
    iterates over (the variable, or the heap the attribute is read from) is REJECTED unless the iterable is the
    snapshot `list(e)`.  `break`, `return` in a loop: rejected.
  * `while len(xs) > 0: body` is a separate `Fixpoint <name>_loop_gen (fuel : nat) ..`: `O => ret None` (budget
    exhausted: a distinguished result, not an exception), `S fuel =>` if the test holds the body followed by the
    recursive call, else `ret (Some <state>)`; the enclosing function returns `py (option ..)`.
  * an `if` that is followed by more statements is translated with a JOIN POINT when the continuation is needed more
    than once: `let kN := fun <the variables assigned in the if> => <what follows> in if c then .. (kN ..) else (kN ..)`
    (as in tools/translate_search.py).
  * `if x:` on x : Optional[Instruction] is a match; inside the branch x is the Instruction (until re-assigned).
  * isinstance(ins, (A, B)) is `bind (ins_class p ins) (fun i => ret (match i with IA _ | IB _ => true | _ => false end))`
    through CLASS_PATTERNS; the translator checks that none of these classes has a subclass.
  * first_pass interleaves parsing (the model's Cfg.parse_lines) with the construction of the instruction edges.  The
    loop `for line in lines:` is read as a loop over the positions of the parsed instructions: the statements up to
    `if not ins: continue` produce the next Instruction object or skip the line (they are fingerprinted, SLICE_TEXT);
    statements that only touch what the translated part never reads (line numbers, comments, the intcblock/bytecblock
    lists) are fingerprinted and skipped (SLICE_TEXT, each with its reason); everything else is translated.
  * the pruning loop is the statement `for bi in all_bbs:` of parse_teal whose first statement tests
    `bi not in all_reachable_blocks`; at that point all_bbs is the list sorted by _add_basic_blocks_idx, which is the
    creation order (blocks are created in the order of their entry instructions).

Fail-closed: every statement kind, expression kind, attribute name, call name, class name and variable type that is not
whitelisted below raises TranslateError.
"""
import ast
import os
import sys

from tcommon import TranslateError, fail, parse, strip_doc, coq_str, T
from translate_keys import indent, same_text, check_no_subclasses

PT_REL = "teal/parse_teal.py"
BB_REL = "teal/basic_blocks.py"
INS_REL = "teal/instructions/instructions.py"

# ----------------------------------------------------------------------------- types of the little typed language
INS, BLK, BOOL, NAT, STR, BHEAP, IHEAP, LABELS, SUBS, OPTINS = "ins", "blk", "bool", "nat", "str", "bheap", "iheap", "labels", "subs", "optins"
LINS, LBLK, LSTR, LIST_ANY = "list ins", "list blk", "list str", "list ?"
COQ_TYPE = {
    INS: "nat", BLK: "nat", BOOL: "bool", NAT: "nat", STR: "string", BHEAP: "block_heap", IHEAP: "ins_heap", LABELS: "labels_dict",
    SUBS: "subs_dict", OPTINS: "option nat", LINS: "list nat", LBLK: "list nat", LSTR: "list string",
}  # fmt: skip
ANNOTATIONS = {
    "List[Instruction]": LINS,
    "List[BasicBlock]": LBLK,
    "List['BasicBlock']": LBLK,
    "'BasicBlock'": BLK,
    "Dict[str, Label]": LABELS,
    "Dict[str, List[Callsub]]": SUBS,
    "Optional[Instruction]": OPTINS,
}

# python instruction class -> constructor pattern of Model/Syntax.instr
CLASS_PATTERNS = {
    "Label": "ILabel _", "B": "IB _", "BZ": "IBZ _", "BNZ": "IBNZ _", "Callsub": "ICallsub _", "Err": "IErr", "Return": "IReturn",
    "Retsub": "IRetsub", "Switch": "ISwitch _", "Match": "IMatch _",
}  # fmt: skip

# ----------------------------------------------------------------------------- the glue table
# (attribute, type of the object) -> (glue function, heap it reads (or "p"), type of the result)
ATTRS = {
    ("next", INS): ("ins_attr_next", "iheap", LINS),
    ("prev", INS): ("ins_attr_prev", "iheap", LINS),
    ("bb", INS): ("ins_attr_bb", "iheap", BLK),
    ("label", INS): ("ins_attr_label", "p", STR),
    ("labels", INS): ("ins_attr_labels", "p", LSTR),
    ("instructions", BLK): ("bb_instructions", "bheap", LINS),
    ("next", BLK): ("bb_next", "bheap", LBLK),
    ("prev", BLK): ("bb_prev", "bheap", LBLK),
    ("exit_instr", BLK): ("bb_exit_instr", "bheap", INS),
}
# mutator methods: (method, type of the object) -> (glue function, heap, type of the argument)
MUTATORS = {
    ("add_next", BLK): ("bb_add_next", "bheap", BLK),
    ("add_prev", BLK): ("bb_add_prev", "bheap", BLK),
    ("add_instruction", BLK): ("bb_add_instruction", "bheap", INS),
    ("add_next", INS): ("ins_add_next", "iheap", INS),
    ("add_prev", INS): ("ins_add_prev", "iheap", INS),
}
# `<obj>.<attr>.remove(x)`: (attr, type of the object) -> (glue function, heap, type of the argument)
REMOVERS = {
    ("next", BLK): ("bb_next_remove", "bheap", BLK),
    ("prev", BLK): ("bb_prev_remove", "bheap", BLK),
    ("next", INS): ("ins_next_remove", "iheap", INS),
    ("prev", INS): ("ins_prev_remove", "iheap", INS),
}
HEAP_TYPE = {"bheap": BHEAP, "iheap": IHEAP}

# Python text (docstrings stripped, layout normalised) of everything the glue table stands for
FINGERPRINTS = [
    (
        BB_REL, "BasicBlock", "__init__", None,
        "def __init__(self) -> None:\n    self._instructions: List[Instruction] = []\n    self._prev: List[BasicBlock] = []\n"
        "    self._next: List[BasicBlock] = []\n    self._idx: int = 0\n    self._teal: Optional['Teal'] = None\n"
        "    self._tealer_comments: List[str] = []\n    self._subroutine: Optional['Subroutine'] = None",
    ),
    (BB_REL, "BasicBlock", "add_instruction", None, "def add_instruction(self, instruction: Instruction) -> None:\n    self._instructions.append(instruction)"),
    (BB_REL, "BasicBlock", "instructions", None, "@property\ndef instructions(self) -> List[Instruction]:\n    return self._instructions"),
    (BB_REL, "BasicBlock", "exit_instr", None, "@property\ndef exit_instr(self) -> Instruction:\n    return self._instructions[-1]"),
    (BB_REL, "BasicBlock", "add_prev", None, "def add_prev(self, prev_bb: 'BasicBlock') -> None:\n    self._prev.append(prev_bb)"),
    (BB_REL, "BasicBlock", "add_next", None, "def add_next(self, next_bb: 'BasicBlock') -> None:\n    self._next.append(next_bb)"),
    (BB_REL, "BasicBlock", "prev", None, "@property\ndef prev(self) -> List['BasicBlock']:\n    return self._prev"),
    (BB_REL, "BasicBlock", "next", None, "@property\ndef next(self) -> List['BasicBlock']:\n    return self._next"),
    (
        INS_REL, "Instruction", "__init__", None,
        "def __init__(self) -> None:\n    self._prev: List[Instruction] = []\n    self._next: List[Instruction] = []\n    self._line_num = 0\n"
        "    self._source_code_line: str = ''\n    self._comment = ''\n    self._comments_before_ins: List[str] = []\n"
        "    self._tealer_comments: List[str] = []\n    self._bb: Optional['BasicBlock'] = None\n    self._version: int = 1\n"
        "    self._mode: ExecutionMode = ExecutionMode.ANY",
    ),
    (INS_REL, "Instruction", "add_prev", None, "def add_prev(self, prev_ins: 'Instruction') -> None:\n    self._prev.append(prev_ins)"),
    (INS_REL, "Instruction", "add_next", None, "def add_next(self, next_ins: 'Instruction') -> None:\n    self._next.append(next_ins)"),
    (INS_REL, "Instruction", "prev", None, "@property\ndef prev(self) -> List['Instruction']:\n    return self._prev"),
    (INS_REL, "Instruction", "next", None, "@property\ndef next(self) -> List['Instruction']:\n    return self._next"),
    (
        INS_REL, "Instruction", "bb", None,
        "@property\ndef bb(self) -> 'BasicBlock':\n    if self._bb is None:\n"
        "        raise TealerException(f'Instruction.bb is not initialized: {str(self)}')\n    return self._bb",
    ),
    (INS_REL, "Instruction", "bb", "bb.setter", "@bb.setter\ndef bb(self, b: 'BasicBlock') -> None:\n    self._bb = b"),
    (
        INS_REL, "InstructionWithLabel", "__init__", None,
        "def __init__(self, label: str):\n    super().__init__()\n    label = label.replace(' ', '')\n    self._label = label",
    ),
    (INS_REL, "InstructionWithLabel", "label", None, "@property\ndef label(self) -> str:\n    return self._label"),
    (INS_REL, "Switch", "labels", None, "@property\ndef labels(self) -> List[str]:\n    return self._labels"),
    (INS_REL, "Match", "labels", None, "@property\ndef labels(self) -> List[str]:\n    return self._labels"),
]
# the classes with a `.label` (direct subclasses of InstructionWithLabel) / `.labels` attribute
LABEL_CLASSES = ["B", "BZ", "BNZ", "Label", "Callsub"]
# dunder methods that would change ==, `in`, list.remove, truth values, attribute reads
FORBIDDEN_DUNDERS = ("__eq__", "__ne__", "__hash__", "__bool__", "__len__", "__contains__", "__getattr__", "__getattribute__", "__setattr__")

# first_pass: the statements that are NOT translated, with the reason (exact text, up to layout)
SLICE_TEXT = {
    "idx_init": ("idx = 0", "line counter: only stored into ins.line"),
    "intc_init": ("intcblock_ins: List[Intcblock] = []", "list of intcblock instructions: returned, not read by the CFG construction"),
    "bytec_init": ("bytecblock_ins: List[Bytecblock] = []", "idem"),
    "comments_init": ("instruction_comments: List[str] = []", "source comments"),
    "parse": (
        "try:\n    if line.strip().startswith('//'):\n        instruction_comments.append(line)\n        ins = None\n    else:\n"
        "        ins = parse_line(line)\n        if ins and instruction_comments:\n            ins.comments_before_ins = list(instruction_comments)\n"
        "            instruction_comments = []\nexcept ParseError as e:\n    print(f'Parse error at line {idx}: {e}')\n    sys.exit(1)",
        "parsing of one line: Model/Cfg.parse_lines; `ins` is the fresh Instruction object of the next position, or None",
    ),
    "idx_incr": ("idx = idx + 1", "line counter"),
    "skip": ("if not ins:\n    continue", "a line without instruction is skipped: the loop runs once per parsed instruction"),
    "constblocks": (
        "if isinstance(ins, Intcblock):\n    intcblock_ins.append(ins)\nelif isinstance(ins, Bytecblock):\n    bytecblock_ins.append(ins)",
        "only appends to intcblock_ins / bytecblock_ins",
    ),
    "line": ("ins.line = idx", "line number of the instruction: Cfg.i_line"),
    "comments": ("_add_instruction_comments(ins)", "only appends to ins.tealer_comments (fingerprinted)"),
    "return": ("return (intcblock_ins, bytecblock_ins)", "the two lists above"),
    "debug": ("logger_parsing.debug('Second Pass')", "logging"),
}
ADD_COMMENTS_TEXT = (
    "def _add_instruction_comments(ins: Instruction) -> None:\n    if isinstance(ins, Txn) and isinstance(ins.field, ApplicationID):\n"
    "        ins.tealer_comments.append('ApplicationID is 0 in Creation Txn')\n    elif isinstance(ins, Method):\n"
    "        method_signature = ins.method_signature\n        method_signature.strip('\"')\n"
    "        method_selector = get_method_selector(method_signature)\n        ins.tealer_comments.append(f'method-selector: {method_selector}')"
)

RESERVED = {
    "p", "fuel", "acc", "st", "acc2", "st2", "acc3", "st3", "bheap", "iheap", "ret", "bind", "py", "ifE", "notE", "andE", "orE", "assertC",
    "fold_left", "map", "rev", "fst", "snd", "negb", "andb", "orb", "true", "false", "nil", "cons", "app", "length", "removelast", "Some", "None",
    "O", "S", "nat", "bool", "string", "list", "option", "block", "insobj", "labels_dict", "subs_dict", "prog", "op_at",
    "lst_last", "lst_mem", "lst_remove", "lst_nonempty", "upd_nth", "new_BasicBlock", "ins_class", "set_ins_bb", "labels_get", "labels_set",
    "subs_append", "instr", "mkBlock", "mkInsObj", "block_heap", "ins_heap", "iheap_init", "parsed_instructions", "seq",
    "in", "at", "as", "fun", "let", "match", "end", "if", "then", "else", "return", "with", "forall", "exists", "fix", "cofix", "for",
    "where", "using", "Type", "Prop", "Set", "SProp", "struct", "self", "_",
}  # fmt: skip
RESERVED |= {g for g, _, _ in ATTRS.values()} | {g for g, _, _ in MUTATORS.values()} | {g for g, _, _ in REMOVERS.values()}

PRELUDE = r"""
(* ====================================================================== *)
(* PRELUDE (fixed text): the glue table.  The exception monad is the one of Gen/KeysGen.v.                  *)
(* ====================================================================== *)
(* How the Python object graph is read.
     - an Instruction object is its position k in the parsed instruction list p : Cfg.prog.  Its class and immediates
       are those of `op_at p k`; its mutable attributes are the k-th cell of the instruction heap:
         _next, _prev (lists of Instruction objects, in insertion order), _bb (None until create_bb sets it).
       The Instruction objects parse_line creates are fresh: _next = [], _prev = [], _bb = None (Instruction.__init__).
     - a BasicBlock object is its address in the block heap (a list of Cfg.block cells: b_ins = _instructions,
       b_next = _next, b_prev = _prev, all in insertion order; b_idx = the address).  `BasicBlock()` allocates the
       next address with empty lists (BasicBlock.__init__).
     - `==`, `in`, list.remove on these objects are identity (no __eq__ in either class hierarchy: checked by the
       translator): Nat.eqb on positions / addresses.
   The Python text of every property / method named below is fingerprinted by tools/translate_cfg.py. *)
Record insobj := mkInsObj { io_next : list nat; io_prev : list nat; io_bb : option nat }.
Definition ins_heap : Type := list insobj.
Definition block_heap : Type := list block.
(* the heap of the Instruction objects first_pass starts from: one fresh object per parsed instruction *)
Definition iheap_init (p : prog) : ins_heap := map (fun _ => mkInsObj [] [] None) p.

(* ---- list expressions *)
(* xs[-1] : IndexError on the empty list *)
Fixpoint lst_last {A : Type} (xs : list A) : py A :=
  match xs with [] => None | [x] => Some x | _ :: t => lst_last t end.
(* `x in xs` on Instruction / BasicBlock objects: identity *)
Definition lst_mem (x : nat) (xs : list nat) : bool := existsb (Nat.eqb x) xs.
(* xs.remove(x): removes the first occurrence, ValueError when there is none *)
Fixpoint lst_remove (xs : list nat) (x : nat) : py (list nat) :=
  match xs with
  | [] => None
  | y :: t => if Nat.eqb y x then Some t else bind (lst_remove t x) (fun t' => ret (y :: t'))
  end.
(* `assert e` *)
Definition assertC {A : Type} (c : py bool) (k : py A) : py A :=
  match c with Some true => k | _ => None end.
(* in-place update of the cell at address n; a dangling address is an exception *)
Fixpoint upd_nth {A : Type} (l : list A) (n : nat) (g : A -> py A) : py (list A) :=
  match l, n with
  | [], _ => None
  | x :: t, O => bind (g x) (fun y => ret (y :: t))
  | x :: t, S m => bind (upd_nth t m g) (fun t' => ret (x :: t'))
  end.

(* ---- Instruction objects *)
(* the class / immediates of the instruction at position k *)
Definition ins_class (p : prog) (k : nat) : py instr := op_at p k.
(* ins.label: defined by InstructionWithLabel (B, BZ, BNZ, Label, Callsub); AttributeError on any other class *)
Definition ins_attr_label (p : prog) (k : nat) : py string :=
  bind (op_at p k) (fun i => match i with IB l | IBZ l | IBNZ l | ILabel l | ICallsub l => Some l | _ => None end).
(* ins.labels: defined by Switch and Match only *)
Definition ins_attr_labels (p : prog) (k : nat) : py (list string) :=
  bind (op_at p k) (fun i => match i with ISwitch ls | IMatch ls => Some ls | _ => None end).
(* ins.next / ins.prev = self._next / self._prev *)
Definition ins_attr_next (h : ins_heap) (k : nat) : py (list nat) := option_map io_next (nth_error h k).
Definition ins_attr_prev (h : ins_heap) (k : nat) : py (list nat) := option_map io_prev (nth_error h k).
(* ins.bb: TealerException while _bb is None *)
Definition ins_attr_bb (h : ins_heap) (k : nat) : py nat := bind (nth_error h k) io_bb.
(* ins.bb = b *)
Definition set_ins_bb (h : ins_heap) (k b : nat) : py ins_heap :=
  upd_nth h k (fun o => ret (mkInsObj (io_next o) (io_prev o) (Some b))).
(* ins.add_next(x) / ins.add_prev(x) = self._next.append(x) / self._prev.append(x) *)
Definition ins_add_next (h : ins_heap) (k x : nat) : py ins_heap :=
  upd_nth h k (fun o => ret (mkInsObj (io_next o ++ [x]) (io_prev o) (io_bb o))).
Definition ins_add_prev (h : ins_heap) (k x : nat) : py ins_heap :=
  upd_nth h k (fun o => ret (mkInsObj (io_next o) (io_prev o ++ [x]) (io_bb o))).
(* ins.next.remove(x) / ins.prev.remove(x): the property returns the list object self._next / self._prev itself *)
Definition ins_next_remove (h : ins_heap) (k x : nat) : py ins_heap :=
  upd_nth h k (fun o => bind (lst_remove (io_next o) x) (fun l => ret (mkInsObj l (io_prev o) (io_bb o)))).
Definition ins_prev_remove (h : ins_heap) (k x : nat) : py ins_heap :=
  upd_nth h k (fun o => bind (lst_remove (io_prev o) x) (fun l => ret (mkInsObj (io_next o) l (io_bb o)))).

(* ---- BasicBlock objects *)
(* BasicBlock(): the new object and the heap that contains it *)
Definition new_BasicBlock (h : block_heap) : nat * block_heap := (length h, h ++ [mkBlock (length h) [] [] []]).
(* bb.instructions / bb.next / bb.prev = self._instructions / self._next / self._prev *)
Definition bb_instructions (h : block_heap) (b : nat) : py (list nat) := option_map b_ins (nth_error h b).
Definition bb_next (h : block_heap) (b : nat) : py (list nat) := option_map b_next (nth_error h b).
Definition bb_prev (h : block_heap) (b : nat) : py (list nat) := option_map b_prev (nth_error h b).
(* bb.exit_instr = self._instructions[-1] *)
Definition bb_exit_instr (h : block_heap) (b : nat) : py nat := bind (nth_error h b) (fun o => lst_last (b_ins o)).
(* bb.add_instruction(i) / add_next(x) / add_prev(x): append to _instructions / _next / _prev *)
Definition bb_add_instruction (h : block_heap) (b i : nat) : py block_heap :=
  upd_nth h b (fun o => ret (mkBlock (b_idx o) (b_ins o ++ [i]) (b_next o) (b_prev o))).
Definition bb_add_next (h : block_heap) (b x : nat) : py block_heap :=
  upd_nth h b (fun o => ret (mkBlock (b_idx o) (b_ins o) (b_next o ++ [x]) (b_prev o))).
Definition bb_add_prev (h : block_heap) (b x : nat) : py block_heap :=
  upd_nth h b (fun o => ret (mkBlock (b_idx o) (b_ins o) (b_next o) (b_prev o ++ [x]))).
(* bb.next.remove(x) / bb.prev.remove(x) *)
Definition bb_next_remove (h : block_heap) (b x : nat) : py block_heap :=
  upd_nth h b (fun o => bind (lst_remove (b_next o) x) (fun l => ret (mkBlock (b_idx o) (b_ins o) l (b_prev o)))).
Definition bb_prev_remove (h : block_heap) (b x : nat) : py block_heap :=
  upd_nth h b (fun o => bind (lst_remove (b_prev o) x) (fun l => ret (mkBlock (b_idx o) (b_ins o) (b_next o) l))).

(* ---- dictionaries *)
(* labels : Dict[str, Label].  d[k] (KeyError = None); d[k] = v (overwrite in place, or insert at the end) *)
Definition labels_dict : Type := list (string * nat).
Fixpoint labels_get (d : labels_dict) (k : string) : py nat :=
  match d with [] => None | (k', v) :: t => if String.eqb k' k then Some v else labels_get t k end.
Fixpoint labels_set (d : labels_dict) (k : string) (v : nat) : labels_dict :=
  match d with
  | [] => [(k, v)]
  | (k', w) :: t => if String.eqb k' k then (k', v) :: t else (k', w) :: labels_set t k v
  end.
(* subroutines : defaultdict(list).  subroutines[k].append(v): a missing key is inserted (at the end) with [] first *)
Definition subs_dict : Type := list (string * list nat).
Fixpoint subs_append (d : subs_dict) (k : string) (v : nat) : subs_dict :=
  match d with
  | [] => [(k, [v])]
  | (k', w) :: t => if String.eqb k' k then (k', w ++ [v]) :: t else (k', w) :: subs_append t k v
  end.
"""


# ----------------------------------------------------------------------------- environment
class Env:
    def __init__(self, path, vars_, spec):
        self.path = path
        self.vars = dict(vars_)  # python name -> type, in order of binding; the heaps under their reserved names
        self.spec = spec
        self.counter = [0, 0]  # temporaries, join points
        self.depth = 0  # nesting depth of for loops
        self.in_while = False
        self.loop_end = None  # innermost for loop: env -> term that ends the body (`continue`)
        self.narrow = {}  # python name of an Optional variable -> (coq name, type) inside `if x:`
        self.collect = [[]]  # names (re)bound since the last probe started (shared cell)
        self.aux = []

    def child(self, **new):
        e = Env(self.path, self.vars, self.spec)
        e.counter, e.depth, e.in_while, e.loop_end, e.collect, e.aux = self.counter, self.depth, self.in_while, self.loop_end, self.collect, self.aux
        e.narrow = {k: v for k, v in self.narrow.items() if k not in new}
        e.vars.update(new)
        return e

    def fresh(self):
        self.counter[0] += 1
        return f"tmp{self.counter[0]}"

    def fresh_join(self):
        self.counter[1] += 1
        return f"k{self.counter[1]}"


def seq(env, parts, build, monadic_result=False):
    """parts: [(term, pure)]; impure parts are bound left to right to fresh names. -> (term, pure)"""
    binds, atoms = [], []
    for t, pure in parts:
        if pure:
            atoms.append(t)
        else:
            v = env.fresh()
            binds.append((v, t))
            atoms.append(v)
    body = build(*atoms)
    if not binds and not monadic_result:
        return body, True
    out = body if monadic_result else f"(ret {body})"
    for v, t in reversed(binds):
        out = f"(bind {t} (fun {v} => {out}))"
    return out, False


def as_monadic(t, pure):
    return f"(ret {t})" if pure else t


def coqty(ty):
    t = COQ_TYPE[ty]
    return t if " " not in t else f"({t})"


def is_name(e, n=None):
    return isinstance(e, ast.Name) and (n is None or e.id == n)


def is_minus_one(s):
    return isinstance(s, ast.UnaryOp) and isinstance(s.op, ast.USub) and isinstance(s.operand, ast.Constant) and s.operand.value == 1 and not isinstance(s.operand.value, bool)


def compatible(a, b):
    if a == b:
        return a
    if a == LIST_ANY and b.startswith("list "):
        return b
    if b == LIST_ANY and a.startswith("list "):
        return a
    return None


def heap_term(env, node, heap):
    """the current value of the heap / of p, which the function must have"""
    if heap == "p":
        if not env.spec.get("p"):
            fail(env.path, node, "the class / immediates of an instruction are read in a function without access to p")
        return "p"
    if env.vars.get(heap) != HEAP_TYPE[heap]:
        fail(env.path, node, f"the function has no access to {heap}")
    return heap


def class_names(env, node):
    if isinstance(node, ast.Name):
        cs = [node.id]
    elif isinstance(node, ast.Tuple) and node.elts and all(isinstance(x, ast.Name) for x in node.elts):
        cs = [x.id for x in node.elts]
    else:
        fail(env.path, node, "isinstance class argument " + ast.unparse(node))
    for c in cs:
        if c not in CLASS_PATTERNS:
            fail(env.path, node, f"isinstance with the class {c}")
        if c in env.vars or env.spec["imports"].get(c) != "tealer.teal.instructions.instructions." + c:
            fail(env.path, node, f"the name {c} is not the class of instructions.py")
    return cs


# ----------------------------------------------------------------------------- expressions
def expr(env, e):
    """-> (term, type, pure)"""
    p = env.path
    if isinstance(e, ast.Constant):
        if e.value is True:
            return "true", BOOL, True
        if e.value is False:
            return "false", BOOL, True
        if isinstance(e.value, int) and not isinstance(e.value, bool) and e.value >= 0:
            return str(e.value), NAT, True
        fail(p, e, "constant " + ast.unparse(e))
    if isinstance(e, ast.Name):
        if e.id in env.narrow:
            return env.narrow[e.id][0], env.narrow[e.id][1], True
        if e.id in env.vars and env.vars[e.id] not in (BHEAP, IHEAP):
            return e.id, env.vars[e.id], True
        fail(p, e, f"unknown name {e.id}")
    if isinstance(e, ast.Attribute):
        t, ty, pure = expr(env, e.value)
        if (e.attr, ty) not in ATTRS:
            fail(p, e, f"attribute .{e.attr} of a value of type {ty}")
        g, heap, rty = ATTRS[(e.attr, ty)]
        h = heap_term(env, e, heap)
        out, _ = seq(env, [(t, pure)], lambda a: f"({g} {h} {a})", monadic_result=True)
        return out, rty, False
    if isinstance(e, ast.Subscript):
        v, vty, vp = expr(env, e.value)
        if vty.startswith("list ") and vty != LIST_ANY and is_minus_one(e.slice):
            out, _ = seq(env, [(v, vp)], lambda a: f"(lst_last {a})", monadic_result=True)
            return out, vty[len("list "):], False
        if vty == LABELS:
            k, kty, kp = expr(env, e.slice)
            if kty != STR:
                fail(p, e, f"dictionary key of type {kty}")
            out, _ = seq(env, [(v, vp), (k, kp)], lambda a, b: f"(labels_get {a} {b})", monadic_result=True)
            return out, INS, False
        fail(p, e, "subscript " + ast.unparse(e))
    if isinstance(e, ast.UnaryOp):
        if isinstance(e.op, ast.Not):
            t, ty, pure = expr(env, e.operand)
            if ty != BOOL:
                fail(p, e, f"`not` of a value of type {ty}")
            return (f"(negb {t})" if pure else f"(notE {t})"), BOOL, pure
        fail(p, e, "unary operator " + ast.unparse(e))
    if isinstance(e, ast.BoolOp):
        parts = [expr(env, v) for v in e.values]
        for (_, ty, _), v in zip(parts, e.values):
            if ty != BOOL:
                fail(p, v, f"operand of and/or of type {ty}")
        allpure = all(pure for _, _, pure in parts)
        if isinstance(e.op, ast.And):
            fn = "andb" if allpure else "andE"
        elif isinstance(e.op, ast.Or):
            fn = "orb" if allpure else "orE"
        else:
            fail(p, e, "boolean operator")
        terms = [t if allpure else as_monadic(t, pure) for t, _, pure in parts]
        out = terms[-1]
        for t in reversed(terms[:-1]):
            out = f"({fn} {t} {out})"
        return out, BOOL, allpure
    if isinstance(e, ast.Compare):
        if len(e.ops) != 1:
            fail(p, e, "comparison chain " + ast.unparse(e))
        op, rhs = e.ops[0], e.comparators[0]
        l, lty, lp = expr(env, e.left)
        r, rty, rp = expr(env, rhs)
        if isinstance(op, (ast.In, ast.NotIn)):
            if not ((lty == BLK and rty == LBLK) or (lty == INS and rty == LINS)):
                fail(p, e, f"`in` on values of types {lty}, {rty}")
            neg = isinstance(op, ast.NotIn)
            out, pure = seq(env, [(l, lp), (r, rp)], lambda a, b: (f"(negb (lst_mem {a} {b}))" if neg else f"(lst_mem {a} {b})"))
            return out, BOOL, pure
        if isinstance(op, (ast.Eq, ast.NotEq)):
            if not (lty == rty and lty in (NAT, INS, BLK)):
                fail(p, e, f"comparison of {lty} with {rty}")
            neg = isinstance(op, ast.NotEq)
            out, pure = seq(env, [(l, lp), (r, rp)], lambda a, b: (f"(negb (Nat.eqb {a} {b}))" if neg else f"(Nat.eqb {a} {b})"))
            return out, BOOL, pure
        if isinstance(op, ast.Gt):
            if not lty == rty == NAT:
                fail(p, e, f"`>` on values of types {lty}, {rty}")
            out, pure = seq(env, [(l, lp), (r, rp)], lambda a, b: f"(Nat.ltb {b} {a})")
            return out, BOOL, pure
        fail(p, e, "comparison " + ast.unparse(e))
    if isinstance(e, ast.Call):
        if e.keywords or not isinstance(e.func, ast.Name):
            fail(p, e, "call " + ast.unparse(e)[:60])
        fn = e.func.id
        if fn in env.vars or fn in env.spec["imports"]:
            fail(p, e, f"{fn} is not the builtin")
        if fn == "isinstance" and len(e.args) == 2:
            t, ty, pure = expr(env, e.args[0])
            if ty != INS:
                fail(p, e, f"isinstance of a value of type {ty}")
            pats = " | ".join(CLASS_PATTERNS[c] for c in class_names(env, e.args[1]))
            heap_term(env, e, "p")
            v = env.fresh()
            out, _ = seq(env, [(t, pure)], lambda a: f"(bind (ins_class p {a}) (fun {v} => (ret (match {v} with {pats} => true | _ => false end))))", monadic_result=True)
            return out, BOOL, False
        if fn == "len" and len(e.args) == 1:
            t, ty, pure = expr(env, e.args[0])
            if not ty.startswith("list ") or ty == LIST_ANY:
                fail(p, e, f"len of a value of type {ty}")
            out, pure2 = seq(env, [(t, pure)], lambda a: f"(length {a})")
            return out, NAT, pure2
        fail(p, e, "call " + ast.unparse(e)[:60])
    fail(p, e, "expression " + ast.unparse(e)[:60])


# ----------------------------------------------------------------------------- statements
FORBIDDEN = (
    ast.Try, ast.With, ast.FunctionDef, ast.AsyncFunctionDef, ast.Lambda, ast.NamedExpr, ast.AugAssign, ast.Delete, ast.Global,
    ast.Nonlocal, ast.ListComp, ast.GeneratorExp, ast.SetComp, ast.DictComp, ast.Yield, ast.YieldFrom, ast.Raise, ast.Break,
    ast.Await, ast.ClassDef, ast.Import, ast.ImportFrom, ast.Starred, ast.IfExp,
)  # fmt: skip


def check_name(env, name, node):
    if name in RESERVED or name.startswith("tmp") or (name.startswith("k") and name[1:].isdigit()) or name.endswith("_some"):
        fail(env.path, node, f"variable name {name} is reserved by the translator")
    if not name.isidentifier() or not name.isascii():
        fail(env.path, node, f"variable name {name}")


def bind_var(env, name, node, t, ty, pure, rest_of, heap=False):
    """`name = <t>`; a re-assignment must keep the type of the variable"""
    if not heap:
        check_name(env, name, node)
    if ty == LIST_ANY:
        fail(env.path, node, f"the type of {name} is not determined")
    if name in env.vars and env.vars[name] != ty:
        fail(env.path, node, f"re-assignment of {name} changes its type from {env.vars[name]} to {ty}")
    env.collect[0].append(name)
    rest = rest_of(env.child(**{name: ty}))
    if pure:
        return f"(let {name} := {t} in\n{rest})"
    return f"(bind {t} (fun {name} =>\n{rest}))"


def tuple_term(names):
    return names[0] if len(names) == 1 else "(" + ", ".join(names) + ")"


def projections(n, st):
    if n == 1:
        return [st]
    return projections(n - 1, f"(fst {st})") + [f"(snd {st})"]


def probe(env, fn):
    """run a translation for its side information only: -> (result, names bound by it)"""
    saved_counter, saved_collect, naux = list(env.counter), env.collect[0], len(env.aux)
    env.collect[0] = []
    try:
        r = fn()
        names = env.collect[0]
    finally:
        env.counter[:] = saved_counter
        env.collect[0] = saved_collect
        del env.aux[naux:]
    out = []
    for n in names:
        if n not in out:
            out.append(n)
    return r, out


def end_of_function(env, line):
    spec = env.spec
    if "returns" not in spec:
        raise TranslateError(f"translator: {env.path}:{line}: control reaches the end of the function without return")
    for n in spec["returns"]:
        if n not in env.vars:
            raise TranslateError(f"translator: {env.path}:{line}: {n} is not bound at the end of the function")
    t = tuple_term(spec["returns"])
    return f"(ret (Some {t}))" if spec.get("loop") else f"(ret {t})"


def method_call(st):
    """`<recv>.<m>(<arg>)` as a statement -> (recv, m, arg) else None"""
    v = st.value
    if isinstance(v, ast.Call) and isinstance(v.func, ast.Attribute) and len(v.args) == 1 and not v.keywords:
        return v.func.value, v.func.attr, v.args[0]
    return None


def expr_stmt(env, st, rest_of):
    p = env.path
    mc = method_call(st)
    if mc is None:
        fail(p, st, "expression statement " + ast.unparse(st)[:60])
    recv, m, arg = mc
    a, aty, ap = expr(env, arg)
    # xs.append(e) / xs.remove(e) on a list variable
    if is_name(recv) and recv.id in env.vars and env.vars[recv.id] in (LINS, LBLK) and recv.id not in env.narrow and m in ("append", "remove"):
        x, lty = recv.id, env.vars[recv.id]
        if "list " + aty != lty:
            fail(p, st, f".{m} of a value of type {aty} on a {lty}")
        if m == "append":
            out, pure = seq(env, [(a, ap)], lambda v: f"({x} ++ [{v}])")
        else:
            out, pure = seq(env, [(a, ap)], lambda v: f"(lst_remove {x} {v})", monadic_result=True)
        return bind_var(env, x, st, out, lty, pure, rest_of)
    # subroutines[k].append(e) on the defaultdict(list)
    if m == "append" and isinstance(recv, ast.Subscript) and is_name(recv.value) and env.vars.get(recv.value.id) == SUBS:
        d = recv.value.id
        k, kty, kp = expr(env, recv.slice)
        if kty != STR or aty != INS:
            fail(p, st, f"{d}[{kty}].append({aty})")
        out, pure = seq(env, [(k, kp), (a, ap)], lambda u, v: f"(subs_append {d} {u} {v})")
        return bind_var(env, d, st, out, SUBS, pure, rest_of)
    # <obj>.prev.remove(x) / <obj>.next.remove(x)
    if m == "remove" and isinstance(recv, ast.Attribute):
        o, oty, op = expr(env, recv.value)
        if (recv.attr, oty) not in REMOVERS:
            fail(p, st, f".{recv.attr}.remove on a value of type {oty}")
        g, heap, wty = REMOVERS[(recv.attr, oty)]
        if aty != wty:
            fail(p, st, f".{recv.attr}.remove of a value of type {aty}")
        h = heap_term(env, st, heap)
        out, _ = seq(env, [(o, op), (a, ap)], lambda u, v: f"({g} {h} {u} {v})", monadic_result=True)
        return bind_var(env, heap, st, out, HEAP_TYPE[heap], False, rest_of, heap=True)
    # <obj>.add_next(x) / add_prev(x) / add_instruction(x)
    o, oty, op = expr(env, recv)
    if (m, oty) in MUTATORS:
        g, heap, wty = MUTATORS[(m, oty)]
        if aty != wty:
            fail(p, st, f".{m} of a value of type {aty}")
        h = heap_term(env, st, heap)
        out, _ = seq(env, [(o, op), (a, ap)], lambda u, v: f"({g} {h} {u} {v})", monadic_result=True)
        return bind_var(env, heap, st, out, HEAP_TYPE[heap], False, rest_of, heap=True)
    fail(p, st, "method call " + ast.unparse(st)[:60])


def assign(env, st, rest_of):
    p = env.path
    if isinstance(st, ast.Assign):
        if len(st.targets) != 1:
            fail(p, st, "chained assignment")
        tg, value, ann = st.targets[0], st.value, None
    else:
        tg, value = st.target, st.value
        if value is None or not isinstance(tg, ast.Name):
            fail(p, st, "annotated assignment " + ast.unparse(st)[:60])
        ann = ANNOTATIONS.get(ast.unparse(st.annotation))
        if ann is None:
            fail(p, st, "annotation " + ast.unparse(st.annotation))
        if tg.id in env.vars:
            fail(p, st, f"{tg.id} is declared twice")
    # ins.bb = e
    if isinstance(tg, ast.Attribute):
        o, oty, op = expr(env, tg.value)
        v, vty, vp = expr(env, value)
        if tg.attr != "bb" or oty != INS or vty != BLK:
            fail(p, st, f"store .{tg.attr} of a {oty} := {vty}")
        h = heap_term(env, st, "iheap")
        out, _ = seq(env, [(v, vp), (o, op)], lambda b, a: f"(set_ins_bb {h} {a} {b})", monadic_result=True)
        return bind_var(env, "iheap", st, out, IHEAP, False, rest_of, heap=True)
    # labels[k] = v
    if isinstance(tg, ast.Subscript):
        if not is_name(tg.value) or env.vars.get(tg.value.id) != LABELS:
            fail(p, st, "assignment target " + ast.unparse(tg)[:60])
        d = tg.value.id
        v, vty, vp = expr(env, value)
        k, kty, kp = expr(env, tg.slice)
        if kty != STR or vty != INS:
            fail(p, st, f"store {d}[{kty}] = {vty}")
        out, pure = seq(env, [(v, vp), (k, kp)], lambda b, a: f"(labels_set {d} {a} {b})")
        return bind_var(env, d, st, out, LABELS, pure, rest_of)
    if not isinstance(tg, ast.Name):
        fail(p, st, "assignment target " + ast.unparse(tg)[:60])
    x = tg.id
    want = ann or env.vars.get(x)
    # x = BasicBlock()
    if isinstance(value, ast.Call) and is_name(value.func, "BasicBlock") and not value.args and not value.keywords:
        if "BasicBlock" in env.vars or env.spec["imports"].get("BasicBlock") != "tealer.teal.basic_blocks.BasicBlock":
            fail(p, st, "BasicBlock is not the class of basic_blocks.py")
        h = heap_term(env, st, "bheap")
        tmp = env.fresh()
        inner = bind_var(env, x, st, f"(fst {tmp})", BLK, True, lambda env2: bind_var(env2, "bheap", st, f"(snd {tmp})", BHEAP, True, rest_of, heap=True))
        return f"(let {tmp} := (new_BasicBlock {h}) in\n{inner})"
    # x = xs.pop()
    if isinstance(value, ast.Call) and isinstance(value.func, ast.Attribute) and value.func.attr == "pop" and not value.args and not value.keywords:
        xs = value.func.value
        if not is_name(xs) or env.vars.get(xs.id) not in (LINS, LBLK) or xs.id == x:
            fail(p, st, "pop " + ast.unparse(value)[:60])
        lty = env.vars[xs.id]
        return bind_var(env, x, st, f"(lst_last {xs.id})", lty[len("list "):], False, lambda env2: bind_var(env2, xs.id, st, f"(removelast {xs.id})", lty, True, rest_of))
    if isinstance(value, ast.List) and not value.elts:
        if want is None or not want.startswith("list "):
            fail(p, st, "empty list literal without a list annotation")
        return bind_var(env, x, st, "[]", want, True, rest_of)
    if isinstance(value, ast.Constant) and value.value is None:
        if want != OPTINS:
            fail(p, st, f"None assigned to a variable of type {want}")
        return bind_var(env, x, st, "None", OPTINS, True, rest_of)
    t, ty, pure = expr(env, value)
    if want == OPTINS and ty == INS:
        t, pure = seq(env, [(t, pure)], lambda a: f"(Some {a})")
        ty = OPTINS
    if want is not None and ty != want:
        fail(p, st, f"assignment of a value of type {ty} to {x} : {want}")
    return bind_var(env, x, st, t, ty, pure, rest_of)


def block(env, stmts, fall):
    """stmts: statement list; fall: function env -> term for what follows the block (None: the function ends).
    Returns a term of type py R."""
    p = env.path
    stmts = strip_doc(stmts)
    if not stmts:
        if fall is None:
            return end_of_function(env, "?")
        return fall(env)
    st, rest = stmts[0], stmts[1:]
    for node in ast.walk(st):
        if isinstance(node, FORBIDDEN):
            fail(p, node, "statement/expression not accepted: " + type(node).__name__)
    rest_of = lambda env2: block(env2, rest, fall)  # noqa: E731
    if isinstance(st, ast.Return):
        if env.depth or env.in_while:
            fail(p, st, "return in a loop body")
        if rest:
            fail(p, rest[0], "statement after return")
        if st.value is None or "ret_type" not in env.spec:
            fail(p, st, "return " + ast.unparse(st)[:40])
        t, ty, pure = expr(env, st.value)
        if ty != env.spec["ret_type"]:
            fail(p, st, f"return of a value of type {ty}, expected {env.spec['ret_type']}")
        wrap = (lambda a: f"(Some {a})") if env.spec.get("loop") else (lambda a: a)
        out, _ = seq(env, [(t, pure)], lambda a: f"(ret {wrap(a)})", monadic_result=True)
        return out
    if isinstance(st, ast.Pass):
        return rest_of(env)
    if isinstance(st, ast.Continue):
        if env.loop_end is None or env.in_while and env.depth == 0:
            fail(p, st, "continue outside a for loop")
        if rest:
            fail(p, rest[0], "statement after continue")
        return env.loop_end(env)
    if isinstance(st, ast.Assert):
        if st.msg is not None:
            fail(p, st, "assert with a message")
        t, ty, pure = expr(env, st.test)
        if ty != BOOL:
            fail(p, st, f"assert of a value of type {ty}")
        return f"(assertC {as_monadic(t, pure)}\n{rest_of(env)})"
    if isinstance(st, (ast.Assign, ast.AnnAssign)):
        return assign(env, st, rest_of)
    if isinstance(st, ast.Expr):
        return expr_stmt(env, st, rest_of)
    if isinstance(st, ast.If):
        if not rest:
            return if_term(env, st, fall)
        uses = [0]

        def count(_env):
            uses[0] += 1
            return "K"

        _, names = probe(env, lambda: if_term(env, st, count))
        if uses[0] == 0:
            fail(p, rest[0], "unreachable statement")
        if uses[0] == 1:
            return if_term(env, st, rest_of)
        # join point: the variables assigned in the if that are bound before it
        join = [v for v in env.vars if v in names]
        kn = env.fresh_join()
        body = block(env, rest, fall)
        params = " ".join(f"({v} : {coqty(env.vars[v])})" for v in join) or "(_ : unit)"

        def callk(env2):
            for v in join:
                if env2.vars[v] != env.vars[v]:
                    fail(p, st, f"the type of {v} differs at the join point")
            return f"({kn} {' '.join(join) or 'tt'})"

        return f"(let {kn} := (fun {params} =>\n{indent(body, 2)}) in\n{if_term(env, st, callk)})"
    if isinstance(st, ast.For):
        return for_term(env, st, rest_of)
    if isinstance(st, ast.While):
        return while_term(env, st, rest, fall)
    fail(p, st, "statement " + ast.unparse(st)[:60])


def if_term(env, st, k):
    """k: env -> term for what follows the if (None: the function ends)"""
    p = env.path
    cont = k if k is not None else (lambda env2: end_of_function(env2, st.lineno))
    # if x: on an Optional[Instruction] variable
    if is_name(st.test) and env.vars.get(st.test.id) == OPTINS and st.test.id not in env.narrow:
        x = st.test.id
        v = x + "_some"
        tenv = env.child()
        tenv.narrow[x] = (v, INS)
        then_t = block(tenv, st.body, cont)
        else_t = block(env, st.orelse, cont) if st.orelse else cont(env)
        return f"(match {x} with\n | Some {v} =>\n{indent(then_t)}\n | None =>\n{indent(else_t)}\n end)"
    t, ty, pure = expr(env, st.test)
    if ty != BOOL:
        fail(p, st, f"if-condition of type {ty}")
    then_t = block(env, st.body, cont)
    else_t = block(env, st.orelse, cont) if st.orelse else cont(env)
    if pure:
        return f"(if {t}\n then\n{indent(then_t)}\n else\n{indent(else_t)})"
    return f"(ifE {t}\n{indent(then_t)}\n{indent(else_t)})"


def iter_root(env, it):
    """the variable / heap that holds the list object a loop iterates over"""
    if is_name(it):
        return it.id
    if isinstance(it, ast.Attribute):
        _, ty, _ = expr(env, it.value)
        if (it.attr, ty) in ATTRS:
            return ATTRS[(it.attr, ty)][1]
    fail(env.path, it, "iterable " + ast.unparse(it)[:60])


def for_term(env, st, rest_of):
    p = env.path
    if st.orelse or getattr(st, "type_comment", None) or env.depth >= 3:
        fail(p, st, "for-else / loops nested too deeply")
    if not isinstance(st.target, ast.Name):
        fail(p, st, "loop header " + ast.unparse(st)[:60])
    x = st.target.id
    check_name(env, x, st)
    if x in env.vars:
        fail(p, st, f"loop variable {x} shadows a variable")
    it, snapshot = st.iter, False
    if isinstance(it, ast.Call) and is_name(it.func, "list") and len(it.args) == 1 and not it.keywords and "list" not in env.vars and "list" not in env.spec["imports"]:
        it, snapshot = it.args[0], True
    # the iterated list is evaluated once, before the loop
    l, lty, lpure = expr(env, it)
    if not lty.startswith("list ") or lty == LIST_ANY:
        fail(p, st, f"iteration over a value of type {lty}")
    body = strip_doc(st.body)
    benv = env.child(**{x: lty[len("list "):]})
    benv.depth = env.depth + 1
    benv.loop_end = lambda _e: "K"
    _, names = probe(benv, lambda: block(benv, body, lambda _e: "K"))
    if x in names:
        fail(p, st, "loop body assigns the loop variable")
    state = [n for n in env.vars if n in names]
    if not state:
        fail(p, st, "loop without carried variable")
    if iter_root(env, it) in state and not snapshot:
        fail(p, st, "loop body mutates the list it iterates over (iterate over a copy: list(..))")
    stys = [env.vars[n] for n in state]

    def body_end(env2):
        for n, ty in zip(state, stys):
            if env2.vars[n] != ty:
                fail(p, st, f"loop body changes the type of {n} from {ty} to {env2.vars[n]}")
        return f"(ret {tuple_term(state)})"

    benv.loop_end = body_end
    sfx = "" if env.depth == 0 else str(env.depth + 1)
    stv, accv = "st" + sfx, "acc" + sfx
    lst = l if lpure else env.fresh()
    body_t = block(benv, body, body_end)
    for n, pr in reversed(list(zip(state, projections(len(state), stv)))):
        body_t = f"(let {n} := {pr} in\n{body_t})"
    loop = f"(fold_left (fun {accv} {x} => (bind {accv} (fun {stv} =>\n{indent(body_t, 2)})))\n  {lst} (ret {tuple_term(state)}))"
    tmp = env.fresh()
    for n in state:
        env.collect[0].append(n)
    after = rest_of(env)
    for n, pr in reversed(list(zip(state, projections(len(state), tmp)))):
        after = f"(let {n} := {pr} in\n{after})"
    out = f"(bind {loop} (fun {tmp} =>\n{after}))"
    if not lpure:
        out = f"(bind {l} (fun {lst} =>\n{out}))"
    return out


def while_term(env, st, rest, fall):
    """`while len(xs) > 0: body` -> a separate Fixpoint over the fuel (env.aux), called here"""
    p = env.path
    spec = env.spec
    if not spec.get("loop") or env.depth or env.in_while or st.orelse or env.aux:
        fail(p, st, "while loop (only one, at the top level of a function that is expected to contain one)")
    t = st.test
    if not (
        isinstance(t, ast.Compare) and len(t.ops) == 1 and isinstance(t.ops[0], ast.Gt) and isinstance(t.comparators[0], ast.Constant)
        and t.comparators[0].value == 0 and not isinstance(t.comparators[0].value, bool) and isinstance(t.left, ast.Call)
        and is_name(t.left.func, "len") and len(t.left.args) == 1 and not t.left.keywords and is_name(t.left.args[0])
        and env.vars.get(t.left.args[0].id) in (LINS, LBLK) and "len" not in env.vars and "len" not in spec["imports"]
    ):  # fmt: skip
        fail(p, st, "loop condition " + ast.unparse(t)[:40] + " (expected: len(<list variable>) > 0)")
    xs = t.left.args[0].id
    body = strip_doc(st.body)
    benv = env.child()
    benv.in_while = True
    benv.loop_end = None
    _, names = probe(benv, lambda: block(benv, body, lambda _e: "K"))
    state = [n for n in env.vars if n in names]
    if xs not in state:
        fail(p, st, "the loop body does not change the list of the loop condition")
    params = list(env.vars)
    name = spec["loop"]
    stys = [env.vars[n] for n in state]
    sty = " * ".join(coqty(ty) for ty in stys)
    call_t = lambda: f"({name} fuel " + " ".join(params) + ")"  # noqa: E731

    def again(env2):
        for n, ty in zip(state, stys):
            if env2.vars[n] != ty:
                fail(p, st, f"loop body changes the type of {n}")
        return call_t()

    body_t = block(benv, body, again)
    ptxt = " ".join(f"({n} : {coqty(env.vars[n])})" for n in params)
    fix = (
        f"Fixpoint {name} (fuel : nat) {ptxt} {{struct fuel}} : py (option ({sty})) :=\n"
        f"  match fuel with\n"
        f"  | O => (ret None) (* the iteration budget is exhausted *)\n"
        f"  | S fuel =>\n"
        f"    (if (Nat.ltb 0 (length {xs}))\n"
        f"     then\n{indent(body_t, 8)}\n"
        f"     else\n"
        f"        (ret (Some {tuple_term(state)})))\n"
        f"  end."
    )
    env.aux.append(fix)
    tmp, tmp2 = env.fresh(), env.fresh()
    for n in state:
        env.collect[0].append(n)
    after = block(env, rest, fall)
    for n, pr in reversed(list(zip(state, projections(len(state), tmp2)))):
        after = f"(let {n} := {pr} in\n{after})"
    return f"(bind {call_t()} (fun {tmp} =>\n(match {tmp} with\n | None => (ret None)\n | Some {tmp2} =>\n{indent(after)}\n end)))"


# ----------------------------------------------------------------------------- source checks
def find_class(tree, name, path):
    found = [n for n in tree.body if isinstance(n, ast.ClassDef) and n.name == name]
    if len(found) != 1:
        raise TranslateError(f"translator: {path}: expected exactly one class {name}")
    return found[0]


def find_member(path, cls, name, deco):
    """the definition of [name] in the class body with exactly the decorator [deco] (None: plain method or property getter)"""
    found = [n for n in cls.body if isinstance(n, ast.FunctionDef) and n.name == name]
    want = [[deco]] if deco else [[], ["property"]]
    hits = [n for n in found if [ast.unparse(d) for d in n.decorator_list] in want]
    allowed = [[], ["property"], [f"{name}.setter"]]
    if len(hits) != 1 or any([ast.unparse(d) for d in n.decorator_list] not in allowed for n in found) or len(found) > 2:
        raise TranslateError(f"translator: {path}: expected exactly one definition of {cls.name}.{name}" + (f" decorated {deco}" if deco else ""))
    for n in cls.body:
        for tg in n.targets if isinstance(n, ast.Assign) else [n.target] if isinstance(n, ast.AnnAssign) else []:
            if isinstance(tg, ast.Name) and tg.id == name:
                fail(path, n, f"{cls.name}.{name} is also a class attribute")
    return hits[0]


def member_text(node):
    node = ast.parse(ast.unparse(node)).body[0]
    node.body = strip_doc(node.body) or [ast.Pass()]
    return ast.unparse(node)


def check_fingerprints():
    trees = {}
    for rel in (BB_REL, INS_REL):
        trees[rel] = parse(os.path.join(T, rel))
    for rel, cname, mname, deco, text in FINGERPRINTS:
        path = os.path.join(T, rel)
        cls = find_class(trees[rel], cname, path)
        got = member_text(find_member(path, cls, mname, deco))
        if not same_text(ast.parse(got), text):
            raise TranslateError(f"translator: {path}: {cname}.{mname} changed (its entry in the glue table of Gen/CfgGen.v is no longer justified):\n{got}")
    # identity of objects, truth values, attribute reads: no special methods anywhere in the two class hierarchies
    for rel in (BB_REL, INS_REL):
        path = os.path.join(T, rel)
        for cls in ast.walk(trees[rel]):
            if isinstance(cls, ast.ClassDef):
                for n in cls.body:
                    if isinstance(n, ast.FunctionDef) and n.name in FORBIDDEN_DUNDERS:
                        fail(path, n, f"class {cls.name} defines {n.name}: ==, `in`, list.remove, truth values are no longer those of object identity")
                    for tg in n.targets if isinstance(n, ast.Assign) else [n.target] if isinstance(n, ast.AnnAssign) else []:
                        if isinstance(tg, ast.Name) and tg.id in FORBIDDEN_DUNDERS + ("next", "prev", "bb", "label", "labels"):
                            fail(path, n, f"class {cls.name} has the class attribute {tg.id}")
    bbcls = find_class(trees[BB_REL], "BasicBlock", os.path.join(T, BB_REL))
    if bbcls.bases or bbcls.keywords or bbcls.decorator_list:
        fail(os.path.join(T, BB_REL), bbcls, "class BasicBlock has bases / decorators")
    # the properties / mutators of Instruction are not overridden; .label / .labels exist exactly on the expected classes
    ipath = os.path.join(T, INS_REL)
    base = find_class(trees[INS_REL], "Instruction", ipath)
    if base.bases or base.keywords or base.decorator_list:
        fail(ipath, base, "class Instruction has bases / decorators")
    with_label = []
    for cls in trees[INS_REL].body:
        if not isinstance(cls, ast.ClassDef):
            continue
        bases = [ast.unparse(b) for b in cls.bases]
        if "InstructionWithLabel" in bases:
            with_label.append(cls.name)
            if bases != ["InstructionWithLabel"]:
                fail(ipath, cls, f"bases of {cls.name}: {bases}")
        for n in cls.body:
            if not isinstance(n, ast.FunctionDef):
                continue
            if n.name in ("next", "prev", "bb", "add_next", "add_prev") and cls.name != "Instruction":
                fail(ipath, n, f"class {cls.name} overrides Instruction.{n.name}")
            if n.name == "label" and cls.name != "InstructionWithLabel":
                fail(ipath, n, f"class {cls.name} defines .label")
            if n.name == "labels" and cls.name not in ("Switch", "Match"):
                fail(ipath, n, f"class {cls.name} defines .labels")
    if sorted(with_label) != sorted(LABEL_CLASSES):
        raise TranslateError(f"translator: {ipath}: the subclasses of InstructionWithLabel are {with_label}, expected {LABEL_CLASSES}")
    for c in ("Switch", "Match"):
        if [ast.unparse(b) for b in find_class(trees[INS_REL], c, ipath).bases] != ["Instruction"]:
            raise TranslateError(f"translator: {ipath}: bases of {c}")
    check_no_subclasses(ipath, list(CLASS_PATTERNS))


def bound_names(tree):
    """top-level bindings of a module: imported name -> module.name, local definitions -> <local>"""
    got = {}
    for node in ast.walk(tree):
        if isinstance(node, ast.ImportFrom):
            for al in node.names:
                got[al.asname or al.name] = (node.module or "") + "." + al.name
        elif isinstance(node, ast.Import):
            for al in node.names:
                got[(al.asname or al.name).split(".")[0]] = "<module>"
    for node in tree.body:
        if isinstance(node, (ast.FunctionDef, ast.ClassDef)):
            got[node.name] = "<local>"
        elif isinstance(node, (ast.Assign, ast.AnnAssign)):
            for tg in node.targets if isinstance(node, ast.Assign) else [node.target]:
                for n in ast.walk(tg):
                    if isinstance(n, ast.Name):
                        got[n.id] = "<local>"
    return got


def count_bindings(tree, name):
    """number of places of a module (at module level or via global) that bind `name`"""
    n = 0
    for node in tree.body:
        if isinstance(node, (ast.FunctionDef, ast.AsyncFunctionDef, ast.ClassDef)):
            n += node.name == name
        elif isinstance(node, (ast.Import, ast.ImportFrom)):
            n += sum(1 for al in node.names if (al.asname or al.name).split(".")[0] == name or al.name == "*")
        else:
            n += sum(1 for x in ast.walk(node) if isinstance(x, ast.Name) and x.id == name and isinstance(x.ctx, (ast.Store, ast.Del)))
            n += sum(1 for x in ast.walk(node) if isinstance(x, (ast.FunctionDef, ast.ClassDef)) and x.name == name)
            n += sum(1 for x in ast.walk(node) if isinstance(x, (ast.Import, ast.ImportFrom)) for al in x.names if (al.asname or al.name).split(".")[0] == name)
    for node in ast.walk(tree):
        if isinstance(node, (ast.Global, ast.Nonlocal)) and name in node.names:
            n += 1
    return n


def find_toplevel(tree, name, path):
    found = [n for n in tree.body if isinstance(n, ast.FunctionDef) and n.name == name]
    if len(found) != 1:
        raise TranslateError(f"translator: {path}: expected exactly one top-level function {name}")
    return found[0]


def signature(path, fn, expected, returns):
    a = fn.args
    if a.vararg or a.kwarg or a.kwonlyargs or a.posonlyargs or a.defaults or fn.decorator_list:
        fail(path, fn, "signature of " + fn.name)
    got = [(x.arg, ast.unparse(x.annotation) if x.annotation else None) for x in a.args]
    if got != expected:
        fail(path, fn, f"signature of {fn.name}: {got}")
    r = ast.unparse(fn.returns) if fn.returns else None
    if r != returns:
        fail(path, fn, f"return annotation of {fn.name}: {r}")
    for node in ast.walk(fn):
        if isinstance(node, ast.Name) and isinstance(node.ctx, (ast.Store, ast.Del)) and node.id in ("isinstance", "len", "list", "BasicBlock"):
            fail(path, node, f"{node.id} is re-bound")


def is_text(node, key):
    return same_text(node, SLICE_TEXT[key][0])


def expect(path, node, key):
    if not is_text(node, key):
        fail(path, node, f"first_pass/second_pass: expected the statement `{SLICE_TEXT[key][0].splitlines()[0]} ..` ({SLICE_TEXT[key][1]}), found: " + ast.unparse(node)[:80])


def slice_first_pass(path, fn):
    """-> the statements of first_pass that are translated, the loop rewritten as a loop over the parsed instructions"""
    body = strip_doc(fn.body)
    if len(body) != 7 or not isinstance(body[5], ast.For):
        fail(path, fn, "first_pass no longer has the expected shape (5 initialisations, the loop over the lines, the return)")
    expect(path, body[0], "idx_init")
    if not same_text(body[1], "prev: Optional[Instruction] = None"):
        fail(path, body[1], "expected `prev: Optional[Instruction] = None`")
    expect(path, body[2], "intc_init")
    expect(path, body[3], "bytec_init")
    expect(path, body[4], "comments_init")
    expect(path, body[6], "return")
    loop = body[5]
    if not (is_name(loop.target, "line") and is_name(loop.iter, "lines") and not loop.orelse):
        fail(path, loop, "expected `for line in lines:`")
    lb = strip_doc(loop.body)
    if len(lb) < 6:
        fail(path, loop, "body of the loop of first_pass")
    for node, key in zip(lb, ["parse", "idx_incr", "skip", "constblocks", "line", "comments"]):
        expect(path, node, key)
    new = ast.For(target=ast.Name(id="ins", ctx=ast.Store()), iter=ast.Name(id="parsed_instructions", ctx=ast.Load()), body=lb[6:], orelse=[])
    ast.copy_location(new, loop)
    ast.fix_missing_locations(new)
    return [body[1], new]


def find_prune_loop(path, fn):
    hits = []
    for st in strip_doc(fn.body):
        if isinstance(st, ast.For) and is_name(st.target, "bi") and is_name(st.iter, "all_bbs"):
            b = strip_doc(st.body)
            if len(b) == 1 and isinstance(b[0], ast.If) and same_text(b[0].test, "bi not in all_reachable_blocks") and not b[0].orelse:
                hits.append(st)
    if len(hits) != 1:
        fail(path, fn, f"parse_teal: expected exactly one loop `for bi in all_bbs: if bi not in all_reachable_blocks: ..`, found {len(hits)}")
    return hits[0]


# statements of parse_teal that fix what the parameters of the translated pieces are (each exactly once, at top level)
PARSE_TEAL_STATEMENTS = [
    "instructions: List[Instruction] = []",
    "labels: Dict[str, Label] = {}",
    "subroutine_callsubs: Dict[str, List[Callsub]] = defaultdict(list)",
    "(intcblock_ins, bytecblock_ins) = first_pass(lines, labels, subroutine_callsubs, instructions)",
    "second_pass(instructions, labels)",
    "all_bbs: List[BasicBlock] = []",
    "create_bb(instructions, all_bbs)",
    "fourth_pass(all_bbs)",
    "all_bbs = _add_basic_blocks_idx(all_bbs)",
    "all_reachable_blocks: List['BasicBlock'] = []",
]
ADD_IDX_TEXT = (
    "def _add_basic_blocks_idx(bbs: List[BasicBlock]) -> List[BasicBlock]:\n    bbs = sorted(bbs, key=lambda x: x.entry_instr.line)\n"
    "    for (i, bb) in enumerate(bbs):\n        bb.idx = i\n    return bbs"
)

# python name -> spec of the translated function
SPECS = {
    "first_pass": dict(
        gen="first_pass_gen",
        sig=[("lines", "List[str]"), ("labels", "Dict[str, Label]"), ("subroutines", "Dict[str, List[Callsub]]"), ("instructions", "List[Instruction]")],
        rann="Tuple[List[Intcblock], List[Bytecblock]]",
        params=[("labels", LABELS), ("subroutines", SUBS), ("instructions", LINS)], heaps=["iheap"], p=True,
        returns=["labels", "subroutines", "instructions", "iheap"],
        note="the instruction-edge part; returns the final labels, subroutines, instructions and instruction heap",
    ),
    "second_pass": dict(
        gen="second_pass_gen", sig=[("instructions", "List[Instruction]"), ("labels", "Dict[str, Label]")], rann="None",
        params=[("instructions", LINS), ("labels", LABELS)], heaps=["iheap"], p=True, returns=["iheap"],
        note="returns the final instruction heap",
    ),
    "create_bb": dict(
        gen="create_bb_gen", sig=[("instructions", "List[Instruction]"), ("all_bbs", "List[BasicBlock]")], rann="None",
        params=[("instructions", LINS), ("all_bbs", LBLK)], heaps=["bheap", "iheap"], p=True, returns=["all_bbs", "bheap", "iheap"],
        note="returns the final all_bbs and the two heaps",
    ),
    "fourth_pass": dict(
        gen="fourth_pass_gen", sig=[("basic_blocks", "List[BasicBlock]")], rann="None",
        params=[("basic_blocks", LBLK)], heaps=["bheap", "iheap"], p=False, returns=["bheap"],
        note="returns the final block heap",
    ),
    "identify_subroutine_blocks": dict(
        gen="identify_subroutine_blocks_gen", loop="identify_subroutine_blocks_loop_gen", sig=[("entry_block", "'BasicBlock'")], rann="List['BasicBlock']",
        params=[("entry_block", BLK)], heaps=["bheap"], p=False, ret_type=LBLK,
        note="Some None: the iteration budget of the while loop is exhausted",
    ),
    "parse_teal": dict(
        gen="prune_unreachable_gen", sig=[("source_code", "str"), ("contract_name", "str")], rann="Teal",
        params=[("all_bbs", LBLK), ("all_reachable_blocks", LBLK), ("instructions", LINS)], heaps=["bheap", "iheap"], p=False,
        returns=["instructions", "bheap", "iheap"],
        note="the loop `for bi in all_bbs: if bi not in all_reachable_blocks: ..`; returns the final instructions and the two heaps",
    ),
}
ORDER = ["first_pass", "second_pass", "create_bb", "fourth_pass", "identify_subroutine_blocks", "parse_teal"]


def result_type(spec):
    if "ret_type" in spec:
        r = COQ_TYPE[spec["ret_type"]]
    else:
        tys = dict(spec["params"])
        tys.update({h: HEAP_TYPE[h] for h in spec["heaps"]})
        r = " * ".join(coqty(tys[n]) for n in spec["returns"])
    return f"py (option ({r}))" if spec.get("loop") else f"py ({r})"


def emit_function(w, path, tree, imports, name):
    spec = dict(SPECS[name])
    spec["imports"] = imports
    fn = find_toplevel(tree, name, path)
    if name == "parse_teal":
        a = fn.args
        got = [(x.arg, ast.unparse(x.annotation) if x.annotation else None) for x in a.args]
        if got != spec["sig"] or [ast.unparse(d) for d in a.defaults] != ["''"]:
            fail(path, fn, f"signature of parse_teal: {got}")
        body = strip_doc(fn.body)
        texts = [ast.unparse(s) for s in body]
        for want in PARSE_TEAL_STATEMENTS:
            if sum(1 for s in body if same_text(s, want)) != 1 or sum(1 for s in ast.walk(fn) if isinstance(s, ast.stmt) and same_text(s, want)) != 1:
                fail(path, fn, f"parse_teal no longer contains exactly once, at top level: {want}")
        for node in ast.walk(fn):
            # the variables of the translated loop are bound by the statements above only
            if isinstance(node, ast.Name) and isinstance(node.ctx, ast.Store) and node.id in ("instructions", "all_bbs"):
                par = [s for s in body if node in ast.walk(s)]
                if not par or not any(same_text(par[0], t) for t in PARSE_TEAL_STATEMENTS):
                    fail(path, node, f"{node.id} is re-bound in parse_teal")
        del texts
        stmts = [find_prune_loop(path, fn)]
    else:
        signature(path, fn, spec["sig"], spec["rann"])
        stmts = strip_doc(fn.body)
        if name == "first_pass":
            stmts = slice_first_pass(path, fn)
        if name == "second_pass":
            if not stmts:
                fail(path, fn, "second_pass is empty")
            expect(path, stmts[0], "debug")
            stmts = stmts[1:]
    vars_ = dict(spec["params"])
    for h in spec["heaps"]:
        vars_[h] = HEAP_TYPE[h]
    header_vars = list(vars_.items())
    if name == "first_pass":
        vars_["parsed_instructions"] = LINS
    env = Env(path, vars_, spec)
    for n, _ in spec["params"]:
        check_name(env, n, fn)
    body = block(env, stmts, None)
    if spec.get("loop") and len(env.aux) != 1:
        fail(path, fn, f"{name} no longer contains the while loop")
    if name == "first_pass":
        body = f"(let parsed_instructions := (seq 0 (length p)) in\n{body})"
    for a in env.aux:
        w(f"(* {PT_REL}: {name} (line {fn.lineno}), the `while` loop *)")
        w(a)
        w("")
    ptxt = ("(fuel : nat) " if spec.get("loop") else "") + ("(p : prog) " if spec["p"] else "") + " ".join(f"({n} : {coqty(ty)})" for n, ty in header_vars)
    w(f"(* {PT_REL}: {name} (line {fn.lineno}); {spec['note']} *)")
    w(f"Definition {spec['gen']} {ptxt} : {result_type(spec)} :=\n{indent(body, 2)}.")
    w("")


# ----------------------------------------------------------------------------- emission
def emit_cfg(outdir):
    path = os.path.join(T, PT_REL)
    tree = parse(path)
    imports = bound_names(tree)
    check_fingerprints()
    for name in ORDER + ["_add_instruction_comments", "_add_basic_blocks_idx", "BasicBlock"] + list(CLASS_PATTERNS):
        if count_bindings(tree, name) != 1:
            raise TranslateError(f"translator: {path}: {name} must be bound exactly once at module level; found {count_bindings(tree, name)} bindings")
    for name in ("isinstance", "len", "list"):
        if count_bindings(tree, name) != 0 or name in imports:
            raise TranslateError(f"translator: {path}: the builtin {name} is re-bound")
    for name in ORDER + ["_add_instruction_comments", "_add_basic_blocks_idx"]:
        if imports.get(name) != "<local>":
            raise TranslateError(f"translator: {path}: {name} is bound to {imports.get(name)}")
    if not same_text(ast.parse(member_text(find_toplevel(tree, "_add_instruction_comments", path))), ADD_COMMENTS_TEXT):
        raise TranslateError(f"translator: {path}: _add_instruction_comments changed (it is skipped by the translation of first_pass)")
    if not same_text(ast.parse(member_text(find_toplevel(tree, "_add_basic_blocks_idx", path))), ADD_IDX_TEXT):
        raise TranslateError(f"translator: {path}: _add_basic_blocks_idx changed (all_bbs is read as the list in creation order)")
    lg = [n for n in tree.body if isinstance(n, ast.Assign) and any(is_name(t, "logger_parsing") for t in n.targets)]
    if len(lg) != 1 or ast.unparse(lg[0]) != "logger_parsing = logging.getLogger('Parsing')" or count_bindings(tree, "logger_parsing") != 1:
        raise TranslateError(f"translator: {path}: logger_parsing is not logging.getLogger('Parsing')")

    L = []
    w = L.append
    w("(* GENERATED by tools/translate.py (translate_cfg) from /repo/tealer -- do not edit *)")
    w("(* teal/parse_teal.py: first_pass (instruction edges), second_pass, create_bb, fourth_pass, identify_subroutine_blocks")
    w("   and the pruning loop of parse_teal, statement by statement.  See tools/translate_cfg.py for the reading. *)")
    w("From Coq Require Import String List NArith ZArith Bool Arith.")
    w("From Tealer Require Import Tables Syntax Parse Cfg KeysGen.")
    w("Import ListNotations.")
    w("Open Scope string_scope.")
    w("Open Scope list_scope.")
    w(PRELUDE.rstrip("\n"))
    w("")
    w("(* ====================================================================== *)")
    w("(* TRANSLATED functions                                                     *)")
    w("(* ====================================================================== *)")
    for name in ORDER:
        emit_function(w, path, tree, imports, name)
    os.makedirs(outdir, exist_ok=True)
    with open(os.path.join(outdir, "CfgGen.v"), "w") as fh:
        fh.write("\n".join(L) + "\n")
    return len(ORDER)


def main():
    outdir = sys.argv[1] if len(sys.argv) > 1 else os.path.join(os.path.dirname(os.path.abspath(__file__)), "..", "coq", "Gen")
    try:
        n = emit_cfg(outdir)
    except TranslateError as e:
        print(str(e))
        sys.exit(2)
    print(f"translate_cfg: {n} CFG-construction functions -> {outdir}/CfgGen.v")


if __name__ == "__main__":
    main()
