#!/venv/bin/python
"""Statement-by-statement translation of the detectors' path search into Gallina (Gen/SearchGen.v).

Translated (read with `ast` only, never imported), all from detectors/utils.py:
  validated_in_block                                             -> validated_in_block_gen
  detect_missing_tx_field_validations.<locals>.search_paths      -> search_paths_gen
  detect_missing_tx_field_validations (the statements after the nested def)
                                                                 -> detect_missing_tx_field_validations_gen
The hand-written counterpart is Model/Detect.v: validated_in_block, Section Search: search / detect_paths;
Lemmas/SearchGenLemmas.v relates the generated functions to it.

Reading of Python in Gallina.  The exception monad (`py A := option A`, ret, bind, ifE, notE) is the one of the fixed
prelude of Gen/KeysGen.v, imported, not repeated.  In addition:
  * values: a BasicBlock is its id (`nat`; every attribute read looks the block up with `fblock f`, a dangling id is an
    exception), Optional[BasicBlock] is `option nat` (a block used where an Optional is expected is wrapped in `Some`),
    a Subroutine is its name (`string`, function.main is ""), a call-stack frame Tuple[Optional[BasicBlock], Subroutine]
    is `option nat * string`, List[..] is `list ..`, a python int is `Z`.
  * recursion: `Fixpoint search_paths_gen (fuel : nat) .. {struct fuel}`; the translated body sits under `S fuel`,
    every recursive call passes the decremented `fuel`; `O => None` (budget exhausted).
  * mutable state: search_paths returns None and mutates the list object `paths_without_check`.  It is the only object
    that is mutated (only `.append` on that name is accepted; the other parameters are only re-bound to fresh lists
    built with `+`, `[:-1]`), so it is threaded as state: the translated function RETURNS the final
    `paths_without_check`; `paths_without_check.append(e)` is `paths_without_check := paths_without_check ++ [e]`,
    a recursive call statement `search_paths(a, b, paths_without_check, d, e)` (third argument: that very name) is
    `paths_without_check <- search_paths_gen fuel a b paths_without_check d e`, a bare `return` and the end of the body
    are `ret paths_without_check`.
  * list expressions: `xs + ys` = `xs ++ ys`, `xs[:-1]` = `list_but_last xs` (no exception on []), `xs[-1]` =
    `list_last xs` (IndexError on []), `x in xs` = `in_blocks` / `in_subs` (BasicBlock and Subroutine define no __eq__:
    identity, i.e. equality of ids / names), `[e for v in xs]` = `map (fun v => e) xs`, `t[0]` / `t[1]` of a pair =
    fst / snd, `reversed(xs)` (only as the iterable of a for) = `rev xs`.
  * `return` in the middle of the function: an `if` whose branches may fall through and that is followed by more
    statements is translated with a JOIN POINT when the continuation is needed more than once:
        let kN := fun (<the variables assigned in the if>) => <what follows> in if c then .. (kN ..) else (kN ..)
    a branch that returns does not call kN.
  * `for x in e: body` is a fold over the list `e` (evaluated once, before the loop) whose state is the tuple of the
    variables (re)assigned in the body and bound before the loop; a `return v` inside the body (validated_in_block) adds
    a first component `option R` to the state: once it is `Some v` the remaining iterations do nothing and the loop is
    followed by `return v`.
  * `assert x is not None` and `if x is not None:` narrow `x : option A` to `x : A` (assert_is_not_none / a match).
  * `logger_detectors.debug(f"..{e}..")`: no effect besides the evaluation of the formatted expressions; the ones
    that can raise (`xs[-1]`) are evaluated (bound to `_`), str()/repr() of blocks and lists are taken to be total.
  * the object graph is read through the FIXED glue table of the prelude (Section SearchGen with the model function
    `f : func` and the parameters `validated`, `report`; Section ValidatedGen with `r : fn_result`, `checks`).
    Which attribute is consulted when, the order of the cuts and what is pushed/popped on the two stacks comes from
    the Python text.

Fail-closed: every statement kind, expression kind, attribute name, call name and variable type that is not
whitelisted below raises TranslateError; the helper functions / properties the glue table stands for are
fingerprinted (their source text must be the expected one).
"""
import ast
import os
import sys

from tcommon import TranslateError, fail, parse, strip_doc, T
from translate_keys import indent

UTILS_REL = "detectors/utils.py"
AN_REL = "utils/analyses.py"
BB_REL = "teal/basic_blocks.py"
INS_REL = "teal/instructions/instructions.py"
FN_REL = "teal/functions.py"
SUB_REL = "teal/subroutine.py"
CTX_REL = "teal/context/block_transaction_context.py"

# ----------------------------------------------------------------------------- types
NAT = ("nat",)  # BasicBlock
STR = ("string",)  # Subroutine
BOOL = ("bool",)
INT = ("Z",)
CTX = ("bctx",)


def tlist(t):
    return ("list", t)


def topt(t):
    return ("option", t)


def tprod(a, b):
    return ("prod", a, b)


PATH = tlist(NAT)
PATHS = tlist(PATH)
FRAME = tprod(topt(NAT), STR)
STACK = tlist(FRAME)
EXECUTED = tlist(PATH)


def coqty(t, top=True):
    if t[0] in ("nat", "string", "bool", "Z", "bctx"):
        return t[0]
    if t[0] in ("list", "option"):
        if t[1] is None:
            raise TranslateError("translator: a list/None literal whose type is not determined")
        s = f"{t[0]} {coqty(t[1], False)}"
        return s if top else f"({s})"
    if t[0] == "prod":
        return f"({coqty(t[1], False)} * {coqty(t[2], False)})"
    raise TranslateError(f"translator: type {t}")


def unify(a, b):
    """most specific common type of two types (None components are undetermined), or None"""
    if a is None:
        return b
    if b is None:
        return a
    if a == b:
        return a
    if a[0] != b[0] or len(a) != len(b):
        return None
    parts = [unify(x, y) for x, y in zip(a[1:], b[1:])]
    if any(p is None and not (x is None and y is None) for p, x, y in zip(parts, a[1:], b[1:])):
        return None
    return (a[0],) + tuple(parts)


def determined(t):
    return t is not None and all(determined(x) for x in t[1:])


RESERVED = {
    "fuel", "acc", "st", "f", "r", "checks", "validated", "report", "ret", "bind", "py", "ifE", "notE", "andE", "orE",
    "list_last", "list_but_last", "in_blocks", "in_subs", "assert_is_not_none", "attr_is_callsub_block",
    "attr_is_retsub_block", "attr_called_subroutine", "attr_sub_return_point", "call_leaf_block_global",
    "call_next_blocks_global", "call_validated_in_block", "call_satisfies_report_condition", "function_main",
    "function_entry", "transaction_context", "gtxn_context", "attr_group_indices", "search_paths_gen",
    "validated_in_block_gen", "detect_missing_tx_field_validations_gen", "fold_left", "map", "rev", "fst", "snd", "negb",
    "true", "false", "nil", "cons", "app", "Some", "None", "O", "S", "nat", "string", "bool", "list", "option", "Z", "bctx",
    "in", "at", "as", "fun", "let", "match", "end", "if", "then", "else", "return", "with", "forall", "exists", "fix", "cofix", "for",
    "where", "using", "Type", "Prop", "Set", "SProp", "struct", "left", "right", "inl", "inr", "pair", "tt", "eq_refl",
    "function", "checks_field", "satisfies_report_condition", "search_paths", "validated_in_block", "logger_detectors",
    "leaf_block_global", "next_blocks_global", "reversed", "repr", "str", "_",
}  # fmt: skip

# ----------------------------------------------------------------------------- fixed prelude (glue table)
PRELUDE = r"""
(* ====================================================================== *)
(* PRELUDE (fixed text); the exception monad is that of Gen/KeysGen.v      *)
(* ====================================================================== *)
(* ---- list expressions *)
(* xs[-1] : IndexError on the empty list *)
Fixpoint list_last {A : Type} (xs : list A) : py A :=
  match xs with [] => None | [x] => Some x | _ :: t => list_last t end.
(* xs[:-1] : the empty list for the empty list *)
Definition list_but_last {A : Type} (xs : list A) : list A := removelast xs.
(* `x in xs` for BasicBlock / Subroutine objects: neither class defines __eq__ (fingerprinted), so `in` is identity,
   i.e. equality of block ids / subroutine names *)
Definition in_blocks (x : nat) (xs : list nat) : bool := existsb (Nat.eqb x) xs.
Definition in_subs (x : string) (xs : list string) : bool := existsb (String.eqb x) xs.
(* assert x is not None *)
Definition assert_is_not_none {A : Type} (x : option A) : py A := x.

(* ---- GLUE TABLE 1: the object graph as search_paths reads it.
   BasicBlock = block id (nat), Optional[BasicBlock] = option nat, Subroutine = its name (string),
   function.main = "" (the model's name of the function's main routine), frame = option nat * string.
     bb.is_callsub_block            isinstance(self.exit_instr, Callsub)           f_is_callsub f b
     bb.is_retsub_block             isinstance(self.exit_instr, Retsub)            f_is_retsub f b
     bb.called_subroutine           TealerException unless a callsub block; Callsub.called_subroutine raises when
                                    unset                                          the label l of fexit_op, defined
                                                                                   iff f_find_sub f l is
     bb.sub_return_point            TealerException unless a callsub block;
                                    self.next[0] if self.next else None            sub_return_point b
     leaf_block_global(bb)          utils/analyses.py (fingerprinted)              leaf_global f b
     next_blocks_global(function, bb)   utils/analyses.py (fingerprinted)          next_global f b
     validated_in_block(bb, function, checks_field)                                validated bb   (Section parameter;
                                    the function itself is translated below: validated_in_block_gen)
     satisfies_report_condition(p)                                                 report p       (Section parameter)
     function.entry / function.main                                                fn_entry f / ""
   where b is the block with id bb (fblock f bb); a dangling id is an exception. *)
Section SearchGen.
  Variable f : func.
  Variable validated : nat -> bool.
  Variable report : list nat -> bool.

  Definition attr_is_callsub_block (bb : nat) : py bool :=
    bind (fblock f bb) (fun b => ret (f_is_callsub f b)).
  Definition attr_is_retsub_block (bb : nat) : py bool :=
    bind (fblock f bb) (fun b => ret (f_is_retsub f b)).
  Definition attr_called_subroutine (bb : nat) : py string :=
    bind (fblock f bb) (fun b =>
      match fexit_op f b with
      | Some (ICallsub l) => bind (f_find_sub f l) (fun _ => ret l)
      | _ => None
      end).
  Definition attr_sub_return_point (bb : nat) : py (option nat) :=
    bind (fblock f bb) (fun b => if f_is_callsub f b then ret (sub_return_point b) else None).
  Definition call_leaf_block_global (bb : nat) : py bool :=
    bind (fblock f bb) (fun b => ret (leaf_global f b)).
  Definition call_next_blocks_global (bb : nat) : py (list nat) :=
    bind (fblock f bb) (fun b => next_global f b).
  Definition call_validated_in_block (bb : nat) : py bool := ret (validated bb).
  Definition call_satisfies_report_condition (p : list nat) : py bool := ret (report p).
  Definition function_entry : nat := fn_entry f.
  Definition function_main : string := "".
"""

PRELUDE_VALIDATED = r"""
(* ---- GLUE TABLE 2: the contexts as validated_in_block reads them (Model/Detect.v: ctx_of).
     function.transaction_context(block)                      ctx_of r block KSelf
     function.transaction_context(block).gtxn_context(i)      ctx_of r block (KAtIndex i) for 0 <= i < MAX_GROUP_SIZE;
                                                              TealerException for i >= MAX_GROUP_SIZE; a negative i
                                                              indexes the python list from its end (IndexError below
                                                              -MAX_GROUP_SIZE)          (fingerprinted)
     ctx.group_indices                                        ctx_group_indices ctx
     checks_field(ctx)                                        checks ctx   (Section parameter) *)
Section ValidatedGen.
  Variable r : fn_result.
  Variable checks : bctx -> bool.

  Definition transaction_context (block : nat) : bctx := ctx_of r block KSelf.
  Definition gtxn_context (block : nat) (i : Z) : py bctx :=
    let m := Z.of_N MAX_GROUP_SIZE in
    if (m <=? i)%Z then None
    else if (0 <=? i)%Z then Some (ctx_of r block (KAtIndex (Z.to_N i)))
    else if (- m <=? i)%Z then Some (ctx_of r block (KAtIndex (Z.to_N (m + i))))
    else None.
  Definition attr_group_indices (c : bctx) : list Z := ctx_group_indices c.
"""

# ----------------------------------------------------------------------------- fingerprints
# source text (ast.unparse, docstrings removed) of the helpers the glue table stands for
FINGERPRINTS = [
    (AN_REL, None, "leaf_block_global", "def leaf_block_global(block: 'BasicBlock') -> bool:\n    return len(block.next) == 0 and (not block.is_retsub_block) and (not block.is_callsub_block)"),
    (
        AN_REL, None, "next_blocks_global",
        "def next_blocks_global(function: 'Function', block: 'BasicBlock') -> List['BasicBlock']:\n    if block.is_retsub_block:\n        return function.return_point_blocks(block.subroutine)\n"
        "    if block.is_callsub_block:\n        return [block.called_subroutine.entry]\n    return block.next",
    ),
    (BB_REL, "BasicBlock", "next", "@property\ndef next(self) -> List['BasicBlock']:\n    return self._next"),
    (BB_REL, "BasicBlock", "is_callsub_block", "@property\ndef is_callsub_block(self) -> bool:\n    return isinstance(self.exit_instr, Callsub)"),
    (BB_REL, "BasicBlock", "is_retsub_block", "@property\ndef is_retsub_block(self) -> bool:\n    return isinstance(self.exit_instr, Retsub)"),
    (
        BB_REL, "BasicBlock", "called_subroutine",
        "@property\ndef called_subroutine(self) -> 'Subroutine':\n    if not isinstance(self.exit_instr, Callsub):\n        raise TealerException('called subroutine of a non callsub block is accessed')\n"
        "    return self.exit_instr.called_subroutine",
    ),
    (
        BB_REL, "BasicBlock", "sub_return_point",
        "@property\ndef sub_return_point(self) -> Optional['BasicBlock']:\n    if not self.is_callsub_block:\n        raise TealerException('sub_return_point block of a non callsub block is accessed')\n"
        "    return self.next[0] if self.next else None",
    ),
    (
        INS_REL, "Callsub", "called_subroutine",
        "@property\ndef called_subroutine(self) -> 'Subroutine':\n    if self._called_subroutine is None:\n"
        "        raise TealerException(f'callsub.called_subroutine is accessed before assignment: {str(self)}')\n    return self._called_subroutine",
    ),
    (FN_REL, "Function", "transaction_context", "def transaction_context(self, block: 'BasicBlock') -> 'BlockTransactionContext':\n    return self._transaction_contexts[block]"),
    (
        CTX_REL, "BlockTransactionContext", "gtxn_context",
        "def gtxn_context(self, txn_index: int) -> 'BlockTransactionContext':\n    if self._gtxn_at_index_context is None:\n        raise TealerException()\n"
        "    if txn_index >= MAX_GROUP_SIZE:\n        raise TealerException()\n    return self._gtxn_at_index_context[txn_index]",
    ),
]
# classes whose instances are compared with `in` (identity): they must not define comparison methods
IDENTITY_CLASSES = [(BB_REL, "BasicBlock"), (SUB_REL, "Subroutine")]
# plain attributes assigned in Function.__init__
FUNCTION_ATTRS = ['self.entry: "BasicBlock" = entry', 'self.main: "Subroutine" = main']

EXPECTED_BINDINGS = {
    "next_blocks_global": "tealer.utils.analyses.next_blocks_global",
    "leaf_block_global": "tealer.utils.analyses.leaf_block_global",
    "validated_in_block": "<local>",
    "detect_missing_tx_field_validations": "<local>",
    "logger_detectors": "<local>",
    "logging": "<module>",
}


def bound_names(tree):
    """top-level bindings of a module: imported name -> module.name, local definitions -> <local>"""
    got = {}
    for node in ast.walk(tree):
        # imports under `if TYPE_CHECKING:` bind names as well
        if isinstance(node, ast.ImportFrom):
            for al in node.names:
                got[al.asname or al.name] = (node.module or "") + "." + al.name
        elif isinstance(node, ast.Import):
            for al in node.names:
                got[(al.asname or al.name).split(".")[0]] = "<module>"
    for node in tree.body:
        if isinstance(node, (ast.FunctionDef, ast.ClassDef)):
            got[node.name] = "<local>"
        elif isinstance(node, (ast.Assign, ast.AnnAssign)):
            for tg in node.targets if isinstance(node, ast.Assign) else [node.target]:
                for n in ast.walk(tg):
                    if isinstance(n, ast.Name):
                        got[n.id] = "<local>"
    return got


def count_bindings(tree, name):
    """number of places of a module (at any depth) that bind `name`"""
    n = 0
    for node in ast.walk(tree):
        if isinstance(node, (ast.FunctionDef, ast.AsyncFunctionDef, ast.ClassDef)) and node.name == name:
            n += 1
        elif isinstance(node, ast.Name) and node.id == name and isinstance(node.ctx, (ast.Store, ast.Del)):
            n += 1
        elif isinstance(node, ast.arg) and node.arg == name:
            n += 1
        elif isinstance(node, (ast.Import, ast.ImportFrom)):
            n += sum(1 for al in node.names if (al.asname or al.name).split(".")[0] == name or al.name == "*")
        elif isinstance(node, (ast.Global, ast.Nonlocal)) and name in node.names:
            n += 1
        elif isinstance(node, ast.ExceptHandler) and node.name == name:
            n += 1
    return n


def unparse_nodoc(fn):
    """source text of a function without its docstring (comments are not part of the ast)"""
    import copy

    g = copy.deepcopy(fn)
    g.body = strip_doc(g.body) or [ast.Pass()]
    return ast.unparse(g)


def find_def(path, tree, cls, name):
    body = tree.body
    if cls is not None:
        cs = [n for n in tree.body if isinstance(n, ast.ClassDef) and n.name == cls]
        if len(cs) != 1:
            raise TranslateError(f"translator: {path}: expected exactly one class {cls}")
        body = cs[0].body
    # a property with a setter is defined twice: the getter is the one decorated with `property`
    fs = [n for n in body if isinstance(n, ast.FunctionDef) and n.name == name and not any(ast.unparse(d).endswith(".setter") for d in n.decorator_list)]
    if len(fs) != 1:
        raise TranslateError(f"translator: {path}: expected exactly one definition of {(cls + '.') if cls else ''}{name}")
    return fs[0]


def check_fingerprints():
    trees = {}
    for rel, cls, name, text in FINGERPRINTS:
        path = os.path.join(T, rel)
        if rel not in trees:
            trees[rel] = parse(path)
        fn = find_def(path, trees[rel], cls, name)
        got = unparse_nodoc(fn)
        if got != text:
            fail(path, fn, f"{(cls + '.') if cls else ''}{name} is no longer the function the glue table stands for:\n{got}")
    for rel, cls in IDENTITY_CLASSES:
        path = os.path.join(T, rel)
        tree = trees.get(rel) or parse(path)
        cs = [n for n in tree.body if isinstance(n, ast.ClassDef) and n.name == cls]
        if len(cs) != 1:
            raise TranslateError(f"translator: {path}: expected exactly one class {cls}")
        if cs[0].bases or cs[0].decorator_list or cs[0].keywords:
            fail(path, cs[0], f"class {cls} has bases/decorators: `in` may no longer be identity")
        for n in ast.walk(cs[0]):
            if isinstance(n, ast.FunctionDef) and n.name in ("__eq__", "__ne__", "__hash__", "__contains__"):
                fail(path, n, f"class {cls} defines {n.name}: `in` is no longer identity")
    path = os.path.join(T, FN_REL)
    init = find_def(path, trees[FN_REL], "Function", "__init__")
    with open(path, encoding="utf-8") as fh:
        lines = fh.read().split("\n")
    text = [l.strip() for l in lines[init.lineno - 1 : init.end_lineno]]
    for a in FUNCTION_ATTRS:
        if text.count(a) != 1:
            fail(path, init, f"Function.__init__ no longer contains `{a}`")
    for n in trees[FN_REL].body:
        if isinstance(n, ast.ClassDef) and n.name == "Function":
            for m in n.body:
                if isinstance(m, ast.FunctionDef) and m.name in ("entry", "main", "__getattr__", "__getattribute__"):
                    fail(path, m, f"Function.{m.name} is defined as a method/property")


# ----------------------------------------------------------------------------- environment
class Env:
    def __init__(self, path, vars_, kind, imports):
        self.path = path
        self.imports = imports
        self.vars = dict(vars_)  # python name -> type (the Coq name is the Python name)
        self.kind = kind  # "search" | "outer" | "validated"
        self.counter = [0, 0]  # temporaries, join points
        self.loop = None  # None | dict(state=[names], early=bool)
        self.on_return = None  # None (top level) | function term -> term (inside a loop with early return)

    def child(self, **new):
        e = Env(self.path, self.vars, self.kind, self.imports)
        e.counter = self.counter
        e.loop = self.loop
        e.on_return = self.on_return
        e.vars.update(new)
        return e

    def fresh(self):
        self.counter[0] += 1
        return f"tmp{self.counter[0]}"

    def fresh_join(self):
        self.counter[1] += 1
        return f"k{self.counter[1]}"


STATE = "paths_without_check"
RET_TYPE = {"search": PATHS, "outer": PATHS, "validated": BOOL}


def seq(env, parts, build, monadic_result=False):
    """parts: [(term, pure)]; impure parts are bound left to right to fresh names. -> (term, pure)"""
    binds, atoms = [], []
    for t, pure in parts:
        if pure:
            atoms.append(t)
        else:
            v = env.fresh()
            binds.append((v, t))
            atoms.append(v)
    body = build(*atoms)
    if not binds and not monadic_result:
        return body, True
    out = body if monadic_result else f"(ret {body})"
    for v, t in reversed(binds):
        out = f"(bind {t} (fun {v} => {out}))"
    return out, False


def as_monadic(t, pure):
    return f"(ret {t})" if pure else t


def need_origin(env, node, name):
    if name in env.vars:
        fail(env.path, node, f"{name} is shadowed by a local variable")
    if env.imports.get(name) != EXPECTED_BINDINGS[name]:
        fail(env.path, node, f"name {name} is bound to {env.imports.get(name)}, expected {EXPECTED_BINDINGS[name]}")


def is_name(e, n):
    return isinstance(e, ast.Name) and e.id == n


def coerce(env, node, t, ty, want):
    """use of a value of type ty where `want` is expected: equal, or A used as Optional[A]"""
    if want is None:
        return t, ty
    u = unify(ty, want)
    if u is not None:
        return t, u
    if want[0] == "option" and ty[0] != "option":
        u = unify(ty, want[1])
        if u is not None:
            return f"(Some {t})", topt(u)
    fail(env.path, node, f"value of type {ty} where {want} is expected")


def expr(env, e, want=None):
    """-> (term, type, pure); `want` is the expected type (used for [], None and Optional coercion)"""
    t, ty, pure = expr0(env, e, want)
    if pure:
        t, ty = coerce(env, e, t, ty, want)
    else:
        u = unify(ty, want)
        if u is None:
            fail(env.path, e, f"value of type {ty} where {want} is expected")
        ty = u
    return t, ty, pure


def is_minus_one(s):
    return isinstance(s, ast.UnaryOp) and isinstance(s.op, ast.USub) and isinstance(s.operand, ast.Constant) and s.operand.value == 1 and not isinstance(s.operand.value, bool)


def is_transaction_context_call(env, e):
    """function.transaction_context(<block>) -> the block argument, else None"""
    if (
        isinstance(e, ast.Call)
        and isinstance(e.func, ast.Attribute)
        and e.func.attr == "transaction_context"
        and is_name(e.func.value, "function")
        and "function" not in env.vars
        and len(e.args) == 1
        and not e.keywords
    ):
        return e.args[0]
    return None


def expr0(env, e, want):
    p = env.path
    if isinstance(e, ast.Constant):
        if e.value is True:
            return "true", BOOL, True
        if e.value is False:
            return "false", BOOL, True
        if e.value is None:
            return "None", unify(topt(None), want) if want and want[0] == "option" else topt(None), True
        fail(p, e, "constant " + ast.unparse(e))
    if isinstance(e, ast.Name):
        if e.id in env.vars:
            return e.id, env.vars[e.id], True
        fail(p, e, f"unknown name {e.id}")
    if isinstance(e, ast.List):
        ew = want[1] if want and want[0] == "list" else None
        if not e.elts:
            return "[]", tlist(ew), True
        parts = [expr(env, x, ew) for x in e.elts]
        ty = None
        for (_, t1, _), x in zip(parts, e.elts):
            ty2 = unify(ty, t1) if ty is not None else t1
            if ty2 is None:
                fail(p, x, "list literal with elements of different types")
            ty = ty2
        out, pure = seq(env, [(t, pu) for t, _, pu in parts], lambda *a: "[" + "; ".join(a) + "]")
        return out, tlist(ty), pure
    if isinstance(e, ast.Tuple):
        if len(e.elts) != 2:
            fail(p, e, "tuple " + ast.unparse(e))
        ws = (want[1], want[2]) if want and want[0] == "prod" else (None, None)
        parts = [expr(env, x, w) for x, w in zip(e.elts, ws)]
        out, pure = seq(env, [(t, pu) for t, _, pu in parts], lambda a, b: f"({a}, {b})")
        return out, tprod(parts[0][1], parts[1][1]), pure
    if isinstance(e, ast.BinOp):
        if isinstance(e.op, ast.Add):
            w = want if want and want[0] == "list" else None
            l, lty, lp = expr(env, e.left, w)
            r, rty, rp = expr(env, e.right, lty if determined(lty) else w)
            ty = unify(lty, rty)
            if ty is None or ty[0] != "list":
                fail(p, e, f"`+` on values of types {lty}, {rty}")
            out, pure = seq(env, [(l, lp), (r, rp)], lambda a, b: f"({a} ++ {b})")
            return out, ty, pure
        fail(p, e, "binary operator " + ast.unparse(e))
    if isinstance(e, ast.Subscript):
        v, vty, vp = expr(env, e.value)
        if vty[0] == "list" and is_minus_one(e.slice):
            if not determined(vty):
                fail(p, e, "subscript of an untyped list")
            out, _ = seq(env, [(v, vp)], lambda a: f"(list_last {a})", monadic_result=True)
            return out, vty[1], False
        if (
            vty[0] == "list"
            and isinstance(e.slice, ast.Slice)
            and e.slice.lower is None
            and e.slice.step is None
            and e.slice.upper is not None
            and is_minus_one(e.slice.upper)
        ):
            out, pure = seq(env, [(v, vp)], lambda a: f"(list_but_last {a})")
            return out, vty, pure
        if vty[0] == "prod" and isinstance(e.slice, ast.Constant) and e.slice.value in (0, 1) and not isinstance(e.slice.value, bool):
            proj = ("fst", "snd")[e.slice.value]
            out, pure = seq(env, [(v, vp)], lambda a: f"({proj} {a})")
            return out, vty[1 + e.slice.value], pure
        fail(p, e, "subscript " + ast.unparse(e))
    if isinstance(e, ast.Compare):
        if len(e.ops) == 1 and isinstance(e.ops[0], ast.In):
            x, xty, xp = expr(env, e.left)
            l, lty, lp = expr(env, e.comparators[0], tlist(xty))
            fn = {NAT: "in_blocks", STR: "in_subs"}.get(xty)
            if fn is None or lty != tlist(xty):
                fail(p, e, f"`in` on values of types {xty}, {lty}")
            out, pure = seq(env, [(x, xp), (l, lp)], lambda a, b: f"({fn} {a} {b})")
            return out, BOOL, pure
        fail(p, e, "comparison " + ast.unparse(e))
    if isinstance(e, ast.UnaryOp):
        if isinstance(e.op, ast.Not):
            t, ty, pure = expr(env, e.operand, BOOL)
            return (f"(negb {t})" if pure else f"(notE {t})"), BOOL, pure
        fail(p, e, "unary operator " + ast.unparse(e))
    if isinstance(e, ast.ListComp):
        if len(e.generators) != 1:
            fail(p, e, "comprehension " + ast.unparse(e))
        g = e.generators[0]
        if g.ifs or g.is_async or not isinstance(g.target, ast.Name):
            fail(p, e, "comprehension " + ast.unparse(e))
        l, lty, lp = expr(env, g.iter)
        if lty[0] != "list" or not determined(lty):
            fail(p, e, f"comprehension over a value of type {lty}")
        check_name(env, g.target.id, e)
        if g.target.id in env.vars:
            fail(p, e, f"comprehension variable {g.target.id} shadows a variable")
        b, bty, bp = expr(env.child(**{g.target.id: lty[1]}), e.elt)
        if not bp:
            fail(p, e, "comprehension whose element expression can raise")
        out, pure = seq(env, [(l, lp)], lambda a: f"(map (fun {g.target.id} => {b}) {a})")
        return out, tlist(bty), pure
    if isinstance(e, ast.Attribute):
        if is_name(e.value, "function") and "function" not in env.vars and env.kind in ("search", "outer"):
            if e.attr == "entry":
                return "function_entry", NAT, True
            if e.attr == "main":
                return "function_main", STR, True
            fail(p, e, "attribute " + ast.unparse(e))
        if env.kind == "validated" and e.attr == "group_indices":
            v, vty, vp = expr(env, e.value, CTX)
            out, pure = seq(env, [(v, vp)], lambda a: f"(attr_group_indices {a})")
            return out, tlist(INT), pure
        glue = {
            "is_callsub_block": ("attr_is_callsub_block", BOOL),
            "is_retsub_block": ("attr_is_retsub_block", BOOL),
            "called_subroutine": ("attr_called_subroutine", STR),
            "sub_return_point": ("attr_sub_return_point", topt(NAT)),
        }
        if e.attr in glue and env.kind == "search":
            v, vty, vp = expr(env, e.value)
            if vty != NAT:
                fail(p, e, f"attribute .{e.attr} of a value of type {vty}")
            fn, rty = glue[e.attr]
            out, _ = seq(env, [(v, vp)], lambda a: f"({fn} {a})", monadic_result=True)
            return out, rty, False
        fail(p, e, "attribute " + ast.unparse(e))
    if isinstance(e, ast.Call):
        return call(env, e)
    fail(p, e, "expression " + ast.unparse(e)[:60])


def call(env, e):
    p = env.path
    if e.keywords:
        fail(p, e, "call with keyword arguments " + ast.unparse(e)[:60])
    if env.kind == "validated":
        # function.transaction_context(block) [.gtxn_context(i)] ; checks_field(ctx)
        blk = is_transaction_context_call(env, e)
        if blk is not None:
            b, _, bp = expr(env, blk, NAT)
            out, pure = seq(env, [(b, bp)], lambda a: f"(transaction_context {a})")
            return out, CTX, pure
        if isinstance(e.func, ast.Attribute) and e.func.attr == "gtxn_context" and len(e.args) == 1:
            blk = is_transaction_context_call(env, e.func.value)
            if blk is None:
                fail(p, e, "gtxn_context of something that is not function.transaction_context(..): " + ast.unparse(e)[:60])
            b, _, bp = expr(env, blk, NAT)
            i, _, ip = expr(env, e.args[0], INT)
            out, _ = seq(env, [(b, bp), (i, ip)], lambda a, c: f"(gtxn_context {a} {c})", monadic_result=True)
            return out, CTX, False
        if is_name(e.func, "checks_field") and "checks_field" not in env.vars and len(e.args) == 1:
            c, _, cp = expr(env, e.args[0], CTX)
            out, pure = seq(env, [(c, cp)], lambda a: f"(checks {a})")
            return out, BOOL, pure
        fail(p, e, "call " + ast.unparse(e)[:60])
    if not isinstance(e.func, ast.Name):
        fail(p, e, "call " + ast.unparse(e)[:60])
    fn = e.func.id
    if fn in env.vars:
        fail(p, e, f"call of the local variable {fn}")
    if env.kind != "search":
        fail(p, e, "call " + ast.unparse(e)[:60])
    if fn == "leaf_block_global" and len(e.args) == 1:
        need_origin(env, e, fn)
        b, _, bp = expr(env, e.args[0], NAT)
        out, _ = seq(env, [(b, bp)], lambda a: f"(call_leaf_block_global {a})", monadic_result=True)
        return out, BOOL, False
    if fn == "next_blocks_global" and len(e.args) == 2 and is_name(e.args[0], "function") and "function" not in env.vars:
        need_origin(env, e, fn)
        b, _, bp = expr(env, e.args[1], NAT)
        out, _ = seq(env, [(b, bp)], lambda a: f"(call_next_blocks_global {a})", monadic_result=True)
        return out, PATH, False
    if (
        fn == "validated_in_block"
        and len(e.args) == 3
        and is_name(e.args[1], "function")
        and is_name(e.args[2], "checks_field")
        and "function" not in env.vars
        and "checks_field" not in env.vars
    ):
        need_origin(env, e, fn)
        b, _, bp = expr(env, e.args[0], NAT)
        out, _ = seq(env, [(b, bp)], lambda a: f"(call_validated_in_block {a})", monadic_result=True)
        return out, BOOL, False
    if fn == "satisfies_report_condition" and len(e.args) == 1:
        b, _, bp = expr(env, e.args[0], PATH)
        out, _ = seq(env, [(b, bp)], lambda a: f"(call_satisfies_report_condition {a})", monadic_result=True)
        return out, BOOL, False
    fail(p, e, "call " + ast.unparse(e)[:60])


# ----------------------------------------------------------------------------- statements
SEARCH_PARAMS = [("bb", NAT), ("current_path", PATH), (STATE, PATHS), ("current_call_stack", STACK), ("current_subroutine_executed", EXECUTED)]


def check_name(env, name, node):
    if name in RESERVED or name.startswith("tmp") or (name.startswith("k") and name[1:].isdigit()):
        fail(env.path, node, f"variable name {name} is reserved by the translator")
    if not name.isidentifier() or not name.isascii():
        fail(env.path, node, f"variable name {name}")


def bind_var(env, name, node, t, ty, pure, rest_of, narrowing=False, state_ok=False):
    """`name = <t>`; a re-assignment must keep the type of the variable (except the narrowing of an Optional)"""
    check_name(env, name, node)
    if name == STATE and not state_ok:
        fail(env.path, node, f"assignment to {STATE}: the list object is the state, it can only be mutated with .append")
    if name in env.vars and not narrowing:
        ty2 = unify(env.vars[name], ty)
        if ty2 is None:
            fail(env.path, node, f"re-assignment of {name} changes its type from {env.vars[name]} to {ty}")
        ty = ty2
    if not determined(ty):
        fail(env.path, node, f"the type of {name} is not determined: {ty}")
    rest = rest_of(env.child(**{name: ty}))
    if pure:
        return f"(let {name} := {t} in\n{rest})"
    return f"(bind {t} (fun {name} =>\n{rest}))"


def is_append(st):
    v = st.value
    return isinstance(v, ast.Call) and isinstance(v.func, ast.Attribute) and v.func.attr == "append" and isinstance(v.func.value, ast.Name) and len(v.args) == 1 and not v.keywords


def is_debug(st):
    v = st.value
    return (
        isinstance(v, ast.Call)
        and isinstance(v.func, ast.Attribute)
        and v.func.attr == "debug"
        and is_name(v.func.value, "logger_detectors")
        and len(v.args) == 1
        and not v.keywords
    )


def is_rec_call(st):
    v = st.value
    return isinstance(v, ast.Call) and is_name(v.func, "search_paths")


def is_not_none_test(e):
    """`x is not None` -> x (a Name), else None"""
    if isinstance(e, ast.Compare) and len(e.ops) == 1 and isinstance(e.ops[0], ast.IsNot) and isinstance(e.left, ast.Name) and isinstance(e.comparators[0], ast.Constant) and e.comparators[0].value is None:
        return e.left.id
    return None


FORBIDDEN = (ast.While, ast.Try, ast.With, ast.FunctionDef, ast.AsyncFunctionDef, ast.Lambda, ast.NamedExpr, ast.AugAssign, ast.Delete, ast.Global, ast.Nonlocal, ast.GeneratorExp, ast.SetComp, ast.DictComp, ast.Yield, ast.YieldFrom, ast.Raise, ast.Break, ast.Continue, ast.Await, ast.ClassDef, ast.Import, ast.ImportFrom, ast.Starred)


def assigned_in(env, stmts):
    """names (re)bound by the statements, in order of first occurrence (a recursive call / .append re-binds the state)"""
    out = []

    def add(n):
        if n not in out:
            out.append(n)

    for st in stmts:
        for node in ast.walk(st):
            if isinstance(node, FORBIDDEN):
                fail(env.path, node, "statement/expression not accepted: " + type(node).__name__)
            if isinstance(node, (ast.Assign, ast.AnnAssign)):
                for tg in node.targets if isinstance(node, ast.Assign) else [node.target]:
                    for n in ast.walk(tg):
                        if isinstance(n, ast.Name) and n.id != "_":
                            add(n.id)
            if isinstance(node, ast.For):
                for n in ast.walk(node.target):
                    if isinstance(n, ast.Name):
                        add(n.id)
            if isinstance(node, ast.Assert) and is_not_none_test(node.test):
                add(is_not_none_test(node.test))
            if isinstance(node, ast.Expr) and is_append(node):
                add(node.value.func.value.id)
            if isinstance(node, ast.Expr) and is_rec_call(node):
                add(STATE)
    return out


def tuple_term(names):
    return names[0] if len(names) == 1 else "(" + ", ".join(names) + ")"


def projections(n, st):
    """terms of the n components of the left-nested tuple st"""
    if n == 1:
        return [st]
    return projections(n - 1, f"(fst {st})") + [f"(snd {st})"]


def end_of_function(env, node_path_line):
    if env.kind == "search":
        return f"(ret {STATE})"
    raise TranslateError(f"translator: {env.path}:{node_path_line}: control reaches the end of the function without return")


def do_return(env, st):
    p = env.path
    if env.kind == "search":
        if st.value is not None:
            fail(p, st, "search_paths returns a value")
        if env.loop is not None:
            fail(p, st, "return in a loop body of search_paths")
        return f"(ret {STATE})"
    if st.value is None:
        fail(p, st, "bare return")
    t, ty, pure = expr(env, st.value, RET_TYPE[env.kind])
    if env.on_return is not None:
        return env.on_return(t, pure)
    return as_monadic(t, pure)


def block(env, stmts, fall):
    """stmts: statement list; fall: function env -> term for what follows the block (None: the function ends).
    Returns a term of type py R."""
    p = env.path
    stmts = strip_doc(stmts)
    if not stmts:
        if fall is None:
            return end_of_function(env, "?")
        return fall(env)
    st, rest = stmts[0], stmts[1:]
    rest_of = lambda env2: block(env2, rest, fall)  # noqa: E731
    if isinstance(st, ast.Return):
        if rest:
            fail(p, rest[0], "statement after return")
        return do_return(env, st)
    if isinstance(st, ast.Pass):
        return rest_of(env)
    if isinstance(st, (ast.Assign, ast.AnnAssign)):
        if isinstance(st, ast.Assign):
            if len(st.targets) != 1:
                fail(p, st, "chained assignment")
            tg, value = st.targets[0], st.value
        else:
            tg, value = st.target, st.value
            if value is None or not isinstance(tg, ast.Name):
                fail(p, st, "annotated assignment " + ast.unparse(st)[:60])
        if isinstance(tg, ast.Name):
            # the state object is created once, by the enclosing function
            creates = tg.id == STATE and env.kind == "outer" and STATE not in env.vars
            t, ty, pure = expr(env, value, env.vars.get(tg.id) or (PATHS if creates else None))
            return bind_var(env, tg.id, st, t, ty, pure, rest_of, state_ok=creates)
        if isinstance(tg, ast.Tuple) and len(tg.elts) == 2 and all(isinstance(x, ast.Name) for x in tg.elts):
            names = [x.id for x in tg.elts]
            t, ty, pure = expr(env, value)
            if ty[0] != "prod" or (names[0] == names[1] and names[0] != "_"):
                fail(p, st, f"destructuring of a value of type {ty}")
            tmp = env.fresh()

            def chain(env2, i):
                if i == 2:
                    return rest_of(env2)
                if names[i] == "_":
                    return chain(env2, i + 1)
                return bind_var(env2, names[i], st, f"({('fst', 'snd')[i]} {tmp})", ty[1 + i], True, lambda env3: chain(env3, i + 1))

            inner = chain(env, 0)
            return f"(let {tmp} := {t} in\n{inner})" if pure else f"(bind {t} (fun {tmp} =>\n{inner}))"
        fail(p, st, "assignment target " + ast.unparse(tg))
    if isinstance(st, ast.Assert):
        x = is_not_none_test(st.test)
        if x is None or st.msg is not None or x not in env.vars or env.vars[x][0] != "option":
            fail(p, st, "assert " + ast.unparse(st)[:60])
        return bind_var(env, x, st, f"(assert_is_not_none {x})", env.vars[x][1], False, rest_of, narrowing=True)
    if isinstance(st, ast.Expr):
        if is_debug(st):
            # logger_detectors.debug(f"..."): evaluate the formatted expressions that can raise, nothing else
            if env.imports.get("logger_detectors") != "<local>" or "logger_detectors" in env.vars:
                fail(p, st, "logger_detectors is not the module-level logger")
            arg = st.value.args[0]
            if not isinstance(arg, (ast.JoinedStr, ast.Constant)):
                fail(p, st, "argument of logger_detectors.debug")
            impure = []
            for part in arg.values if isinstance(arg, ast.JoinedStr) else []:
                if isinstance(part, ast.Constant):
                    continue
                if not isinstance(part, ast.FormattedValue) or part.format_spec is not None:
                    fail(p, st, "f-string part " + ast.unparse(part)[:60])
                v = part.value
                if isinstance(v, ast.Call) and isinstance(v.func, ast.Name) and v.func.id in ("repr", "str") and v.func.id not in env.vars and len(v.args) == 1 and not v.keywords:
                    v = v.args[0]
                t, _, pure = expr(env, v)
                if not pure:
                    impure.append(t)
            out = rest_of(env)
            for t in reversed(impure):
                out = f"(bind {t} (fun _ =>\n{out}))"
            return out
        if is_append(st):
            x = st.value.func.value.id
            if not (x == STATE and env.kind == "search" and env.vars.get(x) == PATHS):
                fail(p, st, f".append on {x}: only {STATE} may be mutated")
            t, ty, pure = expr(env, st.value.args[0], PATH)
            out, pure2 = seq(env, [(t, pure)], lambda a: f"({x} ++ [{a}])")
            return bind_var(env, x, st, out, PATHS, pure2, rest_of, state_ok=True)
        if is_rec_call(st):
            if env.kind not in ("search", "outer") or "search_paths" in env.vars:
                fail(p, st, "call of search_paths")
            v = st.value
            if v.keywords or len(v.args) != len(SEARCH_PARAMS):
                fail(p, st, "arguments of search_paths")
            if not is_name(v.args[2], STATE) or env.vars.get(STATE) != PATHS:
                fail(p, st, f"the third argument of search_paths must be the list object {STATE}")
            parts = [expr(env, a, ty) for a, (_, ty) in zip(v.args, SEARCH_PARAMS)]
            out, _ = seq(env, [(t, pu) for t, _, pu in parts], lambda *a: "(search_paths_gen fuel " + " ".join(a) + ")", monadic_result=True)
            return bind_var(env, STATE, st, out, PATHS, False, rest_of, state_ok=True)
        fail(p, st, "expression statement " + ast.unparse(st)[:60])
    if isinstance(st, ast.If):
        if not rest:
            return if_term(env, st, fall)
        # what follows the if: needed how often?
        uses = [0]

        def probe(_env):
            uses[0] += 1
            return "K"

        saved = list(env.counter)
        if_term(env, st, probe)
        env.counter[:] = saved
        if uses[0] == 0:
            fail(p, rest[0], "unreachable statement")
        if uses[0] == 1:
            return if_term(env, st, rest_of)
        # join point: the variables assigned in the if that are bound before it
        join = [v for v in assigned_in(env, [st]) if v in env.vars]
        kn = env.fresh_join()
        body = block(env, rest, fall)
        params = " ".join(f"({v} : {coqty(env.vars[v])})" for v in join) or "(_ : unit)"

        def callk(env2):
            for v in join:
                if env2.vars[v] != env.vars[v]:
                    fail(p, st, f"the type of {v} differs at the join point: {env2.vars[v]} / {env.vars[v]}")
            return f"({kn} {' '.join(join) or 'tt'})"

        return f"(let {kn} := (fun {params} =>\n{indent(body, 2)}) in\n{if_term(env, st, callk)})"
    if isinstance(st, ast.For):
        return for_term(env, st, rest_of)
    fail(p, st, "statement " + ast.unparse(st)[:60])


def if_term(env, st, k):
    """k: env -> term for what follows the if (None: the function ends)"""
    p = env.path
    cont = k if k is not None else (lambda env2: end_of_function(env2, st.lineno))
    x = is_not_none_test(st.test)
    if x is not None:
        # if x is not None: narrowing of an Optional
        if x not in env.vars or env.vars[x][0] != "option":
            fail(p, st, "test " + ast.unparse(st.test))
        tmp = env.fresh()
        then_t = bind_var(env, x, st, tmp, env.vars[x][1], True, lambda env2: block(env2, st.body, cont), narrowing=True)
        else_t = block(env, st.orelse, cont) if st.orelse else cont(env)
        return f"(match {x} with\n | Some {tmp} =>\n{indent(then_t)}\n | None =>\n{indent(else_t)}\n end)"
    t, ty, pure = expr(env, st.test, BOOL)
    then_t = block(env, st.body, cont)
    else_t = block(env, st.orelse, cont) if st.orelse else cont(env)
    if pure:
        return f"(if {t}\n then\n{indent(then_t)}\n else\n{else_t})"
    return f"(ifE {t}\n{indent(then_t)}\n{else_t})"


def for_term(env, st, rest_of):
    p = env.path
    if st.orelse or getattr(st, "type_comment", None) or env.loop is not None:
        fail(p, st, "for-else / nested loop")
    if not isinstance(st.target, ast.Name):
        fail(p, st, "loop header " + ast.unparse(st)[:60])
    x = st.target.id
    check_name(env, x, st)
    if x in env.vars:
        fail(p, st, f"loop variable {x} shadows a variable")
    it = st.iter
    wrap = lambda a: a  # noqa: E731
    if isinstance(it, ast.Call) and is_name(it.func, "reversed") and "reversed" not in env.vars and len(it.args) == 1 and not it.keywords:
        it = it.args[0]
        wrap = lambda a: f"(rev {a})"  # noqa: E731
    l, lty, lpure = expr(env, it)
    if lty[0] != "list" or not determined(lty):
        fail(p, st, f"iteration over a value of type {lty}")
    body = strip_doc(st.body)
    assigned = assigned_in(env, body)
    if x in assigned:
        fail(p, st, "loop body assigns the loop variable")
    early = any(isinstance(n, ast.Return) for b in body for n in ast.walk(b))
    if early and env.kind == "search":
        fail(p, st, "return in a loop body of search_paths")
    state = [n for n in assigned if n in env.vars]
    comps = (["early"] if early else []) + state
    if not comps:
        fail(p, st, "loop without carried variable")
    rty = coqty(RET_TYPE[env.kind])
    stv = "st"
    projs = projections(len(comps), stv)
    benv = env.child(**{x: lty[1]})
    benv.loop = {"state": state, "early": early}

    def pack(first):
        return tuple_term(([first] if early else []) + state)

    def body_end(env2):
        for n in state:
            if env2.vars[n] != env.vars[n]:
                fail(p, st, f"loop body changes the type of {n}")
        return f"(ret {pack(f'(@None {rty})')})"

    def on_return(t, pure):
        if pure:
            return f"(ret {pack(f'(Some {t})')})"
        v = env.fresh()
        return f"(bind {t} (fun {v} => (ret {pack(f'(Some {v})')})))"

    benv.on_return = on_return if early else None
    body_t = block(benv, body, body_end)
    if early:
        body_t = f"(match {projs[0]} with\n | Some _ => (ret {stv})\n | None =>\n{indent(body_t)}\n end)"
    for n, pr in reversed(list(zip(state, projs[1:] if early else projs))):
        body_t = f"(let {n} := {pr} in\n{body_t})"
    lv = env.fresh() if not lpure else None
    lterm = wrap(lv if lv else l)
    loop = f"(fold_left (fun acc {x} => (bind acc (fun {stv} =>\n{indent(body_t, 2)})))\n  {lterm} (ret {pack(f'(@None {rty})')}))"
    tmp = env.fresh()
    after = rest_of(env)
    aprojs = projections(len(comps), tmp)
    if early:
        v = env.fresh()
        ret_t = env.on_return(v, True) if env.on_return else f"(ret {v})"
        after = f"(match {aprojs[0]} with\n | Some {v} => {ret_t}\n | None =>\n{indent(after)}\n end)"
    for n, pr in reversed(list(zip(state, aprojs[1:] if early else aprojs))):
        after = f"(let {n} := {pr} in\n{after})"
    out = f"(bind {loop} (fun {tmp} =>\n{after}))"
    if lv:
        out = f"(bind {l} (fun {lv} =>\n{out}))"
    return out


# ----------------------------------------------------------------------------- source checks
def signature(path, fn, expected, defaults=(), decorators=(), returns=None):
    a = fn.args
    if a.vararg or a.kwarg or a.kwonlyargs or a.posonlyargs:
        fail(path, fn, "signature of " + fn.name)
    if [ast.unparse(d) for d in a.defaults] != list(defaults):
        fail(path, fn, f"defaults of {fn.name}: {[ast.unparse(d) for d in a.defaults]}")
    if [ast.unparse(d) for d in fn.decorator_list] != list(decorators):
        fail(path, fn, f"decorators of {fn.name}: {[ast.unparse(d) for d in fn.decorator_list]}")
    got = [(x.arg, ast.unparse(x.annotation) if x.annotation else None) for x in a.args]
    if got != expected:
        fail(path, fn, f"signature of {fn.name}: {got}")
    if returns is not None and (ast.unparse(fn.returns) if fn.returns else None) != returns:
        fail(path, fn, f"return annotation of {fn.name}")


def find_toplevel(tree, name, path):
    found = [n for n in tree.body if isinstance(n, ast.FunctionDef) and n.name == name]
    if len(found) != 1:
        raise TranslateError(f"translator: {path}: expected exactly one top-level function {name}")
    return found[0]


def check_closure(path, outer, inner):
    """the names search_paths takes from the enclosing function are its (never re-bound) parameters"""
    closed = ("function", "checks_field", "satisfies_report_condition", "search_paths")
    for node in ast.walk(outer):
        if isinstance(node, (ast.Assign, ast.AnnAssign, ast.AugAssign, ast.For, ast.NamedExpr, ast.comprehension)):
            tgs = node.targets if isinstance(node, ast.Assign) else [node.target]
            for tg in tgs:
                for n in ast.walk(tg):
                    if isinstance(n, ast.Name) and n.id in closed:
                        fail(path, node, f"{n.id} is re-bound")
        if isinstance(node, (ast.Global, ast.Nonlocal)):
            fail(path, node, "global/nonlocal")
        if isinstance(node, ast.FunctionDef) and node is not outer and node is not inner:
            fail(path, node, "another nested function")
    for x in inner.args.args:
        if x.arg in closed:
            fail(path, inner, f"parameter {x.arg} shadows a closed-over name")
    # the mutable parameters other than the state are never mutated: no method call / item assignment on them
    for node in ast.walk(inner):
        if isinstance(node, ast.Call) and isinstance(node.func, ast.Attribute) and isinstance(node.func.value, ast.Name):
            if node.func.value.id in dict(SEARCH_PARAMS) and not (node.func.value.id == STATE and node.func.attr == "append"):
                fail(path, node, "method call on a parameter: " + ast.unparse(node)[:60])
        if isinstance(node, (ast.Assign, ast.AugAssign, ast.Delete)):
            tgs = node.targets if isinstance(node, (ast.Assign, ast.Delete)) else [node.target]
            for tg in tgs:
                if isinstance(tg, (ast.Subscript, ast.Attribute)):
                    fail(path, node, "item/attribute assignment: " + ast.unparse(node)[:60])


def fixpoint(name, params, rty, body):
    return (
        f"Fixpoint {name} (fuel : nat) {params} {{struct fuel}} : {rty} :=\n"
        f"  match fuel with\n"
        f"  | O => None (* recursion budget exhausted *)\n"
        f"  | S fuel =>\n{indent(body, 4)}\n"
        f"  end."
    )


# ----------------------------------------------------------------------------- emission
def emit_search(outdir):
    up = os.path.join(T, UTILS_REL)
    tree = parse(up)
    imports = bound_names(tree)
    for name, origin in EXPECTED_BINDINGS.items():
        if imports.get(name) != origin:
            raise TranslateError(f"translator: {up}: name {name} is bound to {imports.get(name)}, expected {origin}")
        if count_bindings(tree, name) != 1:
            raise TranslateError(f"translator: {up}: name {name} is bound {count_bindings(tree, name)} times in the module")
    lg = [n for n in tree.body if isinstance(n, ast.Assign) and any(is_name(t, "logger_detectors") for t in n.targets)]
    if len(lg) != 1 or ast.unparse(lg[0]) != "logger_detectors = logging.getLogger('Detectors')":
        raise TranslateError(f"translator: {up}: logger_detectors is not logging.getLogger('Detectors')")
    check_fingerprints()

    L = []
    w = L.append
    w("(* GENERATED by tools/translate.py (translate_search) from /repo/tealer -- do not edit *)")
    w("(* detectors/utils.py: validated_in_block, detect_missing_tx_field_validations and its nested search_paths,")
    w("   statement by statement.  See tools/translate_search.py. *)")
    w("From Coq Require Import String List NArith ZArith Bool Arith.")
    w("From Tealer Require Import Tables LeafPrelude Syntax Cfg Keys KeysGen Analysis Domains Detect.")
    w("Import ListNotations.")
    w("Open Scope string_scope.")
    w("Open Scope list_scope.")
    w(PRELUDE.rstrip("\n"))
    w("")
    w("  (* ====================================================================== *)")
    w("  (* TRANSLATED functions                                                     *)")
    w("  (* ====================================================================== *)")

    # --- search_paths (nested in detect_missing_tx_field_validations)
    outer = find_toplevel(tree, "detect_missing_tx_field_validations", up)
    signature(
        up, outer,
        [("function", "'Function'"), ("checks_field", "Callable[['BlockTransactionContext'], bool]"), ("satisfies_report_condition", "Callable[[List['BasicBlock']], bool]")],
        defaults=["lambda _x: True"],
        returns="List[List['BasicBlock']]",
    )
    obody = strip_doc(outer.body)
    if not obody or not isinstance(obody[0], ast.FunctionDef) or obody[0].name != "search_paths":
        fail(up, outer, "the first statement of detect_missing_tx_field_validations is not `def search_paths`")
    inner = obody[0]
    signature(
        up, inner,
        [
            ("bb", "'BasicBlock'"),
            ("current_path", "List['BasicBlock']"),
            ("paths_without_check", "List[List['BasicBlock']]"),
            ("current_call_stack", "List[Tuple[Optional['BasicBlock'], 'Subroutine']]"),
            ("current_subroutine_executed", "List[List['BasicBlock']]"),
        ],
        returns="None",
    )
    check_closure(up, outer, inner)
    env = Env(up, dict(SEARCH_PARAMS), "search", imports)
    params = " ".join(f"({n} : {coqty(ty)})" for n, ty in SEARCH_PARAMS)
    w(f"  (* {UTILS_REL}: detect_missing_tx_field_validations.<locals>.search_paths (line {inner.lineno});")
    w(f"     returns the final state of the list object {STATE} *)")
    w(indent(fixpoint("search_paths_gen", params, f"py ({coqty(PATHS)})", block(env, inner.body, None)), 2))
    w("")
    # --- the statements of detect_missing_tx_field_validations after the nested def
    env = Env(up, {}, "outer", imports)
    w(f"  (* {UTILS_REL}: detect_missing_tx_field_validations (line {outer.lineno}), the statements after the nested def;")
    w("     fuel is the budget passed to search_paths_gen *)")
    w(f"  Definition detect_missing_tx_field_validations_gen (fuel : nat) : py ({coqty(PATHS)}) :=\n" + indent(block(env, obody[1:], None), 4) + ".")
    w("End SearchGen.")
    w(PRELUDE_VALIDATED.rstrip("\n"))
    w("")
    # --- validated_in_block
    vf = find_toplevel(tree, "validated_in_block", up)
    signature(
        up, vf,
        [("block", "'BasicBlock'"), ("function", "'Function'"), ("checks_field", "Callable[['BlockTransactionContext'], bool]"), ("absolute_index", "Optional[int]")],
        defaults=["None"],
        returns="bool",
    )
    for node in ast.walk(vf):
        if isinstance(node, (ast.Assign, ast.AnnAssign, ast.AugAssign, ast.NamedExpr)):
            fail(up, node, "assignment in validated_in_block")
    env = Env(up, {"block": NAT, "absolute_index": topt(INT)}, "validated", imports)
    w(f"  (* {UTILS_REL}: validated_in_block (line {vf.lineno}); function = r, checks_field = checks *)")
    w("  Definition validated_in_block_gen (block : nat) (absolute_index : option Z) : py bool :=\n" + indent(block(env, vf.body, None), 4) + ".")
    w("End ValidatedGen.")
    os.makedirs(outdir, exist_ok=True)
    with open(os.path.join(outdir, "SearchGen.v"), "w") as fh:
        fh.write("\n".join(L) + "\n")
    return 3


def main():
    outdir = sys.argv[1] if len(sys.argv) > 1 else os.path.join(os.path.dirname(os.path.abspath(__file__)), "..", "coq", "Gen")
    try:
        n = emit_search(outdir)
    except TranslateError as e:
        print(str(e))
        sys.exit(2)
    print(f"translate_search: {n} path-search functions -> {outdir}/SearchGen.v")


if __name__ == "__main__":
    main()
