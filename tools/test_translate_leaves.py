#!/venv/bin/python
"""Self-test of the leaf translation (tools/translate.py + tools/translate_leaves.py -> coq/Gen/Leaves.v, Gen/Tables.v):
the lattice operations of the fee / address domains, the comparison tables of the fee / int domains, the detectors'
checks_field predicates and (one row) the instruction table.

Gen/Leaves.v and Gen/Tables.v have NO "generated = model" lemma file: the model (Model/Domains.v, Model/Detect.v, ..) USES
the generated functions, so a source edit changes the model itself and the weakness of positional "generated = model"
lemmas (a twin parameter renamed by the Section discharge) cannot arise here.  What ties the generated text down are the
statements proved ABOUT it against independent definitions: Lemmas/LeafLemmas.v (fee_union_exact,
fee_intersection_exact, the addr_* / int_* exactness and soundness lemmas: gamma of the result = union / intersection of
the gammas), Lemmas/NoMiss.v (the no-miss theorems of the detectors over executions) and Lemmas/TableLemmas.v (the
instruction table against Spec/AvmTables.v).  The analogous risk is that these statements are invariant under a
renaming / duality of same-typed twins (union <-> intersection together with universal <-> null is a lattice
anti-isomorphism: every purely order-theoretic law survives it).  This test shows they are not:

(a) runs tools/translate.py on the clean source and checks that Leaves.v / Tables.v are the committed coq/Gen files;
(b) applies each mutation to a scratch copy of the source, regenerates coq/Gen in a scratch copy of the BUILT coq tree and
    runs `make -k` for the targets TARGETS: the mutation is caught when the translator stops, or when the generated text
    differs and one of the targets no longer compiles.

Every make runs under `timeout`.  Exit status 0 iff every row has the expected verdict.

usage: VERIF_REPO=/tmp/cleanrepo /venv/bin/python tools/test_translate_leaves.py [-v]
"""
import ast
import os
import re
import shutil
import subprocess
import sys
import tempfile

HERE = os.path.dirname(os.path.abspath(__file__))
ROOT = os.path.dirname(HERE)
COQ = os.path.join(ROOT, "coq")
PY = "/venv/bin/python"
REPO = os.environ.get("VERIF_REPO", "/tmp/cleanrepo")

TC = "tealer/analyses/dataflow/transaction_context"
FEE = f"{TC}/fee_field.py"
ADDR = f"{TC}/addr_fields.py"
INT = f"{TC}/int_fields.py"
CCA = "tealer/detectors/can_close_account.py"
INS = "tealer/teal/instructions/instructions.py"

# the statements about Gen/Leaves.v / Gen/Tables.v: lattice leaves (LeafLemmas), detectors over executions (NoMiss), the
# instruction table against the independent AVM table Spec/AvmTables.v (TableLemmas)
TARGETS = ["Lemmas/LeafLemmas.vo", "Lemmas/NoMiss.vo", "Lemmas/TableLemmas.vo"]


def sh(cmd, cwd=None, env=None):
    e = dict(os.environ)
    if env:
        e.update(env)
    p = subprocess.run(cmd, shell=True, cwd=cwd, stdout=subprocess.PIPE, stderr=subprocess.STDOUT, env=e, check=False)
    return p.returncode, p.stdout.decode(errors="replace")


# ----------------------------------------------------------------------------- mutations (text -> text)
def replace_once(src, old, new):
    if src.count(old) != 1:
        raise RuntimeError(f"mutation anchor found {src.count(old)} times: " + old[:60])
    return src.replace(old, new, 1)


def exchange(src, a, b):
    """exchange the two (unique) texts a and b"""
    if src.count(a) != 1 or src.count(b) != 1:
        raise RuntimeError(f"mutation anchors found {src.count(a)} / {src.count(b)} times: " + a[:50])
    return src.replace(a, "\0").replace(b, a).replace("\0", b)


FEE_UNION = "    def _union(self, key: str, a: FeeValue, b: FeeValue) -> FeeValue:"
FEE_INTER = "    def _intersection(self, key: str, a: FeeValue, b: FeeValue) -> FeeValue:"
FEE_UNIV = "    def _universal_set(self, key: str) -> FeeValue:"
FEE_NULL = "    def _null_set(self, key: str) -> FeeValue:"
ADDR_UNION = "    def _union(self, key: str, a: Set, b: Set) -> Set:"
ADDR_INTER = "    def _intersection(self, key: str, a: Set, b: Set) -> Set:"
ADDR_UNIV = '    def _universal_set(self, key: str = "") -> Set:'
ADDR_NULL = '    def _null_set(self, key: str = "") -> Set:'


def mut_fee_ops_exchanged(src):
    """(t1) FeeField: the bodies of _union and _intersection exchanged"""
    return exchange(src, FEE_UNION, FEE_INTER)


def mut_fee_dual(src):
    """(t2) FeeField: the dual lattice (_union <-> _intersection AND _universal_set <-> _null_set)"""
    return exchange(exchange(src, FEE_UNION, FEE_INTER), FEE_UNIV, FEE_NULL)


def mut_fee_sets_exchanged(src):
    """(t3) FeeField: the bodies of _universal_set and _null_set exchanged"""
    return exchange(src, FEE_UNIV, FEE_NULL)


def mut_addr_dual(src):
    """(t4) AddrFields: the dual lattice (_union <-> _intersection AND _universal_set <-> _null_set)"""
    return exchange(exchange(src, ADDR_UNION, ADDR_INTER), ADDR_UNIV, ADDR_NULL)


def mut_addr_ops_exchanged(src):
    """(t5) AddrFields: the bodies of _union and _intersection exchanged"""
    return exchange(src, ADDR_UNION, ADDR_INTER)


def mut_addr_set_operator(src):
    """(t6) AddrFields._union: a & b for a | b (twin operators)"""
    return replace_once(src, "        return a | b\n", "        return a & b\n")


def mut_detector_twin_field(src):
    """(t7) can-close-account reads block_ctx.assetcloseto (twin context fields of the same type)"""
    return replace_once(src, "                block_ctx.closeto.any_addr\n", "                block_ctx.assetcloseto.any_addr\n")


def mut_select_arities_exchanged(src):
    """(t8, Gen/Tables.v) class Select: the properties stack_pop_size / stack_push_size exchanged (twin int properties)"""
    tree = ast.parse(src)
    cls = [n for n in tree.body if isinstance(n, ast.ClassDef) and n.name == "Select"]
    if len(cls) != 1:
        raise RuntimeError("mutation anchor not found: class Select")
    fns = {n.name: n for n in cls[0].body if isinstance(n, ast.FunctionDef) and n.name in ("stack_pop_size", "stack_push_size")}
    if len(fns) != 2:
        raise RuntimeError("mutation anchor not found: Select.stack_pop_size / stack_push_size")
    fns["stack_pop_size"].name, fns["stack_push_size"].name = "stack_push_size", "stack_pop_size"
    return ast.unparse(ast.fix_missing_locations(tree)) + "\n"


def mut_fee_union_args(src):
    """(a1) FeeField._union: operands of > exchanged in the known / known case"""
    return replace_once(src, "        return a if a.value > b.value else b\n", "        return a if b.value > a.value else b\n")


def mut_fee_inter_branches(src):
    """(a2) FeeField._intersection: the two results of the known / known case exchanged"""
    return replace_once(src, "        return a if a.value < b.value else b\n", "        return b if a.value < b.value else a\n")


def mut_fee_eq_pair(src):
    """(a3) _get_asserted_max_value: Eq returns (U, i)"""
    return replace_once(
        src,
        "            # x == i => i, U\n            return compared_value, FeeValue()\n",
        "            # x == i => i, U\n            return FeeValue(), compared_value\n",
    )


def mut_fee_minus_args(src):
    """(a4) _get_asserted_max_value: Less: max(0, 1 - i)"""
    return replace_once(
        src,
        "            return FeeValue(value=max(0, compared_value.value - 1)), FeeValue()\n",
        "            return FeeValue(value=max(0, 1 - compared_value.value)), FeeValue()\n",
    )


def mut_int_less_args(src):
    """(a5) _get_asserted_int_values: Less keeps compared_int < i"""
    return replace_once(src, "            return [i for i in U if i < compared_int]\n", "            return [i for i in U if compared_int < i]\n")


def mut_addr_inter_operand(src):
    """(a6) AddrFields._intersection: ANY in a returns a copy of a (the other operand)"""
    tree = ast.parse(src)
    fn = [n for n in ast.walk(tree) if isinstance(n, ast.FunctionDef) and n.name == "_intersection"]
    if len(fn) != 1:
        raise RuntimeError("mutation anchor not found: def _intersection")
    rets = [n for n in ast.walk(fn[0]) if isinstance(n, ast.Return) and ast.unparse(n.value) == "set(b)"]
    if len(rets) != 1:
        raise RuntimeError("mutation anchor not found: return set(b)")
    rets[0].value = ast.parse("set(a)", mode="eval").body
    return ast.unparse(ast.fix_missing_locations(tree)) + "\n"


MUTATIONS = [
    ("(t1) TWIN fee: _union / _intersection exchanged", FEE, mut_fee_ops_exchanged),
    ("(t2) TWIN fee: dual lattice (ops and bounds exchanged)", FEE, mut_fee_dual),
    ("(t3) TWIN fee: _universal_set / _null_set exchanged", FEE, mut_fee_sets_exchanged),
    ("(t4) TWIN addr: dual lattice (ops and bounds exchanged)", ADDR, mut_addr_dual),
    ("(t5) TWIN addr: _union / _intersection exchanged", ADDR, mut_addr_ops_exchanged),
    ("(t6) TWIN addr._union: a & b", ADDR, mut_addr_set_operator),
    ("(t7) TWIN can-close-account reads assetcloseto", CCA, mut_detector_twin_field),
    ("(t8) TWIN Select: pop / push arities exchanged (Tables.v)", INS, mut_select_arities_exchanged),
    ("(a1) ARGS fee._union: b.value > a.value", FEE, mut_fee_union_args),
    ("(a2) ARGS fee._intersection: results exchanged", FEE, mut_fee_inter_branches),
    ("(a3) PAIR fee Eq returns (U, i)", FEE, mut_fee_eq_pair),
    ("(a4) ARGS fee Less: max(0, 1 - i)", FEE, mut_fee_minus_args),
    ("(a5) ARGS int Less: compared_int < i", INT, mut_int_less_args),
    ("(a6) ARGS addr._intersection: set(a) for set(b)", ADDR, mut_addr_inter_operand),
]


# ----------------------------------------------------------------------------- one run
def enclosing(vfile, line):
    name = "?"
    with open(vfile, encoding="utf-8") as f:
        for i, l in enumerate(f, 1):
            m = re.match(r"\s*(Lemma|Theorem|Corollary|Definition)\s+(\w+)", l)
            if m and i <= line:
                name = m.group(2)
            if i > line:
                break
    return name


def run_case(work, scratch, rel=None, mutate=None):
    """-> dict(translator=..., text=..., others=..., built=..., where=..., log=...)"""
    os.makedirs(work)
    gen = os.path.join(work, "gen")
    path, orig = None, None
    if mutate:
        path = os.path.join(scratch, rel)
        with open(path, encoding="utf-8") as fh:
            orig = fh.read()
        new = mutate(orig)
        if new == orig:
            raise RuntimeError("mutation did not change the source")
        ast.parse(new)  # the mutant is valid Python
        with open(path, "w", encoding="utf-8") as fh:
            fh.write(new)
    try:
        rc, out = sh(f"{PY} {HERE}/translate.py {gen}", env={"VERIF_REPO": scratch})
    finally:
        if path:
            with open(path, "w", encoding="utf-8") as fh:
                fh.write(orig)
    res = {"translator": "ok" if rc == 0 else "STOPPED", "log": out.strip().replace(scratch + "/", ""), "text": None, "others": [], "built": None, "where": None}
    if rc != 0:
        if rc != 2 or "translator:" not in out:
            res["translator"] = "CRASHED"
        return res
    with open(os.path.join(gen, "Leaves.v"), encoding="utf-8") as fh:
        res["text"] = fh.read()
    with open(os.path.join(gen, "Tables.v"), encoding="utf-8") as fh:
        res["text"] += fh.read()
    # a scratch copy of the built tree with the regenerated files (only the changed ones are replaced: make is incremental)
    coq = os.path.join(work, "coq")
    shutil.copytree(COQ, coq, ignore=shutil.ignore_patterns("Gen.new", "Extr", "*.glob", "*.aux", ".*.aux", "*.vos", "*.vok"), symlinks=True)
    for fn in sorted(os.listdir(gen)):
        a, b = os.path.join(gen, fn), os.path.join(coq, "Gen", fn)
        if not fn.endswith(".v"):
            continue
        if not os.path.exists(b) or open(a, "rb").read() != open(b, "rb").read():
            shutil.copy(a, b)
            if fn not in ("Leaves.v", "Tables.v"):
                res["others"].append(fn)
    if not mutate:
        res["built"] = True  # the built tree is the clean build
        return res
    sh("coq_makefile -f _CoqProject -o Makefile", cwd=coq)
    rc, out = sh(f"timeout 3000 make -k -j8 {' '.join(TARGETS)} 2>&1", cwd=coq)
    res["built"] = rc == 0
    res["log"] += "\n" + out[-3000:]
    if rc != 0:
        m = re.search(r'File "\./([^"]+)", line (\d+), characters', out)
        res["where"] = f"{m.group(1)}: {enclosing(os.path.join(coq, m.group(1)), int(m.group(2)))} (line {m.group(2)})" if m else ("timeout" if rc == 124 else "?")
    shutil.rmtree(coq, ignore_errors=True)
    return res


def main():
    verbose = "-v" in sys.argv
    for f in ["Gen/Leaves.vo"] + TARGETS:
        if not os.path.exists(os.path.join(COQ, f)):
            print(f"precondition: {COQ}/{f} missing -- build coq/ first (make)")
            sys.exit(3)
    top = tempfile.mkdtemp(prefix="tleaves_")
    scratch = os.path.join(top, "repo")
    shutil.copytree(os.path.join(REPO, "tealer"), os.path.join(scratch, "tealer"), ignore=shutil.ignore_patterns("__pycache__"))
    rows = []
    ok = True
    try:
        base = run_case(os.path.join(top, "base"), scratch)
        same = None
        if base["text"] is not None:
            cur = ""
            for fn in ("Leaves.v", "Tables.v"):
                with open(os.path.join(COQ, "Gen", fn), encoding="utf-8") as fh:
                    cur += fh.read()
            same = cur == base["text"]
        good = base["translator"] == "ok" and same is True and not base["others"]
        ok &= bool(good)
        rows.append(("(a) clean source", base["translator"], "= coq/Gen/{Leaves,Tables}.v" if same else ("DIFFERS from coq/Gen" if same is False else "-"), "(built tree)", "PASS" if good else "FAIL"))
        if verbose or not good:
            print(base["log"])
        for i, (name, rel, fn) in enumerate(MUTATIONS):
            r = run_case(os.path.join(top, f"m{i}"), scratch, rel, fn)
            if r["translator"] == "STOPPED":
                verdict, good, diff, built = "caught: translator stops", True, "-", "-"
            elif r["translator"] == "CRASHED":
                verdict, good, diff, built = "FAIL: translator crashed", False, "-", "-"
            else:
                differs = r["text"] != base["text"]
                diff = "differs" if differs else "IDENTICAL"
                built = "yes" if r["built"] else "NO"
                if differs and r["built"] is False:
                    verdict, good = f"caught: {r['where']}", True
                else:
                    verdict, good = "FAIL: NOT DETECTED", False
            ok &= good
            rows.append((name, r["translator"], diff, built, verdict))
            if verbose or not good:
                print(f"--- {name}\n{r['log']}\n")
            elif r["translator"] == "STOPPED":
                print(f"--- {name}: {r['log'].splitlines()[0][:260]}")
    finally:
        shutil.rmtree(top, ignore_errors=True)
    hdr = ("case", "translator", "Leaves.v + Tables.v", "targets build", "verdict")
    table = [hdr] + [tuple(str(c) for c in r) for r in rows]
    widths = [max(len(r[i]) for r in table) for i in range(len(hdr))]
    print("\ntargets: " + " ".join(TARGETS))
    for k, r in enumerate(table):
        print(" | ".join(c.ljust(w) for c, w in zip(r, widths)))
        if k == 0:
            print("-+-".join("-" * w for w in widths))
    print("\nRESULT:", "all mutations caught, clean source accepted" if ok else "FAILURE")
    sys.exit(0 if ok else 1)


if __name__ == "__main__":
    main()
