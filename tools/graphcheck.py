"""Independent checkers evaluated on the *implementation's* dumps (used by the violation search):
   check_graph: laws of C04/C05 on a graph dump;  check_paths: declarative validity of reported paths (C02)."""
import re


def toks(s):
    return s.split()


def exit_kind(ins_text):
    t = toks(ins_text)
    if not t:
        return "other", []
    op = t[0]
    if op in ("b",):
        return "b", t[1:2]
    if op in ("bz", "bnz"):
        return "cond", t[1:2]
    if op in ("switch", "match"):
        return "multi", t[1:]
    if op == "callsub":
        return "callsub", t[1:2]
    if op == "retsub":
        return "retsub", []
    if op in ("err", "return"):
        return "term", []
    return "other", []


def check_graph(text, g):
    """g: implementation's cfg/analyze dump. Returns list of law violations (strings)."""
    errs = []
    blocks = {b["idx"]: b for b in g["blocks"]}
    ids = set(blocks)
    # successor/predecessor mirror, no outside names, no duplicates
    for b in g["blocks"]:
        if len(set(b["next"])) != len(b["next"]):
            errs.append(f"block {b['idx']} lists a successor twice: {b['next']}")
        for s in b["next"]:
            if s not in ids:
                errs.append(f"block {b['idx']} names successor {s} outside the graph")
            elif b["idx"] not in blocks[s]["prev"]:
                errs.append(f"edge {b['idx']}->{s} is not mirrored in prev of {s}")
        for p in b["prev"]:
            if p not in ids:
                errs.append(f"block {b['idx']} names predecessor {p} outside the graph")
            elif b["idx"] not in blocks[p]["next"]:
                errs.append(f"prev {p} of block {b['idx']} is not mirrored in next of {p}")
    # partition of the retained instructions in source order
    lines = [ln for b in sorted(g["blocks"], key=lambda x: x["idx"]) for ln in b["lines"]]
    if lines != sorted(lines) or len(set(lines)) != len(lines):
        errs.append("blocks do not partition the retained instructions in source order")
    if lines != g.get("retained_lines", lines):
        errs.append("retained instruction list differs from the concatenation of the blocks")
    # label map
    label_block = {}
    for b in g["blocks"]:
        for k, s in enumerate(b["ins"]):
            if s.endswith(":") and " " not in s:
                label_block[s[:-1]] = (b["idx"], k)
                if k != 0:
                    errs.append(f"label {s} is not the first instruction of block {b['idx']}")
    last_line = max(lines) if lines else 0
    all_lines = sorted(lines)
    for b in g["blocks"]:
        for k, s in enumerate(b["ins"][:-1]):
            kind, _ = exit_kind(s)
            if kind != "other":
                errs.append(f"block {b['idx']} contains {s!r} before its last instruction")
        kind, labs = exit_kind(b["ins"][-1])
        is_last = b["lines"][-1] == last_line
        # fall-through block = block whose first line is the next retained line after b's last line
        ft = None
        nxt = [ln for ln in all_lines if ln > b["lines"][-1]]
        if nxt:
            for c in g["blocks"]:
                if c["lines"][0] == nxt[0]:
                    ft = c["idx"]
        if kind == "cond":
            tgt = label_block.get(labs[0], (None, 0))[0]
            exp = []
            if ft is not None and not is_last:
                exp.append(ft)
            if tgt is not None and tgt not in exp:
                exp.append(tgt)
            if b["next"] != exp:
                errs.append(f"block {b['idx']} ends in {b['ins'][-1]!r}: successors {b['next']} but fall-through/target order gives {exp}")
        elif kind == "multi":
            # switch / match: fall-through (unless it is the last retained instruction) first, then the targets in
            # the order written, each block once; a target label must itself be retained
            exp = []
            if ft is not None and not is_last:
                exp.append(ft)
            for lab in labs:
                tgt = label_block.get(lab, (None, 0))[0]
                if tgt is None:
                    errs.append(f"block {b['idx']} ends in {b['ins'][-1]!r}: target label {lab} is not in the graph")
                elif tgt not in exp:
                    exp.append(tgt)
            if b["next"] != exp:
                errs.append(f"block {b['idx']} ends in {b['ins'][-1]!r}: successors {b['next']} but fall-through/target order gives {exp}")
        elif kind == "b":
            tgt = label_block.get(labs[0], (None, 0))[0]
            if tgt is not None and b["next"] != [tgt]:
                errs.append(f"block {b['idx']} ends in {b['ins'][-1]!r}: successors {b['next']} expected [{tgt}]")
        elif kind in ("term", "retsub"):
            if b["next"]:
                errs.append(f"block {b['idx']} ends in {b['ins'][-1]!r} but has successors {b['next']}")
        elif kind == "callsub":
            exp = [ft] if (ft is not None and not is_last) else []
            if b["next"] != exp:
                errs.append(f"callsub block {b['idx']}: successors {b['next']} expected return point {exp}")
    # subroutines = callsub targets (retained or not), blocks = local reachability from entry
    subs = {s["name"]: s for s in g.get("subs", [])}
    called = set()
    for line in text.split("\n"):
        t = line.split("//")[0].split()
        if t and t[0] == "callsub" and len(t) > 1:
            called.add(t[1])
    if set(subs) != called:
        errs.append(f"subroutines {sorted(subs)} differ from callsub targets {sorted(called)}")
    for name, s in subs.items():
        lb = label_block.get(name)
        if lb is None or lb[0] != s["entry"]:
            errs.append(f"subroutine {name}: entry {s['entry']} is not the block of its label")
        reach = set()
        todo = [s["entry"]]
        while todo:
            x = todo.pop()
            if x in reach or x not in blocks:
                continue
            reach.add(x)
            todo += blocks[x]["next"]
        if reach != set(s["blocks"]):
            errs.append(f"subroutine {name}: blocks {sorted(s['blocks'])} differ from local reachability {sorted(reach)}")
        callers = sorted(b["idx"] for b in g["blocks"] if exit_kind(b["ins"][-1]) == ("callsub", [name]))
        if sorted(s["callers"]) != callers:
            errs.append(f"subroutine {name}: caller table {sorted(s['callers'])} differs from retained call sites {callers}")
    errs += check_return_points(g)
    return errs


def check_return_points(g):
    """C05, call / return-point structure as the tool reports it through BasicBlock.is_sub_return_point / sub_return_point /
    callsub_block / called_subroutine (dumped per block as is_rp / rp / csb / callee): a block ending in callsub resumes at its
    fall-through successor (none when it has no successor); a block is a return point iff it is the fall-through successor of
    a retained callsub block, and then its callsub_block is such a block; the callee is the subroutine named by the callsub."""
    errs = []
    blocks = {b["idx"]: b for b in g["blocks"]}
    if not g["blocks"] or "is_rp" not in g["blocks"][0]:
        return errs
    callsubs = {b["idx"]: b for b in g["blocks"] if b["ins"] and exit_kind(b["ins"][-1])[0] == "callsub"}
    resume = {c: (b["next"][0] if b["next"] else None) for c, b in callsubs.items()}
    for c, b in callsubs.items():
        if b.get("rp") != resume[c]:
            errs.append(f"callsub block {c}: sub_return_point is {b.get('rp')}, execution resumes at {resume[c]}")
        want = exit_kind(b["ins"][-1])[1][0]
        if b.get("callee") != want:
            errs.append(f"callsub block {c}: called_subroutine is {b.get('callee')}, the callsub names {want}")
    for idx, b in blocks.items():
        srcs = sorted(c for c, r in resume.items() if r == idx)
        if bool(b.get("is_rp")) != bool(srcs):
            errs.append(f"block {idx}: is_sub_return_point = {b.get('is_rp')} but the retained callsub blocks resuming here are {srcs} (callsub)")
        elif srcs and b.get("csb") not in srcs:
            errs.append(f"return point {idx}: callsub_block is {b.get('csb')}, the callsub blocks resuming here are {srcs}")
        if idx not in callsubs and b.get("rp") != "-":
            errs.append(f"block {idx} does not end in callsub but reports sub_return_point {b.get('rp')} (callsub)")
    return errs


def check_paths(g, paths):
    """declarative validity of reported paths on the implementation's graph dump (independent of the DFS)"""
    errs = []
    blocks = {b["idx"]: b for b in g["blocks"]}
    subs = {s["name"]: s for s in g.get("subs", [])}
    if len(set(map(tuple, paths))) != len(paths):
        errs.append("a path is reported twice")
    for p in paths:
        if not p or p[0] != 0:
            errs.append(f"path {p} does not start at the entry block")
            continue
        stack = [(None, "")]
        executed = [[]]
        ok = True
        for k, b in enumerate(p):
            if b not in blocks:
                errs.append(f"path {p} names block {b} outside the function")
                ok = False
                break
            if b in executed[-1]:
                errs.append(f"path {p} revisits block {b} within one activation")
                ok = False
                break
            executed[-1] = executed[-1] + [b]
            blk = blocks[b]
            kind, labs = exit_kind(blk["ins"][-1])
            last = k == len(p) - 1
            if last:
                if blk["next"] or kind in ("callsub", "retsub"):
                    errs.append(f"path {p} ends at block {b} where execution cannot terminate")
                break
            nxt = p[k + 1]
            if kind == "callsub":
                s = subs.get(labs[0])
                if s is None or nxt != s["entry"]:
                    errs.append(f"path {p}: after callsub block {b} comes {nxt}, not the callee entry")
                    ok = False
                    break
                if labs[0] in [fr[1] for fr in stack]:
                    errs.append(f"path {p}: recursive call of {labs[0]}")
                    ok = False
                    break
                stack.append((b, labs[0]))
                executed.append([])
            elif kind == "retsub":
                cs, _ = stack[-1]
                if cs is None:
                    errs.append(f"path {p}: retsub in main")
                    ok = False
                    break
                rp = blocks[cs]["next"][0] if blocks[cs]["next"] else None
                if nxt != rp:
                    errs.append(f"path {p}: retsub block {b} returns to {nxt}, not to the block after its callsub ({rp})")
                    ok = False
                    break
                stack.pop()
                executed.pop()
            else:
                if nxt not in blk["next"]:
                    errs.append(f"path {p}: {b}->{nxt} is not an edge")
                    ok = False
                    break
        if not ok:
            continue
    return errs
