#!/venv/bin/python
"""The JOINT PASS of tealer's dataflow analysis: one forward + one backward worklist iteration for a LIST of analysis
keys on ONE shared worklist (Gen/JointGen.v).

What is "joint".  DataflowTransactionContext.forward_analyis / backward_analysis (generic.py) take a list of keys: the
state is a dictionary key -> (block -> value), the body of the `while worklist:` loop recomputes the block for EVERY key
(`for key in analysis_keys:` in _merge_information_forward / _merge_information_backward), the flag `updated` is
accumulated over the keys, and the successors / predecessors of the block are put back on the worklist when the value
of ANY key changed.  run_analysis calls the pair (forward_analyis, backward_analysis) twice: for list(self.BASE_KEYS)
and for gtx_keys.

Where the pieces are regenerated.
  * The loops themselves are ALREADY translated for a key list by tools/translate_solver.py (Gen/SolverGen.v:
    merge_information_forward_gen / forward_analyis_loop_gen / forward_analyis_gen and the backward ones take
    `analysis_keys : list string`, the state is gdict = list (string * state T), the domain operations are indexed by
    the key).  They are not repeated here: the checks of translate_solver / translate_run are re-run (fail-closed) and
    Lemmas/JointGenLemmas.v states the joint theorems about those very functions.
  * NEW here: the slice of run_analysis that makes ONE joint pass,
        worklist = [] ; for l in postorder: worklist += l[::-1]
        self.forward_analyis(analysis_keys, worklist)
        worklist = [] ; for l in postorder: worklist += [b for b in l if not leaf_block_global(b)]
        self.backward_analysis(analysis_keys, worklist)
    is emitted as joint_pass_gen (parameters: the key list, the list of post-orders, self._block_contexts, the
    iteration budget).  The slice is translated by the statement translator of tools/translate_run.py (same reading:
    see its module docstring); the constructions of `worklist` are the definitions forward_worklist_gen /
    backward_worklist_gen of Gen/RunGen.v (called, not repeated).  Checked on the source:
      - run_analysis contains exactly TWO such slices, with the same text (logging apart);
      - in a slice both calls take the same key-list variable, which the slice does not re-bind, and each call takes
        the list `worklist` built by the statements just before it;
      - the free variables of the slice are the key list and the list of post-orders (and self).
    Lemmas/JointGenLemmas.v proves joint_pass_gen = the hand-written RunGenLemmas.pass_gen, so that
    RunGenLemmas.run_analysis_gen_unfold decomposes run_analysis_gen into two calls of joint_pass_gen.

Fail-closed: anything else raises TranslateError.
"""
import ast
import os
import re
import sys

from tcommon import TranslateError, fail, parse, strip_doc, T
from translate_keys import check_imports, indent
from translate_asserted import find_class, bound_names, is_self_call, check_methods, check_no_override
import translate_graph as TG
import translate_solver as TS
import translate_run as TR

GEN_REL = TG.GEN_REL
SELF_CTX = TR.SELF_CTX
PASS_GEN = "joint_pass_gen"
CONSUMERS = ("forward_analyis", "backward_analysis")

# the Section variables of Gen/RunGen.v, in declaration order, and the Section variables their types mention
SECTION_VARS = ["T", "t_eqb", "univ", "null", "union", "inter", "single", "f", "BASE_KEYS", "KEYS_WITH_GTXN", "indices"]
TYPE_DEPS = {"t_eqb": ["T"], "univ": ["T"], "null": ["T"], "union": ["T"], "inter": ["T"], "single": ["T"]}
# the definitions of the fixed PRELUDE of Gen/RunGen.v that a pass calls: name -> the Section variables it is discharged over
PRELUDE_CALLS = {
    "call_forward_analyis": ["T", "t_eqb", "univ", "null", "union", "inter", "single", "f"],
    "call_backward_analysis": ["T", "t_eqb", "univ", "null", "union", "inter", "f"],  # both univ and null: tcommon.pin_twins
}
RESERVED = set(TR.RESERVED) | {PASS_GEN}


def discharged_over(text):
    """the Section variables of Gen/RunGen.v a definition with this text is generalised over at `End RunGen`: the ones
    that occur in it (and the ones their types mention), in declaration order.  A wrong answer makes Gen/JointGen.v
    ill-typed (the build stops)."""
    toks = set(re.findall(r"[A-Za-z_][A-Za-z_0-9']*", text))
    used = {v for v in SECTION_VARS if v in toks}
    for v in list(used):
        used |= set(TYPE_DEPS.get(v, []))
    return [v for v in SECTION_VARS if v in used]


def consumer_call(st):
    """`self.forward_analyis(K, W)` / `self.backward_analysis(K, W)` as a statement -> (method, K, W) else None"""
    c = st.value if isinstance(st, ast.Expr) else None
    if c is not None and is_self_call(c) and c.func.attr in CONSUMERS:
        if c.keywords or len(c.args) != 2 or not all(isinstance(a, ast.Name) for a in c.args):
            return (c.func.attr, None, None)
        return (c.func.attr, c.args[0].id, c.args[1].id)
    return None


def find_passes(env, gp, fn, body):
    """the joint passes of run_analysis -> list of (statements of the slice with the logging statements dropped, line)"""
    stmts = [s for s in body if not TR.logging_only(s)]
    out = []
    i = 0
    seen_calls = 0
    while i < len(stmts):
        st = stmts[i]
        cc = consumer_call(st)
        if cc is not None:
            # a call that is not part of a slice recognised below
            fail(gp, st, f"self.{cc[0]}(..) outside the slice `worklist = ..; self.forward_analyis(keys, worklist); worklist = ..; self.backward_analysis(keys, worklist)`")
        sl = TR.slice_at(env, stmts[i:])
        if sl is None or sl[2] not in TR.WORKLIST_SLICES.values():
            i += 1
            continue
        v, n, gen = sl
        if gen != TR.WORKLIST_SLICES["forward_analyis"]:
            fail(gp, st, "a worklist for backward_analysis that does not follow a call of forward_analyis")
        j = i + n
        c1 = consumer_call(stmts[j]) if j < len(stmts) else None
        if c1 is None or c1[0] != "forward_analyis" or c1[1] is None or c1[2] != v:
            fail(gp, st, "the worklist is not passed to self.forward_analyis(<keys>, worklist) by the next statement")
        k = j + 1
        sl2 = TR.slice_at(env, stmts[k:]) if k < len(stmts) else None
        if sl2 is None or sl2[2] != TR.WORKLIST_SLICES["backward_analysis"] or sl2[0] != v:
            fail(gp, stmts[j], "self.forward_analyis(..) is not followed by the construction of the worklist of self.backward_analysis")
        m = k + sl2[1]
        c2 = consumer_call(stmts[m]) if m < len(stmts) else None
        if c2 is None or c2[0] != "backward_analysis" or c2[2] != v:
            fail(gp, stmts[k], "the worklist is not passed to self.backward_analysis(<keys>, worklist) by the next statement")
        if c2[1] != c1[1]:
            fail(gp, stmts[m], f"forward_analyis and backward_analysis of one pass take different key lists ({c1[1]}, {c2[1]})")
        seg = stmts[i : m + 1]
        for s in seg:
            for node in ast.walk(s):
                if isinstance(node, ast.Name) and node.id == c1[1] and not isinstance(node.ctx, ast.Load):
                    fail(gp, node, f"the pass re-binds its key list {c1[1]}")
        out.append((seg, st.lineno, c1[1], v))
        seen_calls += 2
        i = m + 1
    total = sum(1 for s in ast.walk(fn) if isinstance(s, ast.Call) and is_self_call(s) and s.func.attr in CONSUMERS)
    if total != seen_calls:
        fail(gp, fn, f"run_analysis calls forward_analyis / backward_analysis {total} times, {seen_calls} of them in joint passes")
    return out


def emit_joint(outdir):
    gp = os.path.join(T, GEN_REL)
    gtree = parse(gp)
    # the readings this file relies on: the object graph, the solver (key-list loops), the orchestration
    TG.check_fingerprints()
    TS.check_fingerprints()
    TR.check_fingerprints()
    check_imports(
        gp,
        gtree,
        {
            **{n: TR.UA_MODULE + "." + n for n in TG.GRAPH_FUNCS},
            "leaf_block_global": TR.UA_MODULE + ".leaf_block_global",
            "defaultdict": "collections.defaultdict",
        },
    )
    cls = find_class(gtree, "DataflowTransactionContext", gp)
    check_methods(gp, cls)
    TG.check_init(gp, cls)
    TS.check_block_contexts(gp, cls)
    TR.check_class_attributes(gp, gtree, cls)
    for m in list(TS.METHODS) + list(TS.NEIGHBOURHOOD) + ["run_analysis"]:
        check_no_override(m)
    gbound = bound_names(gtree)
    # the key-list loops are accepted by the solver translator, run_analysis by the orchestration translator
    for name in TS.METHODS:
        TS.emit_method([].append, gp, cls, gbound, name)
    TR.emit_run([].append, gp, cls, gbound)

    fn = TG.find_method(gp, cls, "run_analysis")
    TG.signature(gp, fn, [("self", None)], "None")
    body = strip_doc(fn.body)
    probe = TR.Env(gp, gbound, True)
    probe.slices = {}
    passes = find_passes(probe, gp, fn, body)
    if len(passes) != 2:
        fail(gp, fn, f"run_analysis contains {len(passes)} joint passes (forward_analyis + backward_analysis on one key list), expected 2")
    dumps = ["\n".join(ast.dump(s) for s in seg) for seg, _, _, _ in passes]
    if dumps[0] != dumps[1]:
        fail(gp, passes[1][0][0], f"the two joint passes of run_analysis differ from each other (first one at line {passes[0][1]})")
    seg, line, kvar, wvar = passes[0]
    stored = {n.id for s in seg for n in ast.walk(s) if isinstance(n, ast.Name) and not isinstance(n.ctx, ast.Load)}
    loaded = {n.id for s in seg for n in ast.walk(s) if isinstance(n, ast.Name) and isinstance(n.ctx, ast.Load)}
    free = sorted(loaded - stored - {"self", "leaf_block_global"})
    others = [x for x in free if x != kvar]
    if kvar not in free or len(others) != 1:
        fail(gp, seg[0], f"the free variables of a joint pass are {free}, expected the key list and the list of post-orders")
    pvar = others[0]
    for x in (kvar, pvar, wvar):
        if x in RESERVED or x.startswith("tmp") or not x.isidentifier() or not x.isascii():
            fail(gp, seg[0], f"variable name {x} is reserved by the translator")

    env = TR.Env(gp, gbound, True)
    env.vars = {kvar: TR.LKEY, pvar: TR.LLBLK, SELF_CTX: TR.GDICT}
    env.fuel_stmts = True
    env.slices = {}
    term = TR.block(env, seg, lambda env2: f"(ret (Some {SELF_CTX}))")
    want = set(TR.WORKLIST_SLICES.values())
    if set(env.slices) != want or env.aux:
        fail(gp, seg[0], f"a joint pass must build exactly the lists {sorted(want)}")
    for gen, info in env.slices.items():
        if info["params"] != [(pvar, TR.LLBLK)] or info["type"] != TR.LBLK or info["fuel"]:
            fail(gp, seg[0], f"the construction of the worklist ({gen}) does not depend on the list of post-orders only")

    L = []
    w = L.append
    w("(* GENERATED by tools/translate.py (translate_joint) from /repo/tealer -- do not edit *)")
    w("(* transaction_context/generic.py: the JOINT PASS of DataflowTransactionContext.run_analysis -- one forward and one backward")
    w("   worklist iteration for a LIST of analysis keys on one shared worklist.  The loops (forward_analyis, backward_analysis,")
    w("   _merge_information_forward/_backward, for a key list) are Gen/SolverGen.v, the worklists Gen/RunGen.v; the slice of")
    w("   run_analysis that makes one pass is translated here, statement by statement.  See tools/translate_joint.py. *)")
    w("From Coq Require Import String List NArith ZArith Bool Arith.")
    w("From Tealer Require Import Tables Syntax Cfg StackAst Keys KeysGen Analysis AssertedGen GraphGen SolverGen ConstraintsGen RunGen.")
    w("Import ListNotations.")
    w("Open Scope list_scope.")
    w("")
    w("(* the abstract methods of DataflowTransactionContext indexed by the analysis key, the function under analysis and")
    w("   Python's == on domain values: the Section variables of Gen/SolverGen.v / Gen/RunGen.v *)")
    w("Section JointGen.")
    w("  Variable T : Type.")
    w("  Variable t_eqb : T -> T -> bool.")
    w("  Variable univ null : string -> T.")
    w("  Variable union inter : string -> T -> T -> T.")
    w("  Variable single : string -> instr -> nat -> list sval -> T * T.")
    w("  Variable f : func.")
    w("")
    w("  (* the definitions of Gen/RunGen.v a pass calls, applied to the Section variables they are generalised over *)")
    for name, vs in PRELUDE_CALLS.items():
        w(f"  Local Notation {name} := (RunGen.{name} {' '.join(vs)}).")
    for gen in sorted(env.slices):
        vs = discharged_over(env.slices[gen]["text"])
        if any(v in ("BASE_KEYS", "KEYS_WITH_GTXN", "indices") for v in vs):
            fail(gp, seg[0], f"the construction of the worklist ({gen}) reads {vs}")
        w(f"  Local Notation {gen} := (RunGen.{gen}{''.join(' ' + v for v in vs)}).")
    w("")
    w("  (* ====================================================================== *)")
    w("  (* TRANSLATED function                                                      *)")
    w("  (* ====================================================================== *)")
    w(f"  (* {GEN_REL}: DataflowTransactionContext.run_analysis, the joint pass (lines {passes[0][1]} and {passes[1][1]}: same text);")
    w("     returns the final state of self._block_contexts; Some None: the iteration budget `fuel` of a while loop is exhausted *)")
    w(f"  Definition {PASS_GEN} (fuel : nat) ({kvar} : list string) ({pvar} : list (list nat)) ({SELF_CTX} : gdict T) : py (option (gdict T)) :=\n{indent(term, 4)}.")
    w("")
    w("End JointGen.")
    os.makedirs(outdir, exist_ok=True)
    with open(os.path.join(outdir, "JointGen.v"), "w") as fh:
        fh.write("\n".join(L) + "\n")
    return 1


def main():
    outdir = sys.argv[1] if len(sys.argv) > 1 else os.path.join(os.path.dirname(os.path.abspath(__file__)), "..", "coq", "Gen")
    try:
        n = emit_joint(outdir)
    except TranslateError as e:
        print(str(e))
        sys.exit(2)
    print(f"translate_joint: {n} joint-pass function -> {outdir}/JointGen.v")


if __name__ == "__main__":
    main()
