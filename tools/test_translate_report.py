#!/venv/bin/python
"""Self-test of tools/translate_report.py (the regenerated report producers, Gen/ReportGen.v).

(a) runs the translator on the clean source ($VERIF_REPO, default /tmp/cleanrepo) and checks that the output is the
    committed coq/Gen/ReportGen.v, compiles, and that Lemmas/ReportGenLemmas.v compiles against it;
(b) applies small mutations to a scratch copy of utils/output.py / __main__.py / the printers and shows that, for each,
    either the translator stops (TranslateError) or the generated Gallina differs AND Lemmas/ReportGenLemmas.v no longer
    compiles against it.

Precondition: coq/ has been built (`make`).  Every coqc runs under `timeout`.  Exit status 0 iff every row has the
expected verdict.

usage: VERIF_REPO=/tmp/cleanrepo /venv/bin/python tools/test_translate_report.py [-v]
"""
import ast
import os
import re
import shutil
import subprocess
import sys
import tempfile

HERE = os.path.dirname(os.path.abspath(__file__))
ROOT = os.path.dirname(HERE)
COQ = os.path.join(ROOT, "coq")
PY = "/venv/bin/python"
REPO = os.environ.get("VERIF_REPO", "/tmp/cleanrepo")

OUT = "tealer/utils/output.py"
MAIN = "tealer/__main__.py"
TC = "tealer/printers/transaction_context.py"
HS = "tealer/printers/human_summary.py"
BB = "tealer/teal/basic_blocks.py"
TEALER = "tealer/tealer.py"


def sh(cmd, cwd=None, env=None):
    e = dict(os.environ)
    if env:
        e.update(env)
    p = subprocess.run(cmd, shell=True, cwd=cwd, stdout=subprocess.PIPE, stderr=subprocess.STDOUT, env=e, check=False)
    return p.returncode, p.stdout.decode(errors="replace")


# ----------------------------------------------------------------------------- mutations (text -> text)
def replace_once(src, old, new):
    if src.count(old) != 1:
        raise RuntimeError(f"mutation anchor found {src.count(old)} times: " + old[:60])
    return src.replace(old, new, 1)


TO_JSON_COUNT = '            "type": "ExecutionPaths",\n            "count": len(self.paths),\n'


def mut_count_blocks(src):
    """(i) to_json: count = number of blocks of the first path instead of the number of paths"""
    return replace_once(src, TO_JSON_COUNT, '            "type": "ExecutionPaths",\n            "count": len(self.paths[0]),\n')


def mut_paths_reversed(src):
    """(ii) to_json: the paths are listed in reverse order"""
    return replace_once(src, "        paths = []\n        for path in self.paths:\n            short = \" -> \".join(map(str, [bb.idx for bb in path]))\n",
                        "        paths = []\n        for path in self.paths[::-1]:\n            short = \" -> \".join(map(str, [bb.idx for bb in path]))\n")


def mut_paths_prepended(src):
    """(ii') to_json: each path is put in front of the list"""
    return replace_once(src, '            paths.append({"short": short, "blocks": blocks})\n', '            paths = [{"short": short, "blocks": blocks}] + paths\n')


FILTER_BLOCK = (
    "            if args.filter_paths is not None:\n                for detector_result in results_detectors:\n"
    "                    if isinstance(detector_result, ExecutionPaths):\n                        detector_result.filter_paths(args.filter_paths)\n"
    "                    else:\n                        for result in detector_result:\n                            result.filter_paths(args.filter_paths)\n"
)


def mut_filter_after_report(src):
    """(iii) main: --filter-paths is applied after the report (after handle_output counted and listed the paths)"""
    s = replace_once(src, FILTER_BLOCK, "")
    new = "\n".join(l[8:] if l.startswith("        ") else l for l in FILTER_BLOCK.split("\n"))
    return replace_once(s, "        handle_output(args, results_detectors, tealer.contracts[contract_name], error)\n",
                        "        handle_output(args, results_detectors, tealer.contracts[contract_name], error)\n" + new.replace("    if args.filter_paths", "    if args.filter_paths", 1))


def mut_filter_empty_pattern(src):
    """(iii') main: the outputs are filtered with the empty pattern (nothing is removed before counting)"""
    return replace_once(src, "                            result.filter_paths(args.filter_paths)\n", "                            result.filter_paths(\"\")\n")


def mut_success_always(src):
    """(iv) handle_output: success is true on error"""
    return replace_once(src, '            "success": error is None,\n', '            "success": True,\n')


def mut_drop_without_paths(src):
    """(v) handle_output: a result without paths is not listed"""
    return replace_once(src, "        json_results = [output.to_json() for output in expanded_detector_results]\n",
                        "        json_results = [output.to_json() for output in expanded_detector_results if output.paths]\n")


def mut_drop_multiple(src):
    """(v') handle_output: the results of a detector are listed only when it returned exactly one output"""
    return replace_once(src, "    for result in detector_results:\n        expanded_detector_results.extend(result)\n",
                        "    for result in detector_results:\n        if len(result) == 1:\n            expanded_detector_results.extend(result)\n")


def mut_group_sizes_for_index(src):
    """(vi) transaction-context printer: GroupIndex is computed from group_sizes"""
    return replace_once(src, "group_indices_str = self._repr_num_list(contexts[bb.idx].group_indices)", "group_indices_str = self._repr_num_list(contexts[bb.idx].group_sizes)")


def mut_impact_confidence(src):
    """(x1) to_json: impact and confidence swapped"""
    s = replace_once(src, '            "impact": str(self.detector.IMPACT),\n            "confidence": str(self.detector.CONFIDENCE),\n            "help": self.detector.WIKI_RECOMMENDATION.strip(),\n        }\n        paths = []',
                     '            "impact": str(self.detector.CONFIDENCE),\n            "confidence": str(self.detector.IMPACT),\n            "help": self.detector.WIKI_RECOMMENDATION.strip(),\n        }\n        paths = []')
    return s


def mut_short_separator(src):
    """(x2) to_json: short notation joined with ", " """
    return replace_once(src, '            short = " -> ".join(map(str, [bb.idx for bb in path]))\n', '            short = ", ".join(map(str, [bb.idx for bb in path]))\n')


def mut_row_template(src):
    """(x3) to_json: the row template is edited"""
    return replace_once(src, 'block.append(f"{ins.line}: {ins}")', 'block.append(f"{ins.line} {ins}")')


def mut_exit_status(src):
    """(x4) handle_output: exit status 0 on error"""
    return replace_once(src, "            sys.exit(-1)\n", "            sys.exit(0)\n")


def mut_zero_inverted(src):
    """(x5) handle_output: the detectors WITH results are reported as having none"""
    return replace_once(src, "            if not output.generate_output(output_directory):\n", "            if output.generate_output(output_directory):\n")


def mut_error_test(src):
    """(x6) main: `if error is not None or ..`"""
    return replace_once(src, '    if error or args.subcommand == "detect":\n', '    if error is not None or args.subcommand == "detect":\n')


def mut_stdout_swapped(src):
    """(x7) handle_output: the document goes to stdout when a file name is given"""
    return replace_once(src, '        if args.json == "-":\n', '        if args.json != "-":\n')


def mut_key_renamed(src):
    """(x8) handle_output: key "result" renamed"""
    return replace_once(src, '            "result": json_results,\n', '            "results": json_results,\n')


def mut_append_in_inner_loop(src):
    """(x9) to_json: the path entry is appended once per block"""
    return replace_once(src, '                blocks.append(block)\n\n            paths.append({"short": short, "blocks": blocks})\n',
                        '                blocks.append(block)\n                paths.append({"short": short, "blocks": blocks})\n')


def mut_blocks_not_reset(src):
    """(x10) to_json: `blocks` is not reset per path"""
    s = replace_once(src, '            short = " -> ".join(map(str, [bb.idx for bb in path]))\n            blocks = []\n', '            short = " -> ".join(map(str, [bb.idx for bb in path]))\n')
    return replace_once(s, "        paths = []\n        for path in self.paths:\n            short", "        paths = []\n        blocks = []\n        for path in self.paths:\n            short")


def mut_error_dropped(src):
    """(x11) handle_output: "error" is always null"""
    return replace_once(src, '            "error": error,\n', '            "error": None,\n')


def mut_text_error_ignored(src):
    """(x12) handle_output: in text mode the error is not tested"""
    return replace_once(src, "        if error is not None:\n            print(f\"Error: {error}\")\n            sys.exit(-1)\n", "")


def mut_count_after_set(src):
    """(x13) to_json: "check" reads the description"""
    return replace_once(src, '            "check": self.detector.NAME,\n            "impact": str(self.detector.IMPACT),\n            "confidence": str(self.detector.CONFIDENCE),\n            "help": self.detector.WIKI_RECOMMENDATION.strip(),\n        }\n        paths = []',
                        '            "check": detector_terminal_description(self.detector),\n            "impact": str(self.detector.IMPACT),\n            "confidence": str(self.detector.CONFIDENCE),\n            "help": self.detector.WIKI_RECOMMENDATION.strip(),\n        }\n        paths = []')


def mut_new_output_class(src):
    """(s1) a fourth subclass of Output"""
    return replace_once(src, "ListOutput = List[Output]\n", "class ExtraOutput(ExecutionPaths):\n    def to_json(self) -> Dict:\n        return {}\n\n\nListOutput = List[Output]\n")


def mut_other_filter(src):
    """(s2) GroupTransactionOutput.filter_paths does something"""
    return replace_once(src, "    def filter_paths(self, filter_regex: str) -> None:\n        pass\n\n    def to_json(self) -> Dict:\n        transactions = {}",
                        "    def filter_paths(self, filter_regex: str) -> None:\n        self._transactions = {}\n\n    def to_json(self) -> Dict:\n        transactions = {}")


def mut_run_detectors(src):
    """(s3, tealer.py) run_detectors returns the results in reverse order"""
    return replace_once(src, "            results.append(d.detect())\n\n        return results\n", "            results.append(d.detect())\n\n        return results[::-1]\n")


def mut_description(src):
    """(s4) detector_terminal_description edited"""
    return replace_once(src, 'f"Description: {detector.DESCRIPTION}\\n\\n"', 'f"Description: {detector.NAME}\\n\\n"')


def mut_instructions_prop(src):
    """(s5, basic_blocks.py) BasicBlock.instructions edited"""
    return replace_once(src, "        return self._instructions\n", "        return self._instructions[1:]\n")


def mut_second_handle_output(src):
    """(s6) main calls handle_output a second time"""
    return replace_once(src, "            _results_printers = tealer.run_printers()\n            return\n",
                        "            _results_printers = tealer.run_printers()\n            handle_output(args, [], tealer.contracts[contract_name], None)\n            return\n")


def mut_args_other_field(src):
    """(s7) handle_output reads another field of args"""
    return replace_once(src, '        if args.json == "-":\n', '        if args.json == "-" or args.debug:\n')


def mut_info_guard_dropped(src):
    """(p1) transaction-context: the `bb.idx not in contexts` guard is dropped"""
    return replace_once(src, "            if bb.idx not in contexts:\n                # block is not part of the function (e.g. a subroutine that is only called from unreachable code)\n                return []\n", "")


def mut_threshold(src):
    """(p2) _repr_num_list: runs of 3 are shortened"""
    return replace_once(src, "            if len(seq) >= 4:\n", "            if len(seq) >= 3:\n")


def mut_not_sorted(src):
    """(p3) _repr_num_list: the values are not sorted"""
    return replace_once(src, "        values = sorted(values)\n", "        values = values\n")


def mut_summary_swapped(src):
    """(p4) human-summary: blocks / instructions counts swapped"""
    s = replace_once(src, 'txt += f"Number of basic blocks: {len(teal.bbs)}\\n"', 'txt += f"Number of basic blocks: {len(teal.INS)}\\n"')
    s = replace_once(s, 'txt += f"Number of instructions: {len(teal.instructions)}\\n"', 'txt += f"Number of instructions: {len(teal.bbs)}\\n"')
    return s.replace("teal.INS", "teal.instructions")


def mut_summary_sub_blocks(src):
    """(p5) human-summary: every subroutine is shown with the blocks of the first one"""
    return replace_once(src, "teal.subroutines[sub_name].blocks", "list(teal.subroutines.values())[0].blocks")


def mut_comments_not_set(src):
    """(p6) transaction-context: config.bb_additional_comments is not assigned"""
    return replace_once(src, "        config.bb_additional_comments = get_info\n", "")


def mut_sizes_order(src):
    """(p7) transaction-context: GroupSize listed before GroupIndex"""
    return replace_once(src, 'return [f"GroupIndex: {group_indices_str}", f"GroupSize: {group_sizes_str}"]', 'return [f"GroupSize: {group_sizes_str}", f"GroupIndex: {group_indices_str}"]')


def mut_run_join(src):
    """(p8) _repr_num_list: a run continues on equal values only"""
    return replace_once(src, "            elif sequences[-1][-1] == (i - 1):\n", "            elif sequences[-1][-1] == i:\n")


MUTATIONS = [
    ("(i) to_json: count = number of blocks of a path", OUT, mut_count_blocks),
    ("(ii) to_json: paths listed in reverse order (slice)", OUT, mut_paths_reversed),
    ("(ii') to_json: each path put in front", OUT, mut_paths_prepended),
    ("(iii) main: filter applied after the report", MAIN, mut_filter_after_report),
    ("(iii') main: outputs filtered with the empty pattern", MAIN, mut_filter_empty_pattern),
    ("(iv) handle_output: success true on error", MAIN, mut_success_always),
    ("(v) handle_output: result without paths not listed", MAIN, mut_drop_without_paths),
    ("(v') handle_output: results dropped unless exactly one", MAIN, mut_drop_multiple),
    ("(vi) transaction-context: GroupIndex from group_sizes", TC, mut_group_sizes_for_index),
    ("(x1) to_json: impact / confidence swapped", OUT, mut_impact_confidence),
    ("(x2) to_json: short notation separator", OUT, mut_short_separator),
    ("(x3) to_json: row template edited", OUT, mut_row_template),
    ("(x4) handle_output: exit status 0 on error", MAIN, mut_exit_status),
    ("(x5) handle_output: zero-result test inverted", MAIN, mut_zero_inverted),
    ("(x6) main: `error is not None or ..`", MAIN, mut_error_test),
    ("(x7) handle_output: stdout / file swapped", MAIN, mut_stdout_swapped),
    ("(x8) handle_output: key renamed", MAIN, mut_key_renamed),
    ("(x9) to_json: path appended once per block", OUT, mut_append_in_inner_loop),
    ("(x10) to_json: blocks not reset per path", OUT, mut_blocks_not_reset),
    ("(x11) handle_output: error always null", MAIN, mut_error_dropped),
    ("(x12) handle_output: error ignored in text mode", MAIN, mut_text_error_ignored),
    ("(x13) to_json: check = description", OUT, mut_count_after_set),
    ("(s1) new subclass of Output", OUT, mut_new_output_class),
    ("(s2) GroupTransactionOutput.filter_paths edited", OUT, mut_other_filter),
    ("(s3) Tealer.run_detectors edited", TEALER, mut_run_detectors),
    ("(s4) detector_terminal_description edited", OUT, mut_description),
    ("(s5) BasicBlock.instructions edited", BB, mut_instructions_prop),
    ("(s6) second call of handle_output in main", MAIN, mut_second_handle_output),
    ("(s7) handle_output reads args.debug", MAIN, mut_args_other_field),
    ("(p1) transaction-context: guard for foreign blocks dropped", TC, mut_info_guard_dropped),
    ("(p2) _repr_num_list: threshold 3", TC, mut_threshold),
    ("(p3) _repr_num_list: not sorted", TC, mut_not_sorted),
    ("(p4) human-summary: block / instruction counts swapped", HS, mut_summary_swapped),
    ("(p5) human-summary: blocks of the first subroutine", HS, mut_summary_sub_blocks),
    ("(p6) transaction-context: comments closure not installed", TC, mut_comments_not_set),
    ("(p7) transaction-context: GroupSize before GroupIndex", TC, mut_sizes_order),
    ("(p8) _repr_num_list: run continues on equal values", TC, mut_run_join),
]



# ----------------------------------------------------------------------------- one run
def enclosing(vfile, line):
    name = "?"
    with open(vfile, encoding="utf-8") as f:
        for i, l in enumerate(f, 1):
            m = re.match(r"\s*(Lemma|Theorem|Corollary|Definition|Example)\s+(\w+)", l)
            if m and i <= line:
                name = m.group(2)
            if i > line:
                break
    return name


def run_case(work, scratch, rel=None, mutate=None):
    """-> dict(translator=..., text=..., gen_ok=..., lemmas_ok=..., where=..., log=...)"""
    gen = os.path.join(work, "Gen")
    lem = os.path.join(work, "Lemmas")
    os.makedirs(gen)
    os.makedirs(lem)
    path, orig = None, None
    if mutate:
        path = os.path.join(scratch, rel)
        with open(path, encoding="utf-8") as fh:
            orig = fh.read()
        new = mutate(orig)
        if new == orig:
            raise RuntimeError("mutation did not change the source")
        ast.parse(new)  # the mutant is valid Python
        with open(path, "w", encoding="utf-8") as fh:
            fh.write(new)
    try:
        rc, out = sh(f"{PY} {HERE}/translate_report.py {gen}", env={"VERIF_REPO": scratch})
    finally:
        if path:
            with open(path, "w", encoding="utf-8") as fh:
                fh.write(orig)
    res = {"translator": "ok" if rc == 0 else "STOPPED", "log": out.strip().replace(scratch + "/", ""), "text": None, "gen_ok": None, "lemmas_ok": None, "where": None}
    if rc != 0:
        if rc != 2 or "translator:" not in out:
            res["translator"] = "CRASHED"
        return res
    with open(os.path.join(gen, "ReportGen.v"), encoding="utf-8") as fh:
        res["text"] = fh.read()
    # the other generated files are taken (compiled) from the built tree
    for f in os.listdir(os.path.join(COQ, "Gen")):
        if f.endswith(".vo") and f != "ReportGen.vo":
            os.symlink(os.path.join(COQ, "Gen", f), os.path.join(gen, f))
    lemv = os.path.join(lem, "ReportGenLemmas.v")
    shutil.copy(os.path.join(COQ, "Lemmas", "ReportGenLemmas.v"), lemv)
    q = f"-Q {COQ}/Model Tealer -Q {gen} Tealer -Q {COQ}/Spec Tealer -Q {COQ}/Lemmas Tealer"
    rc, out = sh(f"timeout 300 coqc {q} {gen}/ReportGen.v 2>&1")
    res["gen_ok"] = rc == 0
    res["log"] += "\n" + out[-1500:]
    if rc == 0:
        rc, out = sh(f"timeout 900 coqc {q} {lemv} 2>&1")
        res["lemmas_ok"] = rc == 0
        res["log"] += "\n" + out[-1500:]
        if rc != 0:
            m = re.search(r"line (\d+), characters", out)
            res["where"] = f"{enclosing(lemv, int(m.group(1)))} (line {m.group(1)})" if m else ("timeout" if rc == 124 else "?")
    return res


def main():
    verbose = "-v" in sys.argv
    for f in ("Model/Output.vo", "Gen/KeysGen.vo", "Gen/ReportGen.vo", "Lemmas/OutputLemmas.vo", "Lemmas/ReportGenLemmas.vo", "Lemmas/VersionGenLemmas.vo"):
        if not os.path.exists(os.path.join(COQ, f)):
            print(f"precondition: {COQ}/{f} missing -- build coq/ first (make)")
            sys.exit(3)
    top = tempfile.mkdtemp(prefix="treport_")
    scratch = os.path.join(top, "repo")
    shutil.copytree(os.path.join(REPO, "tealer"), os.path.join(scratch, "tealer"), ignore=shutil.ignore_patterns("__pycache__"))
    rows = []
    ok = True
    try:
        base = run_case(os.path.join(top, "base"), scratch)
        same = None
        cur = os.path.join(COQ, "Gen", "ReportGen.v")
        if base["text"] is not None and os.path.exists(cur):
            with open(cur, encoding="utf-8") as fh:
                same = fh.read() == base["text"]
        good = base["translator"] == "ok" and base["gen_ok"] and base["lemmas_ok"] and same is True
        ok &= bool(good)
        rows.append(("(a) clean source", base["translator"], "= coq/Gen/ReportGen.v" if same else ("DIFFERS from coq/Gen" if same is False else "-"), base["gen_ok"], base["lemmas_ok"], "PASS" if good else "FAIL"))
        if verbose or not good:
            print(base["log"])
        only = [x for x in os.environ.get("ONLY", "").split(",") if x]
        for i, (name, rel, fn) in enumerate(MUTATIONS):
            if only and not any(name.startswith(x) for x in only):
                continue
            r = run_case(os.path.join(top, f"m{i}"), scratch, rel, fn)
            if r["translator"] == "STOPPED":
                verdict, good, diff = "caught: translator stops", True, "-"
            elif r["translator"] == "CRASHED":
                verdict, good, diff = "FAIL: translator crashed", False, "-"
            else:
                differs = r["text"] != base["text"]
                diff = "differs" if differs else "IDENTICAL"
                if differs and r["gen_ok"] and r["lemmas_ok"] is False:
                    verdict, good = f"caught: lemmas break in {r['where']}", True
                elif differs and not r["gen_ok"]:
                    verdict, good = "caught: ReportGen.v ill-typed", True
                else:
                    verdict, good = "FAIL: NOT DETECTED", False
            ok &= good
            rows.append((name, r["translator"], diff, r["gen_ok"], r["lemmas_ok"], verdict))
            if verbose or not good:
                print(f"--- {name}\n{r['log']}\n")
            elif r["translator"] == "STOPPED":
                print(f"--- {name}: {r['log'].splitlines()[0][:260]}")
    finally:
        shutil.rmtree(top, ignore_errors=True)
    hdr = ("case", "translator", "generated Gallina", "ReportGen.v compiles", "ReportGenLemmas.v compiles", "verdict")
    fmt = lambda x: "-" if x is None else ("yes" if x is True else ("NO" if x is False else str(x)))  # noqa: E731
    table = [hdr] + [tuple(fmt(c) for c in r) for r in rows]
    widths = [max(len(r[i]) for r in table) for i in range(len(hdr))]
    print()
    for k, r in enumerate(table):
        print(" | ".join(c.ljust(w) for c, w in zip(r, widths)))
        if k == 0:
            print("-+-".join("-" * w for w in widths))
    print("\nRESULT:", "all mutations caught, clean source accepted" if ok else "FAILURE")
    sys.exit(0 if ok else 1)


if __name__ == "__main__":
    main()
