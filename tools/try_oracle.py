import sys, random, json, time, collections
sys.path.insert(0, '/verif/tools')
import gen, corr, oracle
seed=int(sys.argv[1]); n=int(sys.argv[2]); which=sys.argv[3]; nenv=int(sys.argv[4]) if len(sys.argv)>4 else 60
rng=random.Random(seed)
reqs=[]
if which=="adv":
    for name,text in gen.adversarial_programs(): reqs.append(("analyze",name,text,[]))
elif which=="random":
    for k in range(n):
        text,feats=gen.random_program(rng, kf_free=True); reqs.append(("analyze",f"r{k}",text,[]))
elif which=="micro":
    for k,(name,text) in enumerate(gen.micro_programs()): reqs.append(("analyze",name,text,[]))
    reqs=reqs[::max(1,len(reqs)//n)]
m,i=corr.run_both(reqs)
tot=collections.Counter(); nv=0
for kind,rid,text,_ in reqs:
    envs=oracle.make_envs(text,rng,nenv)
    v,st=oracle.check_program(text,i[rid],envs)
    tot.update(st)
    if v:
        nv+=1
        if nv<=int(sys.argv[5]) if len(sys.argv)>5 else 8:
            print("=====",rid); print(text.replace("\n","; ")[:600])
            for x in v[:4]: print("   ",x["property"],x["what"][:200])
print(len(reqs),"programs;",nv,"with violations;",dict(tot))
