#!/venv/bin/python
"""Statement-by-statement translation of the version / mode / cost reporting logic of tealer into Gallina
(Gen/VersionGen.v).

Translated (read with `ast` only, never imported):
  teal/parse_teal.py   _detect_execution_mode                                   -> detect_execution_mode_gen
  teal/parse_teal.py   _verify_version                                          -> verify_version_gen
  teal/parse_teal.py   parse_teal, the statements from `mode = ..` to
                       `_verify_version(instructions, version)` (the declared
                       version, the calls of the two functions above)           -> parse_teal_version_gen
  teal/teal.py         Teal.__init__, the statement that sets _contract_type    -> teal_init_contract_type_gen
  teal/basic_blocks.py BasicBlock.cost                                          -> bb_cost_gen
The hand-written counterparts are Model/Cfg.v: detect_mode, verify_ins / verify_version, the `version` of parse_teal,
block_cost, and Model/Driver.v ("contract_type"); Lemmas/VersionGenLemmas.v proves generated = hand-written.

Reading of Python in Gallina.  The exception monad (`py A := option A`, ret, bind, ifE, andE, orE, notE) is the one of
the fixed prelude of Gen/KeysGen.v; the object graph is the one of Gen/CfgGen.v (tools/translate_cfg.py):
  * an Instruction object is its POSITION k in the parsed instruction list `p : Cfg.prog`; the list object `instructions`
    of parse_teal is `seq 0 (length p)` at the point where the translated statements run (CfgGenLemmas.first_pass_gen_spec;
    the statements of parse_teal that precede the translated slice are fingerprinted: PARSE_TEAL_PREFIX).
  * ATTRIBUTE READS go through the regenerated tables of Gen/Tables.v, by the FIXED glue table of the prelude (ATTRS):
      ins.version / ins.mode     -> c_version / c_mode of the class of the instruction (Syntax.ins_version / ins_mode over
                                    Tables.classes); a class that is not in the table is the exception None
      ins.cost                   -> Syntax.ins_cost (the c_cost clauses of Tables.classes) at the version of the contract
                                    the instruction belongs to (ins.bb.teal.version: the guard of every cost property is
                                    checked by tools/translate.py, the statements that set bb.teal are fingerprinted here)
      ins.line                   -> Cfg.i_line;   ins.program_version (Pragma) -> the immediate of IPragma
      getattr(ins, "field", None)-> Cfg.ins_field: the field object is (base class, version), the version read from
                                    Tables.tx_fields / tx_array_fields / global_fields / asset_holding_fields / ..;
                                    the classes that define `.field`, and the base class of their field, are CHECKED
                                    against instructions.py and the parser rules (check_field_classes); Block.field is a
                                    str: an object that is no field (OtherObj)
      isinstance(field, (A, ..)) -> membership of the base class in the literal list [A; ..]
      field.version              -> the version of the field object (AttributeError on None / on a str)
      isinstance(ins, Pragma)    -> a match on the constructor (no subclass: checked)
      bb.instructions            -> Cfg.b_ins
    The Python text of every property the table stands for is fingerprinted (FINGERPRINTS): any edit stops the translator.
  * enum members: ExecutionMode.X is the constructor of Tables.xmode, ContractType.X the constructor of contract_type;
    `==` / `!=` on them is ComparableEnum.__eq__ / __ne__ (equality of the values, which are distinct: fingerprinted).
  * `print(<message>, file=sys.stderr)` appends ONE event to the variable `stderr` (the list of what the function has
    written, in order; [] when the function starts; a function that prints returns the pair (result, stderr); a call
    of such a function appends what it wrote).  The message must be one of the fixed table PRINTS (the literal text
    with its holes); the holes that are attribute reads are evaluated in order (they can raise), the ones the event
    keeps (the line number) are its arguments; str() of an instruction / field object is taken to be total.
  * `for x in e: body` is `fold_left (fun acc x => bind acc (fun st => <body>)) <e> (ret <state>)`, state = the variables
    (re)bound in the body and bound before the loop (translate_cfg).  A `return v` inside the body adds a first
    component `option R` to the state: once it is `Some v` the remaining iterations do nothing and the loop is followed
    by `return v` (translate_search).  `break`, `continue`: rejected.
  * an `if` that is followed by more statements is translated with a JOIN POINT when the continuation is needed more
    than once (translate_cfg / translate_search).
  * `sum(e for x in xs)` is the left fold `0 + e1 + e2 + ..` in N (costs are non-negative integer literals).
  * truth value of a list: non-empty.  Integer literals and versions / costs are N.  `xs[0]`: IndexError on [].

Fail-closed: every statement kind, expression kind, attribute name, call name, message and variable type that is not
whitelisted below raises TranslateError.
"""
import ast
import os
import sys

from tcommon import TranslateError, fail, parse, strip_doc, coq_str, T
from translate_keys import indent, same_text, check_no_subclasses
from translate_cfg import seq, as_monadic, is_name, tuple_term, projections, probe, find_class, find_member, member_text, bound_names, count_bindings, find_toplevel

PT_REL = "teal/parse_teal.py"
TEAL_REL = "teal/teal.py"
BB_REL = "teal/basic_blocks.py"
INS_REL = "teal/instructions/instructions.py"
ENUMS_REL = "utils/teal_enums.py"
CMP_REL = "utils/comparable_enum.py"

# ----------------------------------------------------------------------------- types of the little typed language
INS, BOOL, VER, NAT, MODE, CTYPE, OPTOBJ, OUT, BLK = "ins", "bool", "N", "nat", "mode", "ctype", "optobj", "stderr", "blk"
LINS = "list ins"
COQ_TYPE = {
    INS: "nat", BOOL: "bool", VER: "N", NAT: "nat", MODE: "xmode", CTYPE: "contract_type", OPTOBJ: "option pyfield", OUT: "list event",
    BLK: "block", LINS: "list nat",
}  # fmt: skip
ANNOTATIONS = {"List[Instruction]": LINS}
PARAM_ANNOTATIONS = {"List[Instruction]": LINS, "int": VER, "ExecutionMode": MODE}

# ----------------------------------------------------------------------------- the glue table
# (attribute, type of the object) -> (glue function, context it reads ("p", "t" or None), type of the result, pure)
ATTRS = {
    ("version", INS): ("ins_attr_version", "p", VER, False),
    ("mode", INS): ("ins_attr_mode", "p", MODE, False),
    ("line", INS): ("ins_attr_line", "p", NAT, False),
    ("program_version", INS): ("ins_attr_program_version", "p", VER, False),
    ("cost", INS): ("ins_attr_cost", "t", VER, False),
    ("version", OPTOBJ): ("field_attr_version", None, VER, False),
    ("instructions", BLK): ("bb_attr_instructions", None, LINS, True),
}
# enum members
ENUMS = {
    "ExecutionMode": ("tealer.utils.teal_enums.ExecutionMode", MODE, {"STATELESS": "MStateless", "STATEFUL": "MStateful", "ANY": "MAny"}),
    "ContractType": (
        "tealer.utils.teal_enums.ContractType", CTYPE,
        {"LogicSig": "CT_LogicSig", "ApprovalProgram": "CT_ApprovalProgram", "ClearStateProgram": "CT_ClearStateProgram", "Unknown": "CT_Unknown"},
    ),
}  # fmt: skip
EQB = {MODE: "execmode_eqb", CTYPE: "contract_type_eqb"}
# isinstance(ins, C): python instruction class -> constructor pattern of Model/Syntax.instr
CLASS_PATTERNS = {"Pragma": "IPragma _"}
# isinstance(field, (C, ..)): base classes of the field objects -> the module they must be imported from
FIELD_KINDS = {
    "TransactionField": "tealer.teal.instructions.transaction_field.TransactionField",
    "GlobalField": "tealer.teal.global_field.GlobalField",
    "AssetHoldingField": "tealer.teal.instructions.asset_holding_field.AssetHoldingField",
    "AssetParamsField": "tealer.teal.instructions.asset_params_field.AssetParamsField",
    "AppParamsField": "tealer.teal.instructions.app_params_field.AppParamsField",
    "AcctParamsField": "tealer.teal.instructions.acct_params_field.AcctParamsField",
}
# calls of translated functions: python name -> (generated name, argument types, result type, prints)
CALLS = {
    "_detect_execution_mode": ("detect_execution_mode_gen", [LINS], MODE, False),
    "_verify_version": ("verify_version_gen", [LINS, VER], BOOL, True),
}

# the messages written to stderr: text with holes -> (event constructor, the holes it keeps, in order)
PRINTS = {
    "{ins.line}: {ins} instruction is not supported in Teal version {program_version}, it is supported from Teal version {ins.version}": ("EvInsUnsupported", ["ins.line"]),
    "{ins.line}: {ins}, field {field} is not supported in Teal version {program_version}, it is supported from Teal version {field.version}": ("EvFieldUnsupported", ["ins.line"]),
    "\nprogram contains instructions specific to both Application and Signature Mode": ("EvMixed", []),
    "Instructions supported only in Signature Mode:": ("EvStatelessHeader", []),
    "\nInstructions supported only in Application Mode:": ("EvStatefulHeader", []),
    "\t{ins.line}: {ins}": ("EvListed", ["ins.line"]),
}

# ---- which class has a `.field`, and of which base class (Model/Cfg.ins_field dispatches on exactly this)
# parser-rule shape of the class -> base class of its field object
SHAPE_KIND = {
    "STxField": "TransactionField", "STxFieldStack": "TransactionField", "SGtxn": "TransactionField", "SGtxnStack": "TransactionField",
    "SGlobalField": "GlobalField", "SAssetHoldingField": "AssetHoldingField", "SAssetParamsField": "AssetParamsField",
    "SAppParamsField": "AppParamsField", "SAcctParamsField": "AcctParamsField",
}  # fmt: skip
# the dispatch of Cfg.ins_field: these classes, every other class with a field parameter carries a TransactionField
MODEL_FIELD_KIND = {
    "Global": "GlobalField", "AssetHoldingGet": "AssetHoldingField", "AssetParamsGet": "AssetParamsField", "AppParamsGet": "AppParamsField",
    "AcctParamsGet": "AcctParamsField",
}  # fmt: skip
NON_FIELD_OBJECT = {"Block": "str"}  # classes whose `.field` is not a field object (glue: OtherObj), with the annotation
# (file of the classes, file of the text->class dictionary, dictionaries, base class)
FIELD_TABLES = [
    ("teal/instructions/transaction_field.py", "teal/instructions/parse_transaction_field.py", ["TX_FIELD_TXT_TO_OBJECT", "ARRAY_TX_FIELD_TO_OBJECT"], "TransactionField"),
    ("teal/global_field.py", "teal/instructions/parse_global_field.py", ["GLOBAL_FIELD_TXT_TO_OBJECT"], "GlobalField"),
    ("teal/instructions/asset_holding_field.py", "teal/instructions/parse_asset_holding_field.py", ["ASSET_HOLDING_FIELD_TXT_TO_OBJECT"], "AssetHoldingField"),
    ("teal/instructions/asset_params_field.py", "teal/instructions/parse_asset_params_field.py", ["ASSET_PARAMS_FIELD_TXT_TO_OBJECT"], "AssetParamsField"),
    ("teal/instructions/app_params_field.py", "teal/instructions/parse_app_params_field.py", ["APP_PARAMS_FIELD_TXT_TO_OBJECT"], "AppParamsField"),
    ("teal/instructions/acct_params_field.py", "teal/instructions/parse_acct_params_field.py", ["ACCT_PARAMS_FIELD_TXT_TO_OBJECT"], "AcctParamsField"),
]
FIELD_VERSION_GETTER = "@property\ndef version(self) -> int:\n    return self._version"

# Python text (docstrings stripped, layout normalised) of everything the glue table stands for
FINGERPRINTS = [
    (INS_REL, "Instruction", "version", None, "@property\ndef version(self) -> int:\n    return self._version"),
    (INS_REL, "Instruction", "mode", None, "@property\ndef mode(self) -> ExecutionMode:\n    return self._mode"),
    (INS_REL, "Instruction", "line", None, "@property\ndef line(self) -> int:\n    return self._line_num"),
    (INS_REL, "Instruction", "line", "line.setter", "@line.setter\ndef line(self, l: int) -> None:\n    self._line_num = l"),
    (INS_REL, "Instruction", "cost", None, "@property\ndef cost(self) -> int:\n    return 1"),
    (
        INS_REL, "Instruction", "bb", None,
        "@property\ndef bb(self) -> 'BasicBlock':\n    if self._bb is None:\n"
        "        raise TealerException(f'Instruction.bb is not initialized: {str(self)}')\n    return self._bb",
    ),
    (INS_REL, "Pragma", "__init__", None, "def __init__(self, version: int):\n    super().__init__()\n    self._program_version = version"),
    (INS_REL, "Pragma", "program_version", None, "@property\ndef program_version(self) -> int:\n    return self._program_version"),
    (BB_REL, "BasicBlock", "instructions", None, "@property\ndef instructions(self) -> List[Instruction]:\n    return self._instructions"),
    (BB_REL, "BasicBlock", "teal", None, "@property\ndef teal(self) -> Optional['Teal']:\n    return self._teal"),
    (BB_REL, "BasicBlock", "teal", "teal.setter", "@teal.setter\ndef teal(self, teal_instance: 'Teal') -> None:\n    self._teal = teal_instance"),
    (TEAL_REL, "Teal", "version", None, "@property\ndef version(self) -> int:\n    return self._version"),
    (TEAL_REL, "Teal", "mode", None, "@property\ndef mode(self) -> ExecutionMode:\n    return self._mode"),
    (TEAL_REL, "Teal", "contract_type", None, "@property\ndef contract_type(self) -> ContractType:\n    return self._contract_type"),
    (TEAL_REL, "Teal", "bbs", None, "@property\ndef bbs(self) -> List[BasicBlock]:\n    return self._bbs"),
    (
        CMP_REL, "ComparableEnum", "__eq__", None,
        "def __eq__(self, other: Any) -> bool:\n    if isinstance(other, ComparableEnum):\n        return self.value == other.value\n    return False",
    ),
    (
        CMP_REL, "ComparableEnum", "__ne__", None,
        "def __ne__(self, other: Any) -> bool:\n    if isinstance(other, ComparableEnum):\n        return self.value != other.value\n    return False",
    ),
]
ENUM_TEXT = {
    "ExecutionMode": "class ExecutionMode(ComparableEnum):\n    STATELESS = 0\n    STATEFUL = 1\n    ANY = 2\n\n    def __str__(self) -> str:\n        return self.name.title()",
    "ContractType": (
        "class ContractType(ComparableEnum):\n    LogicSig = 0\n    ApprovalProgram = 1\n    ClearStateProgram = 2\n    Unknown = 99\n\n"
        "    def __str__(self) -> str:\n        return self.name"
    ),
}
# attributes of Instruction that only the base class may define (the tables of Gen/Tables.v read the _version / _mode
# assignments of the constructors; a subclass that overrides the property would make them meaningless)
BASE_ONLY = ("version", "mode", "line", "bb")
FORBIDDEN_DUNDERS = ("__getattr__", "__getattribute__", "__setattr__")

# parse_teal: the statements BEFORE the translated slice (exact text, up to layout): at the slice, `instructions` is the
# list first_pass filled, untouched
PARSE_TEAL_PREFIX = [
    "instructions: List[Instruction] = []",
    "labels: Dict[str, Label] = {}",
    "subroutine_callsubs: Dict[str, List[Callsub]] = defaultdict(list)",
    "lines = source_code.splitlines()",
    "(intcblock_ins, bytecblock_ins) = first_pass(lines, labels, subroutine_callsubs, instructions)",
    "logger_parsing.debug(f'subroutine_callsubs = {subroutine_callsubs}')",
    "second_pass(instructions, labels)",
    "logger_parsing.debug('instruction and nexts')",
    "for ins in instructions:\n    logger_parsing.debug(f'     {ins}, next: {ins.next}')",
    "all_bbs: List[BasicBlock] = []",
    "create_bb(instructions, all_bbs)",
    "fourth_pass(all_bbs)",
    "all_bbs = _add_basic_blocks_idx(all_bbs)",
]
# parse_teal: statements AFTER the slice that give the translated values their meaning (each exactly once)
TEAL_CTOR = "teal = Teal(version, mode, instructions, all_reachable_blocks, main_program, subroutines)"
TEAL_BBS_LOOP = "for bb in teal.bbs:\n    bb.teal = teal\n    bb.tealer_comments.insert(0, f'block_id = {bb.idx}; cost = {bb.cost}')"
TEAL_INIT_SIG = [
    ("self", None), ("version", "int"), ("mode", "ExecutionMode"), ("instructions", "List[Instruction]"), ("bbs", "List[BasicBlock]"),
    ("main", "Subroutine"), ("subroutines", "Dict[str, Subroutine]"),
]  # fmt: skip
TEAL_INIT_STORES = ["self._version = version", "self._mode = mode", "self._bbs = bbs", "self._instructions = instructions"]

RESERVED = {
    "p", "t", "acc", "st", "acc2", "st2", "stderr", "ret", "bind", "py", "ifE", "notE", "andE", "orE", "fold_left", "map", "fst", "snd", "negb",
    "andb", "orb", "true", "false", "nil", "cons", "app", "length", "tl", "Some", "None", "O", "S", "nat", "bool", "string", "list", "option", "N",
    "block", "prog", "teal", "op_at", "ins_class", "instr", "xmode", "MStateless", "MStateful", "MAny", "event", "pyfield", "FieldObj", "OtherObj",
    "contract_type", "contract_type_eqb", "contract_type_str", "execmode_eqb", "opt_is_some", "isinstance_field", "ins_getattr_field", "lst_first",
    "lst_nonempty", "in", "at", "as", "fun", "let", "match", "end", "if", "then", "else", "return", "with", "forall", "exists", "fix", "cofix",
    "for", "where", "using", "Type", "Prop", "Set", "SProp", "struct", "_",
}  # fmt: skip
RESERVED |= {g for g, _, _, _ in ATTRS.values()} | {c for c, _ in PRINTS.values()} | {g for g, _, _, _ in CALLS.values()}
RESERVED |= {c for _, _, ms in ENUMS.values() for c in ms.values()}

PRELUDE = r"""
(* ====================================================================== *)
(* PRELUDE (fixed text): the glue table.  The exception monad is the one of Gen/KeysGen.v, the object graph   *)
(* (an Instruction object = its position in p : Cfg.prog, ins_class) the one of Gen/CfgGen.v.                  *)
(* ====================================================================== *)
(* ---- enums (utils/teal_enums.py; ComparableEnum.__eq__ / __ne__ compare the values, which are distinct) *)
(* class ExecutionMode: STATELESS = 0, STATEFUL = 1, ANY = 2 -- Tables.xmode: MStateless, MStateful, MAny *)
Definition execmode_eqb (a b : xmode) : bool :=
  match a, b with MStateless, MStateless | MStateful, MStateful | MAny, MAny => true | _, _ => false end.
(* class ContractType: LogicSig = 0, ApprovalProgram = 1, ClearStateProgram = 2, Unknown = 99 *)
Inductive contract_type := CT_LogicSig | CT_ApprovalProgram | CT_ClearStateProgram | CT_Unknown.
Definition contract_type_eqb (a b : contract_type) : bool :=
  match a, b with
  | CT_LogicSig, CT_LogicSig | CT_ApprovalProgram, CT_ApprovalProgram | CT_ClearStateProgram, CT_ClearStateProgram | CT_Unknown, CT_Unknown => true
  | _, _ => false
  end.
(* ContractType.__str__ = self.name *)
Definition contract_type_str (c : contract_type) : string :=
  match c with CT_LogicSig => "LogicSig" | CT_ApprovalProgram => "ApprovalProgram" | CT_ClearStateProgram => "ClearStateProgram" | CT_Unknown => "Unknown" end.

(* ---- Instruction objects: attribute reads through the regenerated tables (Gen/Tables.v: classes, *_fields) *)
(* ins.version / ins.mode = self._version / self._mode, set by the constructor of the class: c_version / c_mode of
   Tables.classes (Syntax.ins_version / ins_mode); a class that is not in the table is an exception *)
Definition ins_attr_version (p : prog) (k : nat) : py N := bind (op_at p k) ins_version.
Definition ins_attr_mode (p : prog) (k : nat) : py xmode := bind (op_at p k) ins_mode.
(* ins.line = self._line_num, set by first_pass *)
Definition ins_attr_line (p : prog) (k : nat) : py nat := option_map i_line (nth_error p k).
(* ins.program_version: defined by Pragma only *)
Definition ins_attr_program_version (p : prog) (k : nat) : py N :=
  bind (op_at p k) (fun i => match i with IPragma v => Some v | _ => None end).
(* ins.cost, for an instruction of the contract t (ins.bb.teal is t: `bb.teal = teal` for every block of teal.bbs):
   the c_cost clauses of Tables.classes at the version of the contract (Syntax.ins_cost) *)
Definition ins_attr_cost (t : teal) (k : nat) : py N := bind (op_at (t_prog t) k) (ins_cost (t_version t)).
(* the value of getattr(ins, "field", None): a field object (its base class among TransactionField, GlobalField,
   AssetHoldingField, AssetParamsField, AppParamsField, AcctParamsField, and its version, from the field tables:
   Cfg.ins_field), an object that is no field (Block.field is a str), or None (the class has no `.field`) *)
Inductive pyfield := FieldObj (kind : string) (version : N) | OtherObj.
Definition ins_getattr_field (p : prog) (k : nat) : py (option pyfield) :=
  bind (op_at p k) (fun i =>
    ret (match ins_field i with
         | Some (kind, v) => Some (FieldObj kind v)
         | None => if String.eqb (cls_of i) "Block" then Some OtherObj else None
         end)).
(* isinstance(field, (A, B, ..)): every field class derives from exactly one of the six base classes (checked) *)
Definition isinstance_field (f : option pyfield) (kinds : list string) : bool :=
  match f with Some (FieldObj kind _) => existsb (String.eqb kind) kinds | _ => false end.
(* field.version: AttributeError on None and on a str *)
Definition field_attr_version (f : option pyfield) : py N :=
  match f with Some (FieldObj _ v) => Some v | _ => None end.

(* ---- BasicBlock objects of the parsed contract: bb.instructions = self._instructions *)
Definition bb_attr_instructions (b : block) : list nat := b_ins b.

(* ---- lists *)
(* xs[0]: IndexError on the empty list *)
Definition lst_first {A : Type} (xs : list A) : py A := nth_error xs 0.
(* truth value of a list *)
Definition lst_nonempty {A : Type} (xs : list A) : bool := match xs with [] => false | _ :: _ => true end.

(* ---- what _verify_version writes to stderr, one event per print (the messages are fixed by tools/translate_version.py:
   PRINTS); the argument is ins.line *)
Inductive event :=
| EvInsUnsupported (line : nat)     (* "<line>: <ins> instruction is not supported in Teal version <v>, it is supported from .." *)
| EvFieldUnsupported (line : nat)   (* "<line>: <ins>, field <f> is not supported in Teal version <v>, it is supported from .." *)
| EvMixed                           (* "program contains instructions specific to both Application and Signature Mode" *)
| EvStatelessHeader                 (* "Instructions supported only in Signature Mode:" *)
| EvStatefulHeader                  (* "Instructions supported only in Application Mode:" *)
| EvListed (line : nat).            (* "\t<line>: <ins>" *)
"""


# ----------------------------------------------------------------------------- environment
class Env:
    def __init__(self, path, vars_, spec):
        self.path = path
        self.vars = dict(vars_)  # python name -> type, in order of binding
        self.spec = spec
        self.counter = [0, 0]  # temporaries, join points
        self.depth = 0  # nesting depth of for loops
        self.on_return = None  # inside a loop with an early return: (term, pure) -> term
        self.collect = [[]]  # names (re)bound since the last probe started (shared cell)
        self.aux = []  # (unused; translate_cfg.probe expects it)

    def child(self, **new):
        e = Env(self.path, self.vars, self.spec)
        e.counter, e.depth, e.on_return, e.collect, e.aux = self.counter, self.depth, self.on_return, self.collect, self.aux
        e.vars.update(new)
        return e

    def fresh(self):
        self.counter[0] += 1
        return f"tmp{self.counter[0]}"

    def fresh_join(self):
        self.counter[1] += 1
        return f"k{self.counter[1]}"


def coqty(ty):
    t = COQ_TYPE[ty]
    return t if " " not in t else f"({t})"


def context_term(env, node, ctx):
    if ctx is None:
        return None
    if not env.spec.get(ctx):
        fail(env.path, node, f"attribute read that needs `{ctx}` in a function without access to it")
    return ctx


def builtin(env, node, name):
    if name in env.vars or name in env.spec["imports"]:
        fail(env.path, node, f"{name} is not the builtin")


def truth(env, node, t, ty, pure):
    """truth value of a value of type ty"""
    if ty == BOOL:
        return t, pure
    if ty == LINS:
        return seq(env, [(t, pure)], lambda a: f"(lst_nonempty {a})")
    fail(env.path, node, f"truth value of a value of type {ty}")


def fstring_skeleton(env, node):
    """a str literal or an f-string -> (text with holes, the hole expressions)"""
    if isinstance(node, ast.Constant) and isinstance(node.value, str):
        return node.value.replace("{", "{{").replace("}", "}}"), []
    if not isinstance(node, ast.JoinedStr):
        fail(env.path, node, "message of print: " + ast.unparse(node)[:60])
    out, holes = "", []
    for v in node.values:
        if isinstance(v, ast.Constant) and isinstance(v.value, str):
            out += v.value.replace("{", "{{").replace("}", "}}")
        elif isinstance(v, ast.FormattedValue) and v.conversion == -1 and v.format_spec is None:
            out += "{" + ast.unparse(v.value) + "}"
            holes.append(v.value)
        else:
            fail(env.path, node, "piece of an f-string: " + ast.unparse(node)[:60])
    return out, holes


# ----------------------------------------------------------------------------- expressions
def expr(env, e):
    """-> (term, type, pure)"""
    p = env.path
    if isinstance(e, ast.Constant):
        if e.value is True:
            return "true", BOOL, True
        if e.value is False:
            return "false", BOOL, True
        if isinstance(e.value, int) and not isinstance(e.value, bool) and e.value >= 0:
            return f"{e.value}%N", VER, True
        fail(p, e, "constant " + ast.unparse(e))
    if isinstance(e, ast.Name):
        if e.id in env.vars:
            return e.id, env.vars[e.id], True
        fail(p, e, f"unknown name {e.id}")
    if isinstance(e, ast.Attribute):
        if is_name(e.value) and e.value.id not in env.vars:
            en = e.value.id
            if en not in ENUMS or env.spec["imports"].get(en) != ENUMS[en][0]:
                fail(p, e, f"the name {en} is not an enum of teal_enums.py")
            if e.attr not in ENUMS[en][2]:
                fail(p, e, f"{en} has no member {e.attr}")
            return ENUMS[en][2][e.attr], ENUMS[en][1], True
        t, ty, pure = expr(env, e.value)
        if (e.attr, ty) not in ATTRS:
            fail(p, e, f"attribute .{e.attr} of a value of type {ty}")
        g, ctx, rty, gpure = ATTRS[(e.attr, ty)]
        c = context_term(env, e, ctx)
        head = f"{g} {c}" if c else g
        if gpure:
            out, pure2 = seq(env, [(t, pure)], lambda a: f"({head} {a})")
            return out, rty, pure2
        out, _ = seq(env, [(t, pure)], lambda a: f"({head} {a})", monadic_result=True)
        return out, rty, False
    if isinstance(e, ast.Subscript):
        v, vty, vp = expr(env, e.value)
        if vty != LINS:
            fail(p, e, "subscript " + ast.unparse(e))
        s = e.slice
        if isinstance(s, ast.Constant) and s.value == 0 and not isinstance(s.value, bool):
            out, _ = seq(env, [(v, vp)], lambda a: f"(lst_first {a})", monadic_result=True)
            return out, INS, False
        if isinstance(s, ast.Slice) and s.upper is None and s.step is None and isinstance(s.lower, ast.Constant) and s.lower.value == 1 and not isinstance(s.lower.value, bool):
            out, pure = seq(env, [(v, vp)], lambda a: f"(tl {a})")
            return out, LINS, pure
        fail(p, e, "subscript " + ast.unparse(e))
    if isinstance(e, ast.UnaryOp):
        if isinstance(e.op, ast.Not):
            t, ty, pure = expr(env, e.operand)
            t, pure = truth(env, e, t, ty, pure)
            return (f"(negb {t})" if pure else f"(notE {t})"), BOOL, pure
        fail(p, e, "unary operator " + ast.unparse(e))
    if isinstance(e, ast.BoolOp):
        parts = []
        for v in e.values:
            t, ty, pure = expr(env, v)
            parts.append(truth(env, v, t, ty, pure))
        allpure = all(pure for _, pure in parts)
        if isinstance(e.op, ast.And):
            fn = "andb" if allpure else "andE"
        elif isinstance(e.op, ast.Or):
            fn = "orb" if allpure else "orE"
        else:
            fail(p, e, "boolean operator")
        terms = [t if allpure else as_monadic(t, pure) for t, pure in parts]
        out = terms[-1]
        for t in reversed(terms[:-1]):
            out = f"({fn} {t} {out})"
        return out, BOOL, allpure
    if isinstance(e, ast.Compare):
        if len(e.ops) != 1:
            fail(p, e, "comparison chain " + ast.unparse(e))
        op, rhs = e.ops[0], e.comparators[0]
        l, lty, lp = expr(env, e.left)
        if isinstance(op, (ast.Is, ast.IsNot)):
            if not (isinstance(rhs, ast.Constant) and rhs.value is None) or lty != OPTOBJ:
                fail(p, e, "comparison " + ast.unparse(e))
            neg = isinstance(op, ast.Is)
            out, pure = seq(env, [(l, lp)], lambda a: (f"(negb (opt_is_some {a}))" if neg else f"(opt_is_some {a})"))
            return out, BOOL, pure
        r, rty, rp = expr(env, rhs)
        if isinstance(op, (ast.Lt, ast.Gt, ast.LtE, ast.GtE)):
            if not lty == rty == VER:
                fail(p, e, f"order comparison of {lty} with {rty}")
            build = {
                ast.Lt: lambda a, b: f"(N.ltb {a} {b})", ast.Gt: lambda a, b: f"(N.ltb {b} {a})",
                ast.LtE: lambda a, b: f"(N.leb {a} {b})", ast.GtE: lambda a, b: f"(N.leb {b} {a})",
            }[type(op)]  # fmt: skip
            out, pure = seq(env, [(l, lp), (r, rp)], build)
            return out, BOOL, pure
        if isinstance(op, (ast.Eq, ast.NotEq)):
            if not (lty == rty and lty in EQB):
                fail(p, e, f"comparison of {lty} with {rty}")
            eqb, neg = EQB[lty], isinstance(op, ast.NotEq)
            out, pure = seq(env, [(l, lp), (r, rp)], lambda a, b: (f"(negb ({eqb} {a} {b}))" if neg else f"({eqb} {a} {b})"))
            return out, BOOL, pure
        fail(p, e, "comparison " + ast.unparse(e))
    if isinstance(e, ast.IfExp):
        c, cty, cp = expr(env, e.test)
        c, cp = truth(env, e.test, c, cty, cp)
        a, aty, ap = expr(env, e.body)
        b, bty, bp = expr(env, e.orelse)
        if aty != bty:
            fail(p, e, f"conditional expression of types {aty} / {bty}")
        if cp and ap and bp:
            return f"(if {c} then {a} else {b})", aty, True
        return f"(ifE {as_monadic(c, cp)} {as_monadic(a, ap)} {as_monadic(b, bp)})", aty, False
    if isinstance(e, ast.Call):
        if e.keywords or not isinstance(e.func, ast.Name):
            fail(p, e, "call " + ast.unparse(e)[:60])
        fn = e.func.id
        if fn in env.vars:
            fail(p, e, f"{fn} is a variable")
        if fn in CALLS:
            gen, atys, rty, prints = CALLS[fn]
            if prints:
                fail(p, e, f"{fn} writes to stderr: it can only be called as a statement")
            if env.spec["imports"].get(fn) != "<local>" or fn not in env.spec.get("calls", ()):
                fail(p, e, f"call of {fn}")
            args = [expr(env, a) for a in e.args]
            if [ty for _, ty, _ in args] != atys:
                fail(p, e, f"arguments of {fn}: {[ty for _, ty, _ in args]}")
            out, _ = seq(env, [(t, pure) for t, _, pure in args], lambda *a: f"({gen} p " + " ".join(a) + ")", monadic_result=True)
            context_term(env, e, "p")
            return out, rty, False
        builtin(env, e, fn)
        if fn == "isinstance" and len(e.args) == 2:
            t, ty, pure = expr(env, e.args[0])
            c = e.args[1]
            names = [c.id] if isinstance(c, ast.Name) else [x.id for x in c.elts] if isinstance(c, ast.Tuple) and c.elts and all(isinstance(x, ast.Name) for x in c.elts) else None
            if names is None:
                fail(p, e, "isinstance class argument " + ast.unparse(c))
            if ty == INS:
                for n in names:
                    if n not in CLASS_PATTERNS or n in env.vars or env.spec["imports"].get(n) != "tealer.teal.instructions.instructions." + n:
                        fail(p, e, f"isinstance of an instruction with the class {n}")
                pats = " | ".join(CLASS_PATTERNS[n] for n in names)
                context_term(env, e, "p")
                v = env.fresh()
                out, _ = seq(env, [(t, pure)], lambda a: f"(bind (ins_class p {a}) (fun {v} => (ret (match {v} with {pats} => true | _ => false end))))", monadic_result=True)
                return out, BOOL, False
            if ty == OPTOBJ:
                for n in names:
                    if n not in FIELD_KINDS or n in env.vars or env.spec["imports"].get(n) != FIELD_KINDS[n]:
                        fail(p, e, f"isinstance of a field object with the class {n}")
                lst = "[" + "; ".join(coq_str(n) for n in names) + "]"
                out, pure2 = seq(env, [(t, pure)], lambda a: f"(isinstance_field {a} {lst})")
                return out, BOOL, pure2
            fail(p, e, f"isinstance of a value of type {ty}")
        if fn == "getattr" and len(e.args) == 3:
            t, ty, pure = expr(env, e.args[0])
            a1, a2 = e.args[1], e.args[2]
            if ty != INS or not (isinstance(a1, ast.Constant) and a1.value == "field") or not (isinstance(a2, ast.Constant) and a2.value is None):
                fail(p, e, "getattr " + ast.unparse(e)[:60])
            context_term(env, e, "p")
            out, _ = seq(env, [(t, pure)], lambda a: f"(ins_getattr_field p {a})", monadic_result=True)
            return out, OPTOBJ, False
        if fn == "sum" and len(e.args) == 1 and isinstance(e.args[0], ast.GeneratorExp):
            g = e.args[0]
            if len(g.generators) != 1 or g.generators[0].ifs or g.generators[0].is_async or not isinstance(g.generators[0].target, ast.Name):
                fail(p, e, "generator of sum")
            x = g.generators[0].target.id
            check_name(env, x, e)
            if x in env.vars:
                fail(p, e, f"generator variable {x} shadows a variable")
            l, lty, lpure = expr(env, g.generators[0].iter)
            if lty != LINS:
                fail(p, e, f"sum over a value of type {lty}")
            benv = env.child(**{x: INS})
            b, bty, bpure = expr(benv, g.elt)
            if bty != VER:
                fail(p, e, f"sum of values of type {bty}")
            step, _ = seq(benv, [(b, bpure)], lambda a: f"(ret (st + {a})%N)", monadic_result=True)
            out, _ = seq(env, [(l, lpure)], lambda a: f"(fold_left (fun acc {x} => (bind acc (fun st => {step}))) {a} (ret 0%N))", monadic_result=True)
            return out, VER, False
        fail(p, e, "call " + ast.unparse(e)[:60])
    fail(p, e, "expression " + ast.unparse(e)[:60])


# ----------------------------------------------------------------------------- statements
FORBIDDEN = (
    ast.Try, ast.With, ast.FunctionDef, ast.AsyncFunctionDef, ast.Lambda, ast.NamedExpr, ast.AugAssign, ast.Delete, ast.Global, ast.Nonlocal,
    ast.ListComp, ast.SetComp, ast.DictComp, ast.Yield, ast.YieldFrom, ast.Raise, ast.Break, ast.Continue, ast.Await, ast.ClassDef, ast.Import,
    ast.ImportFrom, ast.Starred, ast.While, ast.Assert,
)  # fmt: skip


def check_name(env, name, node):
    if name in RESERVED or name.startswith("tmp") or (name.startswith("k") and name[1:].isdigit()):
        fail(env.path, node, f"variable name {name} is reserved by the translator")
    if not name.isidentifier() or not name.isascii():
        fail(env.path, node, f"variable name {name}")


def bind_var(env, name, node, t, ty, pure, rest_of, internal=False):
    """`name = <t>`; a re-assignment must keep the type of the variable"""
    if not internal:
        check_name(env, name, node)
    if name in env.vars and env.vars[name] != ty:
        fail(env.path, node, f"re-assignment of {name} changes its type from {env.vars[name]} to {ty}")
    env.collect[0].append(name)
    rest = rest_of(env.child(**{name: ty}))
    if pure:
        return f"(let {name} := {t} in\n{rest})"
    return f"(bind {t} (fun {name} =>\n{rest}))"


def return_term(env, node, t, ty, pure):
    spec = env.spec
    if "ret_type" not in spec or ty != spec["ret_type"]:
        fail(env.path, node, f"return of a value of type {ty}")
    if env.on_return is not None:
        return env.on_return(t, pure)
    if spec.get("prints"):
        out, _ = seq(env, [(t, pure)], lambda a: f"(ret ({a}, stderr))", monadic_result=True)
        return out
    return as_monadic(t, pure)


def end_of_function(env, line):
    spec = env.spec
    if "returns" not in spec:
        raise TranslateError(f"translator: {env.path}:{line}: control reaches the end of the function without return")
    names = spec["returns"] + (["stderr"] if spec.get("prints") else [])
    for n, ty in zip(spec["returns"], spec["return_types"]):
        if env.vars.get(n) != ty:
            raise TranslateError(f"translator: {env.path}:{line}: {n} is not bound (with type {ty}) at the end of the translated statements")
    return f"(ret {tuple_term(names)})"


def print_stmt(env, st, rest_of):
    """print(<message>, file=sys.stderr)"""
    p = env.path
    call = st.value
    builtin(env, st, "print")
    kw = call.keywords
    if (
        len(call.args) != 1 or len(kw) != 1 or kw[0].arg != "file" or ast.unparse(kw[0].value) != "sys.stderr"
        or "sys" in env.vars or env.spec["imports"].get("sys") != "<module>"
    ):  # fmt: skip
        fail(p, st, "print: expected print(<message>, file=sys.stderr)")
    if not env.spec.get("prints"):
        fail(p, st, "print in a function that is not expected to write to stderr")
    text, holes = fstring_skeleton(env, call.args[0])
    if text not in PRINTS:
        fail(p, st, "message written to stderr is not in the table PRINTS: " + repr(text)[:100])
    ctor, keep = PRINTS[text]
    binds, args = [], {}
    for h in holes:
        if isinstance(h, ast.Name):
            if env.vars.get(h.id) not in (INS, OPTOBJ, VER):
                fail(p, h, f"formatted value {h.id} of type {env.vars.get(h.id)}")
            continue  # str() of an instruction / field object / int: total, no effect
        if not isinstance(h, ast.Attribute):
            fail(p, h, "formatted value " + ast.unparse(h)[:40])
        t, ty, pure = expr(env, h)
        txt = ast.unparse(h)
        if txt in keep:
            if ty != NAT:
                fail(p, h, f"event argument of type {ty}")
            if pure:
                args[txt] = t
            else:
                v = env.fresh()
                binds.append((v, t))
                args[txt] = v
        elif not pure:
            binds.append(("_", t))
    if sorted(args) != sorted(keep):
        fail(p, st, f"the message no longer has the holes {keep}")
    ev = ctor if not keep else "(" + ctor + " " + " ".join(args[k] for k in keep) + ")"
    inner = bind_var(env, "stderr", st, f"(stderr ++ [{ev}])", OUT, True, rest_of, internal=True)
    for v, t in reversed(binds):
        inner = f"(bind {t} (fun {v} =>\n{inner}))"
    return inner


def expr_stmt(env, st, rest_of):
    p = env.path
    v = st.value
    if not isinstance(v, ast.Call):
        fail(p, st, "expression statement " + ast.unparse(st)[:60])
    if is_name(v.func, "print"):
        return print_stmt(env, st, rest_of)
    # xs.append(e)
    if isinstance(v.func, ast.Attribute) and v.func.attr == "append" and len(v.args) == 1 and not v.keywords and is_name(v.func.value):
        x = v.func.value.id
        if env.vars.get(x) != LINS:
            fail(p, st, f".append on a value of type {env.vars.get(x)}")
        a, aty, ap = expr(env, v.args[0])
        if aty != INS:
            fail(p, st, f".append of a value of type {aty}")
        out, pure = seq(env, [(a, ap)], lambda u: f"({x} ++ [{u}])")
        return bind_var(env, x, st, out, LINS, pure, rest_of)
    # a call of a translated function that writes to stderr; its result is dropped
    if is_name(v.func) and v.func.id in CALLS and CALLS[v.func.id][3] and not v.keywords:
        fn = v.func.id
        gen, atys, _, _ = CALLS[fn]
        if fn in env.vars or env.spec["imports"].get(fn) != "<local>" or fn not in env.spec.get("calls", ()) or not env.spec.get("prints"):
            fail(p, st, f"call of {fn}")
        args = [expr(env, a) for a in v.args]
        if [ty for _, ty, _ in args] != atys:
            fail(p, st, f"arguments of {fn}: {[ty for _, ty, _ in args]}")
        context_term(env, st, "p")
        call, _ = seq(env, [(t, pure) for t, _, pure in args], lambda *a: f"({gen} p " + " ".join(a) + ")", monadic_result=True)
        tmp = env.fresh()
        inner = bind_var(env, "stderr", st, f"(stderr ++ (snd {tmp}))", OUT, True, rest_of, internal=True)
        return f"(bind {call} (fun {tmp} =>\n{inner}))"
    fail(p, st, "expression statement " + ast.unparse(st)[:60])


def assign(env, st, rest_of):
    p = env.path
    if isinstance(st, ast.Assign):
        if len(st.targets) != 1:
            fail(p, st, "chained assignment")
        tg, value, ann = st.targets[0], st.value, None
    else:
        tg, value = st.target, st.value
        if value is None or not isinstance(tg, ast.Name):
            fail(p, st, "annotated assignment " + ast.unparse(st)[:60])
        ann = ANNOTATIONS.get(ast.unparse(st.annotation))
        if ann is None:
            fail(p, st, "annotation " + ast.unparse(st.annotation))
        if tg.id in env.vars:
            fail(p, st, f"{tg.id} is declared twice")
    if not isinstance(tg, ast.Name):
        fail(p, st, "assignment target " + ast.unparse(tg)[:60])
    x = tg.id
    want = ann or env.vars.get(x)
    if isinstance(value, ast.List) and not value.elts:
        if want != LINS:
            fail(p, st, "empty list literal without a list annotation")
        return bind_var(env, x, st, "[]", LINS, True, rest_of)
    t, ty, pure = expr(env, value)
    if want is not None and ty != want:
        fail(p, st, f"assignment of a value of type {ty} to {x} : {want}")
    return bind_var(env, x, st, t, ty, pure, rest_of)


def block(env, stmts, fall):
    """stmts: statement list; fall: function env -> term for what follows the block (None: the function ends)."""
    p = env.path
    stmts = strip_doc(stmts)
    if not stmts:
        if fall is None:
            return end_of_function(env, "?")
        return fall(env)
    st, rest = stmts[0], stmts[1:]
    for node in ast.walk(st):
        if isinstance(node, FORBIDDEN):
            fail(p, node, "statement/expression not accepted: " + type(node).__name__)
    rest_of = lambda env2: block(env2, rest, fall)  # noqa: E731
    if isinstance(st, ast.Return):
        if rest:
            fail(p, rest[0], "statement after return")
        if st.value is None:
            fail(p, st, "bare return")
        t, ty, pure = expr(env, st.value)
        return return_term(env, st, t, ty, pure)
    if isinstance(st, ast.Pass):
        return rest_of(env)
    if isinstance(st, (ast.Assign, ast.AnnAssign)):
        return assign(env, st, rest_of)
    if isinstance(st, ast.Expr):
        return expr_stmt(env, st, rest_of)
    if isinstance(st, ast.If):
        if not rest:
            return if_term(env, st, fall)
        uses = [0]

        def count(_env):
            uses[0] += 1
            return "K"

        _, names = probe(env, lambda: if_term(env, st, count))
        if uses[0] == 0:
            fail(p, rest[0], "unreachable statement")
        if uses[0] == 1:
            return if_term(env, st, rest_of)
        join = [v for v in env.vars if v in names]
        kn = env.fresh_join()
        body = block(env, rest, fall)
        params = " ".join(f"({v} : {coqty(env.vars[v])})" for v in join) or "(_ : unit)"

        def callk(env2):
            for v in join:
                if env2.vars[v] != env.vars[v]:
                    fail(p, st, f"the type of {v} differs at the join point")
            return f"({kn} {' '.join(join) or 'tt'})"

        return f"(let {kn} := (fun {params} =>\n{indent(body, 2)}) in\n{if_term(env, st, callk)})"
    if isinstance(st, ast.For):
        return for_term(env, st, rest_of)
    fail(p, st, "statement " + ast.unparse(st)[:60])


def if_term(env, st, k):
    cont = k if k is not None else (lambda env2: end_of_function(env2, st.lineno))
    t, ty, pure = expr(env, st.test)
    t, pure = truth(env, st.test, t, ty, pure)
    then_t = block(env, st.body, cont)
    else_t = block(env, st.orelse, cont) if st.orelse else cont(env)
    if pure:
        return f"(if {t}\n then\n{indent(then_t)}\n else\n{indent(else_t)})"
    return f"(ifE {t}\n{indent(then_t)}\n{indent(else_t)})"


def for_term(env, st, rest_of):
    p = env.path
    if st.orelse or getattr(st, "type_comment", None) or env.depth >= 2:
        fail(p, st, "for-else / loops nested too deeply")
    if not isinstance(st.target, ast.Name):
        fail(p, st, "loop header " + ast.unparse(st)[:60])
    x = st.target.id
    check_name(env, x, st)
    if x in env.vars:
        fail(p, st, f"loop variable {x} shadows a variable")
    l, lty, lpure = expr(env, st.iter)  # the iterated list is evaluated once, before the loop
    if lty != LINS:
        fail(p, st, f"iteration over a value of type {lty}")
    body = strip_doc(st.body)
    early = any(isinstance(n, ast.Return) for b in body for n in ast.walk(b))
    if early and (env.depth or "ret_type" not in env.spec):
        fail(p, st, "return in a nested loop / in a function without result")
    benv = env.child(**{x: INS})
    benv.depth = env.depth + 1
    benv.on_return = (lambda _t, _pure: "K") if early else None
    _, names = probe(benv, lambda: block(benv, body, lambda _e: "K"))
    if x in names:
        fail(p, st, "loop body assigns the loop variable")
    state = [n for n in env.vars if n in names]
    if is_name(st.iter) and st.iter.id in state:
        fail(p, st, "loop body mutates the list it iterates over")
    comps = (["early"] if early else []) + state
    if not comps:
        fail(p, st, "loop without carried variable")
    stys = [env.vars[n] for n in state]
    rty = coqty(env.spec["ret_type"]) if early else None
    sfx = "" if env.depth == 0 else str(env.depth + 1)
    stv, accv = "st" + sfx, "acc" + sfx

    def pack(first):
        return tuple_term(([first] if early else []) + state)

    def body_end(env2):
        for n, ty in zip(state, stys):
            if env2.vars[n] != ty:
                fail(p, st, f"loop body changes the type of {n} from {ty} to {env2.vars[n]}")
        return f"(ret {pack(f'(@None {rty})')})"

    def on_return(t, pure):
        out, _ = seq(env, [(t, pure)], lambda a: f"(ret {pack(f'(Some {a})')})", monadic_result=True)
        return out

    benv.on_return = on_return if early else None
    projs = projections(len(comps), stv)
    lst = l if lpure else env.fresh()
    body_t = block(benv, body, body_end)
    if early:
        body_t = f"(match {projs[0]} with\n | Some _ => (ret {stv})\n | None =>\n{indent(body_t)}\n end)"
    for n, pr in reversed(list(zip(state, projs[1:] if early else projs))):
        body_t = f"(let {n} := {pr} in\n{body_t})"
    loop = f"(fold_left (fun {accv} {x} => (bind {accv} (fun {stv} =>\n{indent(body_t, 2)})))\n  {lst} (ret {pack(f'(@None {rty})')}))"
    tmp = env.fresh()
    for n in state:
        env.collect[0].append(n)
    after = rest_of(env)
    aprojs = projections(len(comps), tmp)
    if early:
        v = env.fresh()
        ret_t = return_term(env, st, v, env.spec["ret_type"], True)
        after = f"(match {aprojs[0]} with\n | Some {v} => {ret_t}\n | None =>\n{indent(after)}\n end)"
    for n, pr in reversed(list(zip(state, aprojs[1:] if early else aprojs))):
        after = f"(let {n} := {pr} in\n{after})"
    out = f"(bind {loop} (fun {tmp} =>\n{after}))"
    if not lpure:
        out = f"(bind {l} (fun {lst} =>\n{out}))"
    return out


# ----------------------------------------------------------------------------- source checks
def class_members(cls):
    return [n for n in cls.body if isinstance(n, ast.FunctionDef)]


def check_fingerprints(trees):
    for rel, cname, mname, deco, text in FINGERPRINTS:
        path = os.path.join(T, rel)
        cls = find_class(trees[rel], cname, path)
        got = member_text(find_member(path, cls, mname, deco))
        if not same_text(ast.parse(got), text):
            raise TranslateError(f"translator: {path}: {cname}.{mname} changed (its entry in the glue table of Gen/VersionGen.v is no longer justified):\n{got}")
    # the enums
    epath = os.path.join(T, ENUMS_REL)
    for name, text in ENUM_TEXT.items():
        cls = find_class(trees[ENUMS_REL], name, epath)
        node = ast.parse(ast.unparse(cls)).body[0]
        node.body = strip_doc(node.body)
        if not same_text(node, text):
            raise TranslateError(f"translator: {epath}: class {name} changed:\n{ast.unparse(node)}")
    cmp_ = find_class(trees[CMP_REL], "ComparableEnum", os.path.join(T, CMP_REL))
    if [ast.unparse(b) for b in cmp_.bases] != ["Enum"] or bound_names(trees[CMP_REL]).get("Enum") != "enum.Enum":
        raise TranslateError(f"translator: {os.path.join(T, CMP_REL)}: ComparableEnum is no longer a plain Enum")
    if bound_names(trees[ENUMS_REL]).get("ComparableEnum") != "tealer.utils.comparable_enum.ComparableEnum":
        raise TranslateError(f"translator: {epath}: ComparableEnum is not the class of comparable_enum.py")
    # Instruction: the table-backed properties are defined by the base class only; no dynamic attribute lookup
    ipath = os.path.join(T, INS_REL)
    for cls in trees[INS_REL].body:
        if not isinstance(cls, ast.ClassDef):
            continue
        for n in cls.body:
            if isinstance(n, ast.FunctionDef):
                if n.name in FORBIDDEN_DUNDERS:
                    fail(ipath, n, f"class {cls.name} defines {n.name}: attribute reads are no longer the ones of the glue table")
                if n.name in BASE_ONLY and cls.name != "Instruction":
                    fail(ipath, n, f"class {cls.name} overrides Instruction.{n.name}")
                if n.name == "program_version" and cls.name != "Pragma":
                    fail(ipath, n, f"class {cls.name} defines .program_version")
            for tg in n.targets if isinstance(n, ast.Assign) else [n.target] if isinstance(n, ast.AnnAssign) else []:
                if isinstance(tg, ast.Name) and tg.id in BASE_ONLY + ("cost", "field", "program_version"):
                    fail(ipath, n, f"class {cls.name} has the class attribute {tg.id}")
    check_no_subclasses(ipath, list(CLASS_PATTERNS))
    bpath = os.path.join(T, BB_REL)
    bbcls = find_class(trees[BB_REL], "BasicBlock", bpath)
    if bbcls.bases or bbcls.keywords or bbcls.decorator_list:
        fail(bpath, bbcls, "class BasicBlock has bases / decorators")
    # the guard `if self.bb and self.bb.teal:` of the cost properties: truth value of a BasicBlock / Teal object
    for rel, cls in ((BB_REL, bbcls), (TEAL_REL, find_class(trees[TEAL_REL], "Teal", os.path.join(T, TEAL_REL)))):
        for n in class_members(cls):
            if n.name in FORBIDDEN_DUNDERS + ("__bool__", "__len__"):
                fail(os.path.join(T, rel), n, f"{cls.name} defines {n.name}")


def check_field_classes(trees):
    """the classes that define `.field` and the base class of their field object are the ones Cfg.ins_field assumes;
    every class of a field table derives from the base class of its table and reads .version from it"""
    import translate as TT  # the parser rules, as read for Gen/Tables.v

    ipath = os.path.join(T, INS_REL)
    found = {}
    for cls in trees[INS_REL].body:
        if not isinstance(cls, ast.ClassDef):
            continue
        defs = [n for n in class_members(cls) if n.name == "field"]
        if not defs:
            continue
        if len(defs) != 1 or [ast.unparse(d) for d in defs[0].decorator_list] != ["property"] or defs[0].returns is None:
            fail(ipath, defs[0], f"{cls.name}.field is not a plain property")
        ann = ast.unparse(defs[0].returns)
        if not same_text(ast.parse(member_text(defs[0])), f"@property\ndef field(self) -> {ann}:\n    return self._field"):
            fail(ipath, defs[0], f"{cls.name}.field changed")
        init = [n for n in class_members(cls) if n.name == "__init__"]
        stores = [s for n in class_members(cls) for s in ast.walk(n) if isinstance(s, (ast.Assign, ast.AnnAssign)) and "self._field" in [ast.unparse(tg) for tg in (s.targets if isinstance(s, ast.Assign) else [s.target])]]
        if len(init) != 1 or len(stores) != 1 or stores[0] not in init[0].body or not same_text(stores[0], f"self._field: {ann} = field") or "field" not in [a.arg for a in init[0].args.args]:
            fail(ipath, cls, f"{cls.name}: self._field is not set exactly once, by the constructor, from its parameter `field`")
        found[cls.name] = ann
    expected = dict(NON_FIELD_OBJECT)
    shapes = {}
    for _key, cname, shape in TT.read_parser_rules():
        shapes.setdefault(cname, set()).add(shape)
    for cname, shs in shapes.items():
        kinds = {SHAPE_KIND.get(s) for s in shs}
        if kinds != {None}:
            if len(kinds) != 1:
                raise TranslateError(f"translator: parser rules of {cname}: shapes {sorted(shs)}")
            expected[cname] = kinds.pop()
    for cname, ann in NON_FIELD_OBJECT.items():
        if shapes.get(cname) != {"SStr"}:
            raise TranslateError(f"translator: parser rules of {cname}: expected the shape SStr (its .field is a {ann})")
    if found != expected:
        diff = sorted(set(found.items()) ^ set(expected.items()))
        raise TranslateError(f"translator: {ipath}: the classes with a `.field` (and the class of the field) are not the ones the parser rules give: {diff}")
    for cname, kind in found.items():
        if cname not in NON_FIELD_OBJECT and kind != MODEL_FIELD_KIND.get(cname, "TransactionField"):
            raise TranslateError(f"translator: {ipath}: {cname}.field is a {kind}: Model/Cfg.ins_field reads it as a {MODEL_FIELD_KIND.get(cname, 'TransactionField')}")
    check_no_subclasses(ipath, list(found))
    imports = bound_names(trees[INS_REL])
    for kind, mod in FIELD_KINDS.items():
        if imports.get(kind) != mod:
            raise TranslateError(f"translator: {ipath}: {kind} is bound to {imports.get(kind)}")
    # the field tables
    for cfile, dfile, dnames, base in FIELD_TABLES:
        cpath, dpath = os.path.join(T, cfile), os.path.join(T, dfile)
        ctree = parse(cpath)
        bases = {}
        for cls in ctree.body:
            if isinstance(cls, ast.ClassDef):
                if cls.name in bases:
                    fail(cpath, cls, f"class {cls.name} is defined twice")
                bases[cls.name] = [ast.unparse(b) for b in cls.bases]
                for n in class_members(cls):
                    if n.name in FORBIDDEN_DUNDERS:
                        fail(cpath, n, f"class {cls.name} defines {n.name}")
                    if n.name == "version" and (cls.name != base or not same_text(ast.parse(member_text(n)), FIELD_VERSION_GETTER)):
                        fail(cpath, n, f"{cls.name}.version: expected the getter of {base} only")
        if base not in bases or bases[base] or not any(n.name == "version" for n in class_members(find_class(ctree, base, cpath))):
            raise TranslateError(f"translator: {cpath}: base class {base}")

        def derives(c, seen=()):
            return c == base or any(b in bases and b not in seen and derives(b, seen + (c,)) for b in bases.get(c, []))

        for dname in dnames:
            for _text, cname in TT.read_dict(dpath, dname):
                if not derives(cname):
                    raise TranslateError(f"translator: {dpath}: {dname} maps to {cname}, which does not derive from {base}")


def signature(path, fn, expected, returns, decorators=()):
    a = fn.args
    if a.vararg or a.kwarg or a.kwonlyargs or a.posonlyargs or a.defaults or [ast.unparse(d) for d in fn.decorator_list] != list(decorators):
        fail(path, fn, "signature of " + fn.name)
    got = [(x.arg, ast.unparse(x.annotation) if x.annotation else None) for x in a.args]
    if got != expected:
        fail(path, fn, f"signature of {fn.name}: {got}")
    r = ast.unparse(fn.returns) if fn.returns else None
    if r != returns:
        fail(path, fn, f"return annotation of {fn.name}: {r}")
    for node in ast.walk(fn):
        if isinstance(node, ast.Name) and isinstance(node.ctx, (ast.Store, ast.Del)) and node.id in ("isinstance", "getattr", "print", "sum", "sys"):
            fail(path, node, f"{node.id} is re-bound")


def slice_parse_teal(path, fn):
    """-> the statements of parse_teal from `mode = ..` to the call of _verify_version"""
    a = fn.args
    got = [(x.arg, ast.unparse(x.annotation) if x.annotation else None) for x in a.args]
    if got != [("source_code", "str"), ("contract_name", "str")] or [ast.unparse(d) for d in a.defaults] != ["''"] or a.vararg or a.kwarg or a.kwonlyargs:
        fail(path, fn, f"signature of parse_teal: {got}")
    body = strip_doc(fn.body)
    n = len(PARSE_TEAL_PREFIX)
    for st, want in zip(body, PARSE_TEAL_PREFIX):
        if not same_text(st, want):
            fail(path, st, f"parse_teal: expected the statement `{want.splitlines()[0]}` before the version / mode handling (the list `instructions` must be the one first_pass filled), found: " + ast.unparse(st)[:80])
    if len(body) <= n:
        fail(path, fn, "parse_teal is too short")
    first = body[n]
    if not (isinstance(first, ast.Assign) and len(first.targets) == 1 and is_name(first.targets[0], "mode")):
        fail(path, first, "parse_teal: expected `mode = ..` after `all_bbs = _add_basic_blocks_idx(all_bbs)`, found: " + ast.unparse(first)[:80])
    ends = [i for i, st in enumerate(body) if isinstance(st, ast.Expr) and isinstance(st.value, ast.Call) and is_name(st.value.func, "_verify_version")]
    calls = [x for x in ast.walk(fn) if isinstance(x, ast.Call) and is_name(x.func) and x.func.id in CALLS]
    if len(ends) != 1 or ends[0] < n or len(calls) != 2:
        fail(path, fn, "parse_teal: expected exactly one call of _detect_execution_mode and one statement `_verify_version(..)`, at top level")
    stmts = body[n : ends[0] + 1]
    # mode / version are bound by the translated statements only; instructions is not re-bound at all
    for node in ast.walk(fn):
        if isinstance(node, ast.Name) and isinstance(node.ctx, (ast.Store, ast.Del)):
            inside = any(node in ast.walk(s) for s in stmts)
            if (node.id in ("mode", "version") and not inside) or (node.id == "instructions" and node not in ast.walk(body[0])):
                fail(path, node, f"{node.id} is re-bound in parse_teal")
    for want in (TEAL_CTOR, TEAL_BBS_LOOP):
        if sum(1 for s in body[ends[0] + 1 :] if same_text(s, want)) != 1 or sum(1 for s in ast.walk(fn) if isinstance(s, ast.stmt) and same_text(s, want)) != 1:
            fail(path, fn, f"parse_teal no longer contains exactly once, at top level, after the version / mode handling: {want}")
    return stmts


def slice_teal_init(path, cls):
    """-> the value of the statement `self._contract_type: ContractType = ..` of Teal.__init__"""
    init = find_member(path, cls, "__init__", None)
    signature(path, init, TEAL_INIT_SIG, None)
    body = strip_doc(init.body)
    for want in TEAL_INIT_STORES:
        if sum(1 for s in ast.walk(init) if isinstance(s, ast.stmt) and same_text(s, want)) != 1 or sum(1 for s in body if same_text(s, want)) != 1:
            fail(path, init, f"Teal.__init__ no longer contains exactly once: {want}")
    stores = [s for s in ast.walk(init) if isinstance(s, (ast.Assign, ast.AnnAssign, ast.AugAssign)) and any(ast.unparse(tg) == "self._contract_type" for tg in (s.targets if isinstance(s, ast.Assign) else [s.target]))]
    if len(stores) != 1 or stores[0] not in body or not isinstance(stores[0], ast.AnnAssign) or ast.unparse(stores[0].annotation) != "ContractType" or stores[0].value is None:
        fail(path, init, "Teal.__init__: expected exactly one statement `self._contract_type: ContractType = ..`")
    for node in ast.walk(init):
        if isinstance(node, ast.Name) and isinstance(node.ctx, (ast.Store, ast.Del)) and node.id in ("mode", "version", "ExecutionMode", "ContractType"):
            fail(path, node, f"{node.id} is re-bound in Teal.__init__")
    # nothing else of the class writes the three attributes, except the public setters
    for n in class_members(cls):
        if n is init:
            continue
        for s in ast.walk(n):
            for tg in s.targets if isinstance(s, ast.Assign) else [s.target] if isinstance(s, (ast.AnnAssign, ast.AugAssign)) else []:
                if ast.unparse(tg) in ("self._contract_type", "self._mode", "self._version") and [ast.unparse(d) for d in n.decorator_list] != [ast.unparse(tg)[6:] + ".setter"]:
                    fail(path, s, f"Teal.{n.name} writes {ast.unparse(tg)}")
    return stores[0]


# python name -> spec of the translated function
SPECS = {
    "_detect_execution_mode": dict(
        gen="detect_execution_mode_gen", rel=PT_REL, sig=[("instructions", "List[Instruction]")], rann="ExecutionMode", p=True, ret_type=MODE,
        note="the mode of the first instruction that is specific to a mode",
    ),
    "_verify_version": dict(
        gen="verify_version_gen", rel=PT_REL, sig=[("ins_list", "List[Instruction]"), ("program_version", "int")], rann="bool", p=True, prints=True,
        ret_type=BOOL, note="returns (error, what was written to stderr)",
    ),
    "parse_teal": dict(
        gen="parse_teal_version_gen", rel=PT_REL, params=[("instructions", LINS)], p=True, prints=True, returns=["mode", "version"],
        return_types=[MODE, VER], calls=("_detect_execution_mode", "_verify_version"),
        note="the statements from `mode = ..` to `_verify_version(instructions, version)`; returns (mode, version, stderr): the first two are the arguments of Teal(version, mode, ..)",
    ),
    "Teal.__init__": dict(
        gen="teal_init_contract_type_gen", rel=TEAL_REL, params=[("mode", MODE)], ret_type=CTYPE,
        note="the value stored by `self._contract_type: ContractType = ..`",
    ),
    "BasicBlock.cost": dict(
        gen="bb_cost_gen", rel=BB_REL, sig=[("self", None)], rann="int", params=[("self", BLK)], t=True, ret_type=VER,
        note="for a block `self` of the parsed contract t",
    ),
}
ORDER = ["_detect_execution_mode", "_verify_version", "parse_teal", "Teal.__init__", "BasicBlock.cost"]


def result_type(spec):
    if "ret_type" in spec:
        r = coqty(spec["ret_type"])
    else:
        r = " * ".join(coqty(ty) for ty in spec["return_types"])
    if spec.get("prints"):
        r += " * " + coqty(OUT)
    return f"py ({r})"


def emit_function(w, trees, imports, name):
    spec = dict(SPECS[name])
    rel = spec["rel"]
    path = os.path.join(T, rel)
    spec["imports"] = imports[rel]
    if name == "parse_teal":
        fn = find_toplevel(trees[rel], name, path)
        stmts = slice_parse_teal(path, fn)
    elif name == "Teal.__init__":
        cls = find_class(trees[rel], "Teal", path)
        if cls.bases or cls.keywords or cls.decorator_list:
            fail(path, cls, "class Teal has bases / decorators")
        st = slice_teal_init(path, cls)
        fn = st
        stmts = [ast.copy_location(ast.Return(value=st.value), st)]
    elif name == "BasicBlock.cost":
        cls = find_class(trees[rel], "BasicBlock", path)
        fn = find_member(path, cls, "cost", None)
        signature(path, fn, spec["sig"], spec["rann"], decorators=("property",))
        stmts = strip_doc(fn.body)
    else:
        fn = find_toplevel(trees[rel], name, path)
        signature(path, fn, spec["sig"], spec["rann"])
        spec["params"] = [(a, PARAM_ANNOTATIONS[ann]) for a, ann in spec["sig"]]
        stmts = strip_doc(fn.body)
    vars_ = dict(spec["params"])
    header_vars = list(vars_.items())
    if spec.get("prints"):
        vars_["stderr"] = OUT
    env = Env(path, vars_, spec)
    for n, _ in spec["params"]:
        if n != "self":
            check_name(env, n, fn)
    body = block(env, stmts, None)
    if spec.get("prints"):
        body = f"(let stderr := [] in\n{body})"
    ptxt = ("(p : prog) " if spec.get("p") else "") + ("(t : teal) " if spec.get("t") else "") + " ".join(f"({n} : {coqty(ty)})" for n, ty in header_vars)
    w(f"(* {rel}: {name} (line {fn.lineno}); {spec['note']} *)")
    w(f"Definition {spec['gen']} {ptxt} : {result_type(spec)} :=\n{indent(body, 2)}.")
    w("")


# ----------------------------------------------------------------------------- emission
def emit_version(outdir):
    rels = (PT_REL, TEAL_REL, BB_REL, INS_REL, ENUMS_REL, CMP_REL)
    trees = {rel: parse(os.path.join(T, rel)) for rel in rels}
    imports = {rel: bound_names(trees[rel]) for rel in rels}
    ptpath = os.path.join(T, PT_REL)
    for name in ["_detect_execution_mode", "_verify_version", "parse_teal", "Teal", "Pragma", "ExecutionMode", "sys"] + list(FIELD_KINDS):
        if count_bindings(trees[PT_REL], name) != 1:
            raise TranslateError(f"translator: {ptpath}: {name} must be bound exactly once at module level; found {count_bindings(trees[PT_REL], name)} bindings")
    for name in ("_detect_execution_mode", "_verify_version", "parse_teal"):
        if imports[PT_REL].get(name) != "<local>":
            raise TranslateError(f"translator: {ptpath}: {name} is bound to {imports[PT_REL].get(name)}")
    want = {"Teal": "tealer.teal.teal.Teal", "Pragma": "tealer.teal.instructions.instructions.Pragma", "ExecutionMode": ENUMS["ExecutionMode"][0], "sys": "<module>"}
    want.update(FIELD_KINDS)
    for name, mod in want.items():
        if imports[PT_REL].get(name) != mod:
            raise TranslateError(f"translator: {ptpath}: {name} is bound to {imports[PT_REL].get(name)}, expected {mod}")
    tpath = os.path.join(T, TEAL_REL)
    for name in ("Teal", "ExecutionMode", "ContractType"):
        if count_bindings(trees[TEAL_REL], name) != 1:
            raise TranslateError(f"translator: {tpath}: {name} must be bound exactly once at module level")
    for name in ("ExecutionMode", "ContractType"):
        if imports[TEAL_REL].get(name) != ENUMS[name][0]:
            raise TranslateError(f"translator: {tpath}: {name} is bound to {imports[TEAL_REL].get(name)}")
    for rel in (PT_REL, TEAL_REL, BB_REL):
        for name in ("isinstance", "getattr", "print", "sum"):
            if count_bindings(trees[rel], name) != 0 or name in imports[rel]:
                raise TranslateError(f"translator: {os.path.join(T, rel)}: the builtin {name} is re-bound")
    for name in ("ExecutionMode", "ContractType", "ComparableEnum"):
        if count_bindings(trees[ENUMS_REL], name) != 1:
            raise TranslateError(f"translator: {os.path.join(T, ENUMS_REL)}: {name} must be bound exactly once at module level")
    check_fingerprints(trees)
    check_field_classes(trees)

    L = []
    w = L.append
    w("(* GENERATED by tools/translate.py (translate_version) from /repo/tealer -- do not edit *)")
    w("(* teal/parse_teal.py: _detect_execution_mode, _verify_version, the version / mode handling of parse_teal;")
    w("   teal/teal.py: the contract type set by Teal.__init__; teal/basic_blocks.py: BasicBlock.cost -- statement by statement.")
    w("   See tools/translate_version.py for the reading. *)")
    w("From Coq Require Import String List NArith ZArith Bool Arith.")
    w("From Tealer Require Import Tables Syntax Parse Cfg KeysGen CfgGen.")
    w("Import ListNotations.")
    w("Open Scope string_scope.")
    w("Open Scope list_scope.")
    w(PRELUDE.rstrip("\n"))
    w("")
    w("(* ====================================================================== *)")
    w("(* TRANSLATED functions                                                     *)")
    w("(* ====================================================================== *)")
    for name in ORDER:
        emit_function(w, trees, imports, name)
    os.makedirs(outdir, exist_ok=True)
    with open(os.path.join(outdir, "VersionGen.v"), "w") as fh:
        fh.write("\n".join(L) + "\n")
    return len(ORDER)


def main():
    outdir = sys.argv[1] if len(sys.argv) > 1 else os.path.join(os.path.dirname(os.path.abspath(__file__)), "..", "coq", "Gen")
    try:
        n = emit_version(outdir)
    except TranslateError as e:
        print(str(e))
        sys.exit(2)
    print(f"translate_version: {n} version/mode/cost functions -> {outdir}/VersionGen.v")


if __name__ == "__main__":
    main()
