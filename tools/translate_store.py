#!/venv/bin/python
"""Statement-by-statement translation of the result-storing / reading layer of the transaction-context analyses into
Gallina (Gen/StoreGen.v).

Translated (read with `ast` only, never imported):
  (1) teal/context/block_transaction_context.py
        AddrFieldValue (dataclass defaults)                       -> new_AddrFieldValue_gen
        BlockTransactionContext.__init__                          -> init_fields_gen, init_ctx_gen
        BlockTransactionContext.gtxn_context / absolute_context / relative_context
                                                                  -> gtxn_context_gen / absolute_context_gen / relative_context_gen
      teal/functions.py Function.__init__ (the statement that creates one context per block; fingerprinted)
                                                                  -> function_transaction_contexts_gen
  (2) analyses/dataflow/transaction_context/addr_fields.py  AddrFields._set_addr_values -> set_addr_values_gen
                                                            AddrFields._store_results   -> addr_store_block_gen, addr_store_results_gen
      analyses/dataflow/transaction_context/fee_field.py    FeeField._store_results     -> fee_store_block_gen, fee_store_results_gen
      analyses/dataflow/transaction_context/txn_types.py    TxnType._store_results      -> type_store_block_gen, type_store_results_gen
      (GroupIndices._store_results is translated by tools/translate_consts.py.)
Lemmas/StoreGenLemmas.v proves that after each regenerated _store_results the value read back through the regenerated
accessors equals the solver result of the corresponding key.

Reading of Python in Gallina (the fixed PRELUDE text below is the trusted part).
  * objects.  A BlockTransactionContext object is reachable through exactly one path (Function._transaction_contexts[block],
    then one of the three containers of the head object): every such object is created by its own constructor call inside
    a comprehension (checked), no translated method stores or returns a context anywhere else.  An object is therefore read
    as its VALUE: the record ctxobj = (own attributes : bctx, _gtxn_at_index_context : option (list bctx),
    _abs_context : option (list bctx), _relative_context : option (list (Z * bctx))) where bctx (Model/LeafPrelude.v) is
    the record of the ten data attributes the detectors read, and an AddrFieldValue object is LeafPrelude.addrval.
    A tail context (created with tail=True) keeps the class defaults None for its three containers.
  * the three accessor methods return a REFERENCE (cref) to a context inside the head object; `xs[i]` on a list is
    Python's subscript (negative indices count from the end, IndexError otherwise), `d[k]` on a dict raises KeyError.
    `T.attr = e` with T = self._function.transaction_context(b)[.accessor(i)] is tctx_modify: look b up in the table
    of the function (KeyError), evaluate the accessor on the head object, replace the attribute of the referenced context.
  * exceptions are not distinguished (py A = option A); every evaluated sub-expression of a store is a read, so the
    order in which target and value are evaluated is not observable.
  * `self._block_contexts[K][B]` is bc_get (ddict_get / dict_get of Gen/SolverGen.v, KeyError = None).  A set of strings
    is an sset / list string (`list(s)` is the list that represents the set, read up to order, as in translate_consts).
  * `assert isinstance(x, FeeValue)` on a value of the fee dictionary is the typing of that dictionary: no-op.
  * ints are Z; MAX_GROUP_SIZE, MAX_UINT64 are the constants of Gen/Tables.v; the key helpers are those of Gen/RunGen.v
    (their f-strings are fingerprinted here again).
  * `lambda ctx: ctx.<attr>` for an AddrFieldValue attribute is the pair (getter, setter) addr_sel of the attribute;
    `self._set_addr_values(sel(T), v)` mutates the AddrFieldValue object sel(T): the attribute of T is replaced by the
    new state that the translated _set_addr_values returns.

Fail-closed: every statement kind, expression kind, attribute, call and name that is not whitelisted raises
TranslateError.
"""
import ast
import os
import sys

from tcommon import TranslateError, fail, parse, strip_doc, coq_str, T
from translate_keys import indent, same_text, KEY_HELPER_TEXT
import translate_cfg as tc

find_class, find_member, member_text, bound_names, count_bindings, find_toplevel = (
    tc.find_class, tc.find_member, tc.member_text, tc.bound_names, tc.count_bindings, tc.find_toplevel,
)

BTC_REL = "teal/context/block_transaction_context.py"
FN_REL = "teal/functions.py"
AF_REL = "analyses/dataflow/transaction_context/addr_fields.py"
FF_REL = "analyses/dataflow/transaction_context/fee_field.py"
TT_REL = "analyses/dataflow/transaction_context/txn_types.py"
KH_REL = "analyses/dataflow/transaction_context/utils/key_helpers.py"
KH_MODULE = "tealer.analyses.dataflow.transaction_context.utils.key_helpers"
KEY_HELPERS = ("get_gtxn_at_index_key", "get_absolute_index_key", "get_relative_index_key")

# attribute of BlockTransactionContext -> (field of LeafPrelude.bctx, type)
Z, BOOL, STR, LZ, LSTR, ADDRVAL, SSET, FEEVAL, BLK, SEL, PAIRS = "Z", "bool", "string", "list Z", "list string", "addrval", "sset", "feeval", "nat", "addr_sel", "pairs"
CTX_ATTRS = {
    "rekeyto": ("ctx_rekeyto", ADDRVAL), "closeto": ("ctx_closeto", ADDRVAL), "assetcloseto": ("ctx_assetcloseto", ADDRVAL),
    "sender": ("ctx_sender", ADDRVAL), "transaction_types": ("ctx_transaction_types", LSTR), "max_fee": ("ctx_max_fee", Z),
    "max_fee_unknown": ("ctx_max_fee_unknown", BOOL), "group_sizes": ("ctx_group_sizes", LZ), "group_indices": ("ctx_group_indices", LZ),
    "is_gtxn_context": ("ctx_is_gtxn_context", BOOL),
}  # fmt: skip
CTX_ORDER = ["rekeyto", "closeto", "assetcloseto", "sender", "transaction_types", "max_fee", "max_fee_unknown", "group_sizes", "group_indices", "is_gtxn_context"]
CONTAINERS = {"_gtxn_at_index_context": ("c_gtxn", "list", "RGtxn"), "_abs_context": ("c_abs", "list", "RAbs"), "_relative_context": ("c_rel", "dict", "RRel")}
ACCESSORS = {"gtxn_context": ("gtxn_context_gen", "txn_index"), "absolute_context": ("absolute_context_gen", "txn_index"), "relative_context": ("relative_context_gen", "offset")}
ADDR_ATTRS = {"any_addr": ("av_any", BOOL), "no_addr": ("av_no", BOOL), "possible_addr": ("av_possible", LSTR)}
FEE_ATTRS = {"is_unknown": ("fee_unknown", BOOL), "value": ("fee_value", Z)}
CLASS_DEFAULTS = [
    "_gtxn_at_index_context: Optional[List['BlockTransactionContext']] = None",
    "_abs_context: Optional[List['BlockTransactionContext']] = None",
    "_relative_context: Optional[Dict[int, 'BlockTransactionContext']] = None",
]
FINGERPRINTS = [
    (FN_REL, "Function", "blocks", "@property\ndef blocks(self) -> List['BasicBlock']:\n    return self._blocks"),
    (FN_REL, "Function", "transaction_context", "def transaction_context(self, block: 'BasicBlock') -> 'BlockTransactionContext':\n    return self._transaction_contexts[block]"),
]
FUNCTION_INIT_STATEMENTS = [
    "self._blocks: List['BasicBlock'] = blocks",
    "self._transaction_contexts: Dict['BasicBlock', 'BlockTransactionContext'] = {block: BlockTransactionContext() for block in self._blocks}",
]
FEEVALUE_TEXT = "@dataclass\nclass FeeValue:\n    is_unknown: bool = False\n    value: int = MAX_UINT64"
FORBIDDEN_DUNDERS = ("__getattr__", "__getattribute__", "__setattr__", "__slots__", "__eq__", "__hash__", "__bool__", "__len__", "__new__", "__post_init__", "__init_subclass__", "__getitem__", "__setitem__")
RESERVED = {
    "tctx", "self_block_contexts", "f", "acc", "st", "o", "c", "BASE_KEYS", "bc_get", "tctx_modify", "ret", "bind", "py_range", "str_in", "is_none",
    "list_item", "dict_item", "dict_contains", "self_", "tail", "ctxobj", "cref", "mkCtx", "mkBctx", "mkAddrVal", "mkSel",
}

PRELUDE = r"""
(* ====================================================================== *)
(* PRELUDE (fixed text).  The exception monad is the one of Gen/KeysGen.v, dictionaries those of Gen/SolverGen.v,  *)
(* py_range and the three key helpers those of Gen/RunGen.v (key_helpers.py is fingerprinted again by               *)
(* tools/translate_store.py).                                                                                     *)
(* ====================================================================== *)
(* ---- objects.  An AddrFieldValue object is LeafPrelude.addrval, the ten data attributes of a BlockTransactionContext
   object are LeafPrelude.bctx (the record the detectors' closures read).  A BlockTransactionContext object: its own
   attributes and the three containers (class default None; list / list / dict of tail contexts in a head object). *)
Record ctxobj := mkCtx { c_own : bctx; c_gtxn : option (list bctx); c_abs : option (list bctx); c_rel : option (list (Z * bctx)) }.
(* attribute stores: functional updates *)
Definition set_av_any (a : addrval) (v : bool) : addrval := mkAddrVal v (av_no a) (av_possible a).
Definition set_av_no (a : addrval) (v : bool) : addrval := mkAddrVal (av_any a) v (av_possible a).
Definition set_av_possible (a : addrval) (v : list string) : addrval := mkAddrVal (av_any a) (av_no a) v.
Definition set_ctx_rekeyto (o : bctx) (v : addrval) : bctx :=
  mkBctx v (ctx_closeto o) (ctx_assetcloseto o) (ctx_sender o) (ctx_transaction_types o) (ctx_max_fee o) (ctx_max_fee_unknown o) (ctx_group_sizes o) (ctx_group_indices o) (ctx_is_gtxn_context o).
Definition set_ctx_closeto (o : bctx) (v : addrval) : bctx :=
  mkBctx (ctx_rekeyto o) v (ctx_assetcloseto o) (ctx_sender o) (ctx_transaction_types o) (ctx_max_fee o) (ctx_max_fee_unknown o) (ctx_group_sizes o) (ctx_group_indices o) (ctx_is_gtxn_context o).
Definition set_ctx_assetcloseto (o : bctx) (v : addrval) : bctx :=
  mkBctx (ctx_rekeyto o) (ctx_closeto o) v (ctx_sender o) (ctx_transaction_types o) (ctx_max_fee o) (ctx_max_fee_unknown o) (ctx_group_sizes o) (ctx_group_indices o) (ctx_is_gtxn_context o).
Definition set_ctx_sender (o : bctx) (v : addrval) : bctx :=
  mkBctx (ctx_rekeyto o) (ctx_closeto o) (ctx_assetcloseto o) v (ctx_transaction_types o) (ctx_max_fee o) (ctx_max_fee_unknown o) (ctx_group_sizes o) (ctx_group_indices o) (ctx_is_gtxn_context o).
Definition set_ctx_transaction_types (o : bctx) (v : list string) : bctx :=
  mkBctx (ctx_rekeyto o) (ctx_closeto o) (ctx_assetcloseto o) (ctx_sender o) v (ctx_max_fee o) (ctx_max_fee_unknown o) (ctx_group_sizes o) (ctx_group_indices o) (ctx_is_gtxn_context o).
Definition set_ctx_max_fee (o : bctx) (v : Z) : bctx :=
  mkBctx (ctx_rekeyto o) (ctx_closeto o) (ctx_assetcloseto o) (ctx_sender o) (ctx_transaction_types o) v (ctx_max_fee_unknown o) (ctx_group_sizes o) (ctx_group_indices o) (ctx_is_gtxn_context o).
Definition set_ctx_max_fee_unknown (o : bctx) (v : bool) : bctx :=
  mkBctx (ctx_rekeyto o) (ctx_closeto o) (ctx_assetcloseto o) (ctx_sender o) (ctx_transaction_types o) (ctx_max_fee o) v (ctx_group_sizes o) (ctx_group_indices o) (ctx_is_gtxn_context o).
(* `lambda ctx: ctx.<attr>` for an AddrFieldValue attribute: the attribute as (read, replace) *)
Record addr_sel := mkSel { as_get : bctx -> addrval; as_set : bctx -> addrval -> bctx }.

(* ---- references into a head object, as the three accessor methods return them *)
Inductive cref := RSelf | RGtxn (pos : nat) | RAbs (pos : nat) | RRel (key : Z).
Definition is_none {A : Type} (o : option A) : bool := match o with None => true | Some _ => false end.
(* xs[i] on a Python list of length n: position i, or n + i for -n <= i < 0; IndexError otherwise *)
Definition py_index (n : nat) (i : Z) : py nat :=
  if (0 <=? i)%Z then (if (i <? Z.of_nat n)%Z then Some (Z.to_nat i) else None)
  else if (- Z.of_nat n <=? i)%Z then Some (Z.to_nat (Z.of_nat n + i)) else None.
(* self.<container>[i]: TypeError on None *)
Definition list_item {A : Type} (mk : nat -> cref) (l : option (list A)) (i : Z) : py cref :=
  match l with None => None | Some l => option_map mk (py_index (length l) i) end.
Fixpoint zassoc {A : Type} (l : list (Z * A)) (k : Z) : option A :=
  match l with [] => None | (k', v) :: t => if Z.eqb k' k then Some v else zassoc t k end.
Fixpoint zassoc_set {A : Type} (l : list (Z * A)) (k : Z) (v : A) : list (Z * A) :=
  match l with [] => [] | (k', w) :: t => if Z.eqb k' k then (k', v) :: t else (k', w) :: zassoc_set t k v end.
(* `k in self.<dict>` (TypeError on None), self.<dict>[k] (KeyError) *)
Definition dict_contains {A : Type} (d : option (list (Z * A))) (k : Z) : py bool :=
  match d with None => None | Some l => Some (match zassoc l k with Some _ => true | None => false end) end.
Definition dict_item {A : Type} (d : option (list (Z * A))) (k : Z) : py cref :=
  match d with None => None | Some l => match zassoc l k with Some _ => Some (RRel k) | None => None end end.
Fixpoint list_set {A : Type} (l : list A) (n : nat) (v : A) : list A :=
  match l, n with [], _ => [] | _ :: t, O => v :: t | x :: t, S n => x :: list_set t n v end.
(* the context a reference denotes / the head object after the referenced context is replaced *)
Definition deref (c : ctxobj) (r : cref) : py bctx :=
  match r with
  | RSelf => Some (c_own c)
  | RGtxn n => bind (c_gtxn c) (fun l => nth_error l n)
  | RAbs n => bind (c_abs c) (fun l => nth_error l n)
  | RRel k => bind (c_rel c) (fun l => zassoc l k)
  end.
Definition assign (c : ctxobj) (r : cref) (v : bctx) : py ctxobj :=
  match r with
  | RSelf => Some (mkCtx v (c_gtxn c) (c_abs c) (c_rel c))
  | RGtxn n => bind (c_gtxn c) (fun l => Some (mkCtx (c_own c) (Some (list_set l n v)) (c_abs c) (c_rel c)))
  | RAbs n => bind (c_abs c) (fun l => Some (mkCtx (c_own c) (c_gtxn c) (Some (list_set l n v)) (c_rel c)))
  | RRel k => bind (c_rel c) (fun l => Some (mkCtx (c_own c) (c_gtxn c) (c_abs c) (Some (zassoc_set l k v))))
  end.
(* T.<attrs> := upd(T) on the head object c, where T = c itself or c.<accessor>(i) *)
Definition ctx_modify (sel : ctxobj -> py cref) (upd : bctx -> bctx) (c : ctxobj) : py ctxobj :=
  bind (sel c) (fun r => bind (deref c r) (fun o => assign c r (upd o))).
(* the same with c = self._function.transaction_context(b) = Function._transaction_contexts[b] (KeyError) *)
Definition tctx_modify (t : state ctxobj) (b : nat) (sel : ctxobj -> py cref) (upd : bctx -> bctx) : py (state ctxobj) :=
  bind (lookup ctxobj t b) (fun c => bind (ctx_modify sel upd c) (fun c' => ret (update ctxobj t b c'))).
(* self._block_contexts[k][b] *)
Definition bc_get {V : Type} (d : gdict V) (k : string) (b : nat) : py V := dict_get V (ddict_get V d k) b.
Definition str_in (x : string) (l : list string) : bool := existsb (String.eqb x) l.
"""


# ----------------------------------------------------------------------------- small helpers
def is_name(e, n=None):
    return isinstance(e, ast.Name) and (n is None or e.id == n)


def check_var(path, node, name):
    if name in RESERVED or name.startswith("tmp") or not name.isidentifier() or not name.isascii():
        fail(path, node, f"variable name {name} is reserved by the translator")


class Ctx:
    """translation context of one function body"""

    def __init__(self, path, imports, consts, vtype=None, vname=None, class_consts=None):
        self.path, self.imports, self.consts = path, imports, consts
        self.vtype, self.vname = vtype, vname  # Coq type of the values of self._block_contexts
        self.class_consts = class_consts or {}
        self.vars = {}
        self.alias = {}
        self.n = 0
        self.defs = []  # emitted auxiliary definitions (loop bodies over the blocks)
        self.in_block_def = False
        self.loopvars = []
        self.writable, self.allow_lambda, self.block_def = (), False, None

    def fresh(self):
        self.n += 1
        return f"tmp{self.n}"

    def need_import(self, node, name, module):
        if name in self.vars or self.imports.get(name) != module + "." + name:
            fail(self.path, node, f"the name {name} is not {module}.{name}")


def int_expr(cx, e):
    """-> Z term"""
    p = cx.path
    if isinstance(e, ast.Constant) and isinstance(e.value, int) and not isinstance(e.value, bool) and e.value >= 0:
        return f"{e.value}%Z"
    if is_name(e):
        if cx.vars.get(e.id) == Z:
            return e.id
        if e.id in ("MAX_GROUP_SIZE", "MAX_UINT64"):
            cx.need_import(e, e.id, "tealer.utils.algorand_constants")
            return f"(Z.of_N {e.id})"
        fail(p, e, f"name {e.id} in an int expression")
    if isinstance(e, ast.UnaryOp) and isinstance(e.op, ast.USub):
        return f"(Z.opp {int_expr(cx, e.operand)})"
    if isinstance(e, ast.BinOp) and isinstance(e.op, (ast.Add, ast.Sub)):
        f = "Z.add" if isinstance(e.op, ast.Add) else "Z.sub"
        return f"({f} {int_expr(cx, e.left)} {int_expr(cx, e.right)})"
    if isinstance(e, ast.Attribute) and is_name(e.value) and cx.vars.get(e.value.id) == FEEVAL and e.attr == "value":
        return f"(fee_value {e.value.id})"
    fail(p, e, "int expression " + ast.unparse(e)[:60])


def range_expr(cx, e):
    """range(hi) / range(lo, hi) -> list Z term"""
    if not (isinstance(e, ast.Call) and is_name(e.func, "range") and not e.keywords and len(e.args) in (1, 2)):
        fail(cx.path, e, "iterable " + ast.unparse(e)[:60])
    if "range" in cx.vars or "range" in cx.imports:
        fail(cx.path, e, "range is not the builtin")
    if len(e.args) == 1:
        return f"(py_range 0%Z {int_expr(cx, e.args[0])})"
    return f"(py_range {int_expr(cx, e.args[0])} {int_expr(cx, e.args[1])})"


def key_expr(cx, e):
    """-> string term (an analysis key)"""
    p = cx.path
    if is_name(e):
        if cx.vars.get(e.id) == STR:
            return e.id
        if e.id in cx.consts and e.id not in cx.vars:
            return coq_str(cx.consts[e.id])
        fail(p, e, f"name {e.id} as analysis key")
    if isinstance(e, ast.Attribute) and is_name(e.value, "self") and e.attr in cx.class_consts:
        return coq_str(cx.class_consts[e.attr])
    if isinstance(e, ast.Call) and is_name(e.func) and e.func.id in KEY_HELPERS and len(e.args) == 2 and not e.keywords:
        cx.need_import(e, e.func.id, KH_MODULE)
        return f"({e.func.id} {int_expr(cx, e.args[0])} {key_expr(cx, e.args[1])})"
    fail(p, e, "analysis key " + ast.unparse(e)[:60])


def lookup_expr(cx, e):
    """self._block_contexts[K][B] / alias[B] -> monadic term of the value type, or None"""
    if not isinstance(e, ast.Subscript):
        return None
    if is_name(e.value) and e.value.id in cx.alias:
        return f"(bc_get self_block_contexts {cx.alias[e.value.id]} {blk_expr(cx, e.slice)})"
    if isinstance(e.value, ast.Subscript) and same_text(e.value.value, "self._block_contexts"):
        return f"(bc_get self_block_contexts {key_expr(cx, e.value.slice)} {blk_expr(cx, e.slice)})"
    return None


def blk_expr(cx, e):
    if is_name(e) and cx.vars.get(e.id) == BLK:
        return e.id
    fail(cx.path, e, "block expression " + ast.unparse(e)[:60])


def target_expr(cx, e):
    """self._function.transaction_context(B)[.accessor(E)] -> (block term, selector term)"""
    p = cx.path
    if not (isinstance(e, ast.Call) and isinstance(e.func, ast.Attribute) and len(e.args) == 1 and not e.keywords):
        fail(p, e, "context expression " + ast.unparse(e)[:80])
    if same_text(e.func, "self._function.transaction_context"):
        return blk_expr(cx, e.args[0]), "(fun _ => ret RSelf)"
    if e.func.attr in ACCESSORS:
        b, sel = target_expr(cx, e.func.value)
        if sel != "(fun _ => ret RSelf)":
            fail(p, e, "accessor of a tail context")
        return b, f"(fun c => {ACCESSORS[e.func.attr][0]} c {int_expr(cx, e.args[0])})"
    fail(p, e, "context expression " + ast.unparse(e)[:80])


def value_expr(cx, e, want):
    """pure expression of type `want`"""
    p = cx.path
    if want == Z:
        return int_expr(cx, e)
    if want == BOOL:
        if isinstance(e, ast.Constant) and e.value is True:
            return "true"
        if isinstance(e, ast.Constant) and e.value is False:
            return "false"
        fail(p, e, "bool expression " + ast.unparse(e)[:60])
    if want == LSTR:
        # list(x) on a set of strings
        if isinstance(e, ast.Call) and is_name(e.func, "list") and len(e.args) == 1 and not e.keywords and "list" not in cx.vars and "list" not in cx.imports:
            a = e.args[0]
            if is_name(a) and cx.vars.get(a.id) in (LSTR, SSET):
                return a.id
        fail(p, e, "list expression " + ast.unparse(e)[:60])
    fail(p, e, f"expression of type {want}")


def test_expr(cx, e):
    """-> bool term"""
    p = cx.path
    if isinstance(e, ast.Compare) and len(e.ops) == 1:
        op, l, r = e.ops[0], e.left, e.comparators[0]
        if isinstance(op, (ast.Eq, ast.NotEq)):
            t = f"(Z.eqb {int_expr(cx, l)} {int_expr(cx, r)})"
            return t if isinstance(op, ast.Eq) else f"(negb {t})"
        if isinstance(op, (ast.In, ast.NotIn)) and same_text(r, "self.BASE_KEYS") and cx.vtype == SSET:
            t = f"(str_in {key_expr(cx, l)} BASE_KEYS)"
            return t if isinstance(op, ast.In) else f"(negb {t})"
    if isinstance(e, ast.Attribute) and is_name(e.value) and cx.vars.get(e.value.id) == FEEVAL and e.attr == "is_unknown":
        return f"(fee_unknown {e.value.id})"
    fail(p, e, "condition " + ast.unparse(e)[:60])


FORBIDDEN = (
    ast.Try, ast.With, ast.FunctionDef, ast.AsyncFunctionDef, ast.NamedExpr, ast.AugAssign, ast.Delete, ast.Global, ast.Nonlocal, ast.ListComp,
    ast.GeneratorExp, ast.SetComp, ast.DictComp, ast.Yield, ast.YieldFrom, ast.Break, ast.While, ast.Await, ast.ClassDef, ast.Import, ast.ImportFrom,
    ast.Starred, ast.IfExp, ast.Return, ast.Raise,
)  # fmt: skip


def terminates(stmts):
    stmts = strip_doc(stmts)
    return bool(stmts) and isinstance(stmts[-1], ast.Continue)


def block(cx, stmts, depth):
    """statement list of a loop body / function body whose only state is tctx -> term of type py (state ctxobj)"""
    p = cx.path
    stmts = strip_doc(stmts)
    if not stmts:
        return "(ret tctx)"
    st, rest = stmts[0], stmts[1:]
    for node in ast.walk(st):
        if isinstance(node, FORBIDDEN):
            fail(p, node, "statement/expression not accepted: " + type(node).__name__)
        if isinstance(node, ast.Lambda) and not cx.allow_lambda:
            fail(p, node, "lambda")
    if isinstance(st, ast.Continue):
        if depth == 0 or rest:
            fail(p, st, "continue outside a loop / statement after continue")
        return "(ret tctx)"
    if isinstance(st, ast.Assert):
        # assert isinstance(x, FeeValue): the typing of the fee dictionary
        t = st.test
        if st.msg is None and isinstance(t, ast.Call) and is_name(t.func, "isinstance") and len(t.args) == 2 and is_name(t.args[0]) and is_name(t.args[1], "FeeValue"):
            if cx.vars.get(t.args[0].id) == FEEVAL and cx.imports.get("FeeValue") == "<local>" and "isinstance" not in cx.imports:
                return block(cx, rest, depth)
        fail(p, st, "assert " + ast.unparse(st)[:60])
    if isinstance(st, ast.If):
        c = test_expr(cx, st.test)
        tb, eb = terminates(st.body), terminates(st.orelse)
        saved = dict(cx.vars), dict(cx.alias)
        if tb and eb:
            fail(p, st, "both branches end the iteration")
        if tb or eb:
            a = block(cx, st.body if tb else list(st.body) + rest, depth)
            cx.vars, cx.alias = dict(saved[0]), dict(saved[1])
            b = block(cx, st.orelse if eb else list(st.orelse) + rest, depth)
            cx.vars, cx.alias = saved
            return f"(if {c}\n then\n{indent(a)}\n else\n{indent(b)})"
        a = block(cx, st.body, depth)
        if cx.vars != saved[0] or cx.alias != saved[1]:
            # variables bound in a branch are not visible after the join
            cx.vars, cx.alias = dict(saved[0]), dict(saved[1])
        b = block(cx, st.orelse, depth)
        cx.vars, cx.alias = saved
        return f"(bind (if {c}\n then\n{indent(a)}\n else\n{indent(b)}) (fun tctx =>\n{block(cx, rest, depth)}))"
    if isinstance(st, ast.For):
        return for_stmt(cx, st, rest, depth)
    if isinstance(st, (ast.Assign, ast.AnnAssign)):
        return assign_stmt(cx, st, rest, depth)
    if isinstance(st, ast.Expr):
        return call_stmt(cx, st, rest, depth)
    fail(p, st, "statement " + ast.unparse(st)[:60])


def for_stmt(cx, st, rest, depth):
    p = cx.path
    if st.orelse or getattr(st, "type_comment", None):
        fail(p, st, "for-else")
    saved = dict(cx.vars), dict(cx.alias)
    it = st.iter
    if same_text(it, "self._function.blocks"):
        # the loop over the blocks of the function: its body becomes a definition of its own
        if cx.in_block_def or not is_name(st.target):
            fail(p, st, "nested loop over the blocks")
        x = st.target.id
        check_var(p, st, x)
        if x in cx.vars or x in cx.alias:
            fail(p, st, f"loop variable {x} shadows a variable")
        cx.vars[x] = BLK
        cx.in_block_def = True
        body = block(cx, st.body, 1)
        cx.in_block_def = False
        params = "".join(f" ({n} : {cx.vars[n]})" for n in cx.loopvars)
        args = "".join(f" {n}" for n in cx.loopvars)
        extra = " (BASE_KEYS : list string)" if cx.vtype == SSET else ""
        xa = " BASE_KEYS" if cx.vtype == SSET else ""
        cx.defs.append((cx.block_def, f"(self_block_contexts : gdict {cx.vname}){extra}{params} ({x} : nat) (tctx : state ctxobj)", body, st.lineno))
        cx.vars, cx.alias = saved
        loop = f"(fold_left (fun acc {x} => (bind acc (fun tctx => ({cx.block_def} self_block_contexts{xa}{args} {x} tctx))))\n  (function_blocks f) (ret tctx))"
    elif is_name(it) and cx.vars.get(it.id) == PAIRS:
        tg = st.target
        if not (isinstance(tg, ast.Tuple) and len(tg.elts) == 2 and all(is_name(x) for x in tg.elts)) or depth != 0:
            fail(p, st, "loop header " + ast.unparse(st)[:60])
        k, s = tg.elts[0].id, tg.elts[1].id
        for n in (k, s):
            check_var(p, st, n)
            if n in cx.vars or n in cx.alias:
                fail(p, st, f"loop variable {n} shadows a variable")
        cx.vars[k], cx.vars[s] = STR, SEL
        cx.loopvars += [k, s]
        body = block(cx, st.body, depth + 1)
        cx.loopvars = cx.loopvars[:-2]
        cx.vars, cx.alias = saved
        loop = f"(fold_left (fun acc tmp0 => (bind acc (fun tctx =>\n  (let {k} := (fst tmp0) in\n  (let {s} := (snd tmp0) in\n{indent(body, 2)})))))\n  {it.id} (ret tctx))"
    else:
        if not is_name(st.target):
            fail(p, st, "loop header " + ast.unparse(st)[:60])
        x = st.target.id
        check_var(p, st, x)
        if x in cx.vars or x in cx.alias:
            fail(p, st, f"loop variable {x} shadows a variable")
        l = range_expr(cx, it)
        cx.vars[x] = Z
        body = block(cx, st.body, depth + 1)
        cx.vars, cx.alias = saved
        loop = f"(fold_left (fun acc {x} => (bind acc (fun tctx =>\n{indent(body, 2)})))\n  {l} (ret tctx))"
    if not rest:
        return loop
    return f"(bind {loop} (fun tctx =>\n{block(cx, rest, depth)}))"


def assign_stmt(cx, st, rest, depth):
    p = cx.path
    if isinstance(st, ast.Assign):
        if len(st.targets) != 1:
            fail(p, st, "chained assignment")
        tg, value = st.targets[0], st.value
    else:
        tg, value = st.target, st.value
        if value is None:
            fail(p, st, "annotation without value")
    # T.attr = e
    if isinstance(tg, ast.Attribute) and isinstance(tg.value, ast.Call):
        if tg.attr not in cx.writable:
            fail(p, st, f"store to the attribute .{tg.attr}")
        fld, ty = CTX_ATTRS[tg.attr]
        b, sel = target_expr(cx, tg.value)
        # list(self._block_contexts[K][B]): the lookup is evaluated first
        if ty == LSTR and isinstance(value, ast.Call) and is_name(value.func, "list") and len(value.args) == 1 and not value.keywords and "list" not in cx.vars:
            t = lookup_expr(cx, value.args[0])
            if t is not None and cx.vtype == LSTR:
                tmp = cx.fresh()
                return f"(bind {t} (fun {tmp} =>\n(bind (tctx_modify tctx {b} {sel} (fun o => set_{fld} o {tmp})) (fun tctx =>\n{block(cx, rest, depth)}))))"
        v = value_expr(cx, value, ty)
        return f"(bind (tctx_modify tctx {b} {sel} (fun o => set_{fld} o {v})) (fun tctx =>\n{block(cx, rest, depth)}))"
    if not is_name(tg):
        fail(p, st, "assignment target " + ast.unparse(tg)[:60])
    x = tg.id
    check_var(p, st, x)
    if x in cx.alias or (x in cx.vars and cx.vars[x] != cx.vtype):
        fail(p, st, f"re-assignment of {x}")
    # x = [(KEY, lambda ctx: ctx.attr), ..]
    if isinstance(value, ast.List) and cx.allow_lambda:
        if depth != 0 or x in cx.vars or not value.elts:
            fail(p, st, "list of selectors")
        items = []
        for el in value.elts:
            if not (isinstance(el, ast.Tuple) and len(el.elts) == 2 and isinstance(el.elts[1], ast.Lambda)):
                fail(p, el, "selector entry " + ast.unparse(el)[:60])
            lam = el.elts[1]
            a = lam.args
            if len(a.args) != 1 or a.vararg or a.kwarg or a.kwonlyargs or a.defaults or a.posonlyargs:
                fail(p, lam, "lambda signature")
            bd = lam.body
            if not (isinstance(bd, ast.Attribute) and is_name(bd.value, a.args[0].arg) and CTX_ATTRS.get(bd.attr, ("", ""))[1] == ADDRVAL):
                fail(p, lam, "lambda body " + ast.unparse(bd)[:60])
            fld = CTX_ATTRS[bd.attr][0]
            items.append(f"({key_expr(cx, el.elts[0])}, mkSel {fld} set_{fld})")
        cx.vars[x] = PAIRS
        return f"(let {x} := [{'; '.join(items)}] in\n{block(cx, rest, depth)})"
    # x = self._block_contexts[K]: an alias of the inner dictionary
    if isinstance(value, ast.Subscript) and same_text(value.value, "self._block_contexts"):
        if x in cx.vars:
            fail(p, st, f"{x} is bound twice")
        cx.alias[x] = key_expr(cx, value.slice)
        return block(cx, rest, depth)
    # x = self._block_contexts[K][B]
    t = lookup_expr(cx, value)
    if t is None:
        fail(p, st, "assignment " + ast.unparse(st)[:60])
    cx.vars[x] = cx.vtype
    return f"(bind {t} (fun {x} =>\n{block(cx, rest, depth)}))"


def call_stmt(cx, st, rest, depth):
    """self._set_addr_values(sel(T), v)"""
    p, v = cx.path, st.value
    if not (cx.allow_lambda and isinstance(v, ast.Call) and same_text(v.func, "self._set_addr_values") and len(v.args) == 2 and not v.keywords):
        fail(p, st, "expression statement " + ast.unparse(st)[:60])
    a0, a1 = v.args
    if not (isinstance(a0, ast.Call) and is_name(a0.func) and cx.vars.get(a0.func.id) == SEL and len(a0.args) == 1 and not a0.keywords):
        fail(p, st, "first argument of _set_addr_values " + ast.unparse(a0)[:60])
    s = a0.func.id
    b, sel = target_expr(cx, a0.args[0])
    if is_name(a1) and cx.vars.get(a1.id) == SSET:
        return f"(bind (tctx_modify tctx {b} {sel} (fun o => as_set {s} o (set_addr_values_gen (as_get {s} o) {a1.id}))) (fun tctx =>\n{block(cx, rest, depth)}))"
    t = lookup_expr(cx, a1)
    if t is None:
        fail(p, st, "second argument of _set_addr_values " + ast.unparse(a1)[:60])
    tmp = cx.fresh()
    return f"(bind {t} (fun {tmp} =>\n(bind (tctx_modify tctx {b} {sel} (fun o => as_set {s} o (set_addr_values_gen (as_get {s} o) {tmp}))) (fun tctx =>\n{block(cx, rest, depth)}))))"


# ----------------------------------------------------------------------------- source checks
def method_signature(path, fn, expected, returns, static=False):
    a = fn.args
    decos = [ast.unparse(d) for d in fn.decorator_list]
    if a.vararg or a.kwarg or a.kwonlyargs or a.posonlyargs or decos != (["staticmethod"] if static else []):
        fail(path, fn, "signature of " + fn.name)
    got = [(x.arg, ast.unparse(x.annotation) if x.annotation else None) for x in a.args]
    dflt = [ast.unparse(d) for d in a.defaults]
    if got != ([] if static else [("self", None)]) + [(n, t) for n, t, _ in expected] or dflt != [d for _, _, d in expected if d is not None]:
        fail(path, fn, f"signature of {fn.name}: {got} {dflt}")
    r = ast.unparse(fn.returns) if fn.returns else None
    if r != returns:
        fail(path, fn, f"return annotation of {fn.name}: {r}")
    for node in ast.walk(fn):
        if isinstance(node, ast.Name) and isinstance(node.ctx, (ast.Store, ast.Del)) and node.id in ("isinstance", "list", "set", "range", "self", "MAX_GROUP_SIZE", "MAX_UINT64") + KEY_HELPERS:
            fail(path, node, f"{node.id} is re-bound")


def module_string_consts(tree):
    out = {}
    for n in tree.body:
        if isinstance(n, ast.Assign) and len(n.targets) == 1 and is_name(n.targets[0]) and isinstance(n.value, ast.Constant) and isinstance(n.value.value, str):
            if count_bindings(tree, n.targets[0].id) == 1:
                out[n.targets[0].id] = n.value.value
    return out


def check_builtins(path, tree, imports):
    for name in ("isinstance", "list", "set", "range"):
        if count_bindings(tree, name) != 0 or name in imports:
            raise TranslateError(f"translator: {path}: the builtin {name} is re-bound")


def analysis_class(path, tree, imports, name):
    cls = find_class(tree, name, path)
    if [ast.unparse(b) for b in cls.bases] != ["DataflowTransactionContext"] or cls.keywords or cls.decorator_list:
        fail(path, cls, f"bases of {name}")
    if imports.get("DataflowTransactionContext") != "tealer.analyses.dataflow.transaction_context.generic.DataflowTransactionContext":
        fail(path, cls, "DataflowTransactionContext is not the class of generic.py")
    for n in cls.body:
        if isinstance(n, ast.FunctionDef) and n.name in FORBIDDEN_DUNDERS + ("__init__",):
            fail(path, n, f"class {name} defines {n.name}")
    return cls


# ----------------------------------------------------------------------------- (1) the context objects
def emit_context(w):
    path = os.path.join(T, BTC_REL)
    tree = parse(path)
    imports = bound_names(tree)
    check_builtins(path, tree, imports)
    for nm, mod in (("MAX_GROUP_SIZE", "tealer.utils.algorand_constants"), ("MAX_UINT64", "tealer.utils.algorand_constants"), ("ALL_TRANSACTION_TYPES", "tealer.utils.teal_enums"), ("TealerException", "tealer.exceptions")):
        if imports.get(nm) != mod + "." + nm or count_bindings(tree, nm) != 1:
            raise TranslateError(f"translator: {path}: {nm} is not {mod}.{nm}")
    if imports.get("dataclass") != "dataclasses.dataclass" or imports.get("field") != "dataclasses.field":
        raise TranslateError(f"translator: {path}: dataclass / field are not those of dataclasses")
    for nm in ("AddrFieldValue", "BlockTransactionContext"):
        if count_bindings(tree, nm) != 1:
            raise TranslateError(f"translator: {path}: {nm} must be bound exactly once")
    for n in ast.walk(tree):
        if isinstance(n, ast.ClassDef) and n.name not in ("AddrFieldValue", "BlockTransactionContext"):
            fail(path, n, f"class {n.name}")
    # --- AddrFieldValue: a dataclass with three defaulted fields
    acls = find_class(tree, "AddrFieldValue", path)
    if acls.bases or acls.keywords or [ast.unparse(d) for d in acls.decorator_list] != ["dataclass"]:
        fail(path, acls, "AddrFieldValue is not a plain @dataclass")
    vals = {}
    for n in strip_doc(acls.body):
        if not (isinstance(n, ast.AnnAssign) and is_name(n.target) and n.target.id in ADDR_ATTRS and n.target.id not in vals and n.value is not None):
            fail(path, n, "member of AddrFieldValue " + ast.unparse(n)[:60])
        a, ann = n.target.id, ast.unparse(n.annotation)
        if ADDR_ATTRS[a][1] == BOOL and ann == "bool" and isinstance(n.value, ast.Constant) and isinstance(n.value.value, bool):
            vals[a] = "true" if n.value.value else "false"
        elif ADDR_ATTRS[a][1] == LSTR and ann == "List[str]" and same_text(n.value, "field(default_factory=list)"):
            vals[a] = "[]"
        else:
            fail(path, n, "default of AddrFieldValue." + a)
    if [n.target.id for n in strip_doc(acls.body)] != ["any_addr", "no_addr", "possible_addr"]:
        fail(path, acls, "fields of AddrFieldValue")
    w(f"(* {BTC_REL}: AddrFieldValue (line {acls.lineno}): the object AddrFieldValue() creates *)")
    w(f"Definition new_AddrFieldValue_gen : addrval := mkAddrVal {vals['any_addr']} {vals['no_addr']} {vals['possible_addr']}.")
    w("")
    # --- BlockTransactionContext
    cls = find_class(tree, "BlockTransactionContext", path)
    if cls.bases or cls.keywords or cls.decorator_list:
        fail(path, cls, "BlockTransactionContext has bases / decorators")
    members = strip_doc(cls.body)
    got_defaults = [ast.unparse(n) for n in members if isinstance(n, (ast.Assign, ast.AnnAssign))]
    if len(got_defaults) != 3 or not all(same_text(ast.parse(g), t) for g, t in zip(got_defaults, CLASS_DEFAULTS)):
        fail(path, cls, "class attributes of BlockTransactionContext: " + "; ".join(got_defaults))
    meths = [n.name for n in members if isinstance(n, ast.FunctionDef)]
    if meths != ["__init__", "gtxn_context", "absolute_context", "relative_context"] or len(members) != 7:
        fail(path, cls, f"members of BlockTransactionContext: {meths}")
    # attributes are stored by __init__ only
    init = find_member(path, cls, "__init__", None)
    for n in ast.walk(cls):
        if isinstance(n, ast.Attribute) and isinstance(n.ctx, (ast.Store, ast.Del)) and not any(n is x for x in ast.walk(init)):
            fail(path, n, f"store to .{n.attr} outside __init__")
    method_signature(path, init, [("tail", "bool", "False")], "None")
    body = strip_doc(init.body)
    if len(body) < 3 or not (isinstance(body[0], ast.If) and same_text(body[0].test, "not tail") and not body[0].orelse):
        fail(path, init, "__init__ does not start with `if not tail:`")
    cx = Ctx(path, imports, {})
    # containers
    cont = {}
    for s in strip_doc(body[0].body):
        if not (isinstance(s, ast.Assign) and len(s.targets) == 1 and isinstance(s.targets[0], ast.Attribute) and is_name(s.targets[0].value, "self") and s.targets[0].attr in CONTAINERS and s.targets[0].attr not in cont):
            fail(path, s, "statement of the container part " + ast.unparse(s)[:60])
        a = s.targets[0].attr
        v = s.value
        kind = CONTAINERS[a][1]
        if kind == "list" and isinstance(v, ast.ListComp):
            elt, key = v.elt, None
        elif kind == "dict" and isinstance(v, ast.DictComp):
            elt, key = v.value, v.key
        else:
            fail(path, s, f"value of self.{a}")
        if len(v.generators) != 1 or v.generators[0].is_async or not is_name(v.generators[0].target):
            fail(path, s, "comprehension shape")
        g = v.generators[0]
        x = g.target.id
        check_var(path, s, x) if x != "_" else None
        # every element is created by its own constructor call with the literal True
        if not same_text(elt, "BlockTransactionContext(True)"):
            fail(path, s, "the elements are not created by BlockTransactionContext(True)")
        rng = range_expr(cx, g.iter)
        cx.vars[x] = Z
        conds = [test_expr(cx, c) for c in g.ifs]
        if kind == "dict" and not (is_name(key, x) and x != "_"):
            fail(path, s, "dictionary key")
        del cx.vars[x]
        src = rng
        for c in conds:
            src = f"(filter (fun {x} => {c}) {src})"
        cont[a] = f"(Some (map (fun {x} => {'(' + x + ', ' if kind == 'dict' else ''}(init_fields_gen true){')' if kind == 'dict' else ''}) {src}))"
    if sorted(cont) != sorted(CONTAINERS):
        fail(path, body[0], "the three containers are not all created")
    # data attributes
    def fields(stmts, env):
        out = dict(env)
        for s in strip_doc(stmts):
            if isinstance(s, ast.If):
                if not (same_text(s.test, "tail") and s.orelse):
                    fail(path, s, "if in the attribute part")
                a, b = fields(s.body, {}), fields(s.orelse, {})
                if sorted(a) != sorted(b):
                    fail(path, s, "the two branches set different attributes")
                for k in a:
                    if k in out:
                        fail(path, s, f"self.{k} is set twice")
                    out[k] = f"(if tail then {a[k]} else {b[k]})"
                continue
            if isinstance(s, ast.Assign) and len(s.targets) == 1:
                tg, v, ann = s.targets[0], s.value, None
            elif isinstance(s, ast.AnnAssign) and s.value is not None:
                tg, v, ann = s.target, s.value, ast.unparse(s.annotation)
            else:
                fail(path, s, "statement of the attribute part " + ast.unparse(s)[:60])
            if not (isinstance(tg, ast.Attribute) and is_name(tg.value, "self") and tg.attr in CTX_ATTRS):
                fail(path, s, "assignment target " + ast.unparse(tg)[:60])
            a, ty = tg.attr, CTX_ATTRS[tg.attr][1]
            if a in out:
                fail(path, s, f"self.{a} is set twice")
            if ann is not None and ann != {ADDRVAL: "AddrFieldValue", Z: "int", BOOL: "bool"}.get(ty):
                fail(path, s, f"annotation of self.{a}")
            if ty == ADDRVAL and same_text(v, "AddrFieldValue()"):
                out[a] = "new_AddrFieldValue_gen"
            elif ty in (Z, BOOL):
                out[a] = value_expr(cx, v, ty)
            elif ty == LZ and isinstance(v, ast.List) and not v.elts:
                out[a] = "[]"
            elif ty == LZ and isinstance(v, ast.Call) and is_name(v.func, "list") and len(v.args) == 1 and not v.keywords:
                out[a] = range_expr(cx, v.args[0])
            elif ty == LSTR and same_text(v, "list(ALL_TRANSACTION_TYPES)"):
                out[a] = "ALL_TRANSACTION_TYPES"
            else:
                fail(path, s, f"value of self.{a}: " + ast.unparse(v)[:60])
        return out

    attrs = fields(body[1:], {})
    if sorted(attrs) != sorted(CTX_ATTRS):
        fail(path, init, f"__init__ sets {sorted(attrs)}, expected all of {sorted(CTX_ATTRS)}")
    w(f"(* {BTC_REL}: BlockTransactionContext.__init__ (line {init.lineno}), the data attributes (in the order of LeafPrelude.bctx) *)")
    w("Definition init_fields_gen (tail : bool) : bctx :=\n  mkBctx\n" + "\n".join(f"    {attrs[a]} (* {a} *)" for a in CTX_ORDER) + ".")
    w("")
    w(f"(* {BTC_REL}: BlockTransactionContext.__init__ (line {init.lineno}); BlockTransactionContext(True) inside the comprehensions is the")
    w("   tail object: `if not tail` is skipped for it, its containers keep the class default None *)")
    w("Definition init_ctx_gen (tail : bool) : ctxobj :=")
    w("  (if (negb tail)")
    w(f"   then mkCtx (init_fields_gen tail)\n      {cont['_gtxn_at_index_context']}\n      {cont['_abs_context']}\n      {cont['_relative_context']}")
    w("   else mkCtx (init_fields_gen tail) None None None).")
    w("")
    # --- the three accessors
    for m, (gname, arg) in ACCESSORS.items():
        fn = find_member(path, cls, m, None)
        method_signature(path, fn, [(arg, "int", None)], "'BlockTransactionContext'")
        stmts = strip_doc(fn.body)
        cx = Ctx(path, imports, {})
        cx.vars[arg] = Z
        check_var(path, fn, arg)
        used = set()

        def cont_attr(e):
            if isinstance(e, ast.Attribute) and is_name(e.value, "self") and e.attr in CONTAINERS:
                used.add(e.attr)
                return CONTAINERS[e.attr]
            fail(path, e, "container " + ast.unparse(e)[:60])

        def guard(e):
            """-> py bool term"""
            if isinstance(e, ast.Compare) and len(e.ops) == 1:
                op, l, r = e.ops[0], e.left, e.comparators[0]
                if isinstance(op, (ast.Is, ast.IsNot)) and isinstance(r, ast.Constant) and r.value is None:
                    t = f"(is_none ({cont_attr(l)[0]} self_))"
                    return f"(ret {t})" if isinstance(op, ast.Is) else f"(ret (negb {t}))"
                if isinstance(op, (ast.In, ast.NotIn)):
                    fld, kind, _ = cont_attr(r)
                    if kind != "dict":
                        fail(path, e, "`in` on a list")
                    t = f"(dict_contains ({fld} self_) {int_expr(cx, l)})"
                    return t if isinstance(op, ast.In) else f"(bind {t} (fun tmp => ret (negb tmp)))"
                table = {ast.GtE: "Z.geb", ast.Gt: "Z.gtb", ast.LtE: "Z.leb", ast.Lt: "Z.ltb", ast.Eq: "Z.eqb"}
                if type(op) in table:
                    return f"(ret ({table[type(op)]} {int_expr(cx, l)} {int_expr(cx, r)}))"
            fail(path, e, "guard " + ast.unparse(e)[:60])

        def body_term(ss):
            if not ss:
                fail(path, fn, "control reaches the end of the accessor")
            s = ss[0]
            if isinstance(s, ast.If) and not s.orelse and len(strip_doc(s.body)) == 1 and same_text(strip_doc(s.body)[0], "raise TealerException()"):
                return f"(bind {guard(s.test)} (fun tmp => if tmp then None else\n{body_term(ss[1:])}))"
            if isinstance(s, ast.Return) and len(ss) == 1 and isinstance(s.value, ast.Subscript):
                fld, kind, mk = cont_attr(s.value.value)
                i = int_expr(cx, s.value.slice)
                return f"(list_item {mk} ({fld} self_) {i})" if kind == "list" else f"(dict_item ({fld} self_) {i})"
            fail(path, s, "statement of an accessor " + ast.unparse(s)[:60])

        t = body_term(stmts)
        if len(used) != 1:
            fail(path, fn, f"the accessor reads the containers {sorted(used)}")
        w(f"(* {BTC_REL}: BlockTransactionContext.{m} (line {fn.lineno}); returns a reference into the head object *)")
        w(f"Definition {gname} (self_ : ctxobj) ({arg} : Z) : py cref :=\n{indent(t, 2)}.")
        w("")
    # --- Function.__init__
    fnp = os.path.join(T, FN_REL)
    fntree = parse(fnp)
    fcls = find_class(fntree, "Function", fnp)
    for rel, cname_, mname, text in FINGERPRINTS:
        got = member_text(find_member(fnp, fcls, mname, None))
        if not same_text(ast.parse(got), text):
            raise TranslateError(f"translator: {fnp}: {cname_}.{mname} changed (its reading in Gen/StoreGen.v is no longer justified):\n{got}")
    if bound_names(fntree).get("BlockTransactionContext") != "tealer.teal.context.block_transaction_context.BlockTransactionContext":
        raise TranslateError(f"translator: {fnp}: BlockTransactionContext is not the class of block_transaction_context.py")
    finit = strip_doc(find_member(fnp, fcls, "__init__", None).body)
    for want in FUNCTION_INIT_STATEMENTS:
        if sum(1 for s in finit if same_text(s, want)) != 1:
            fail(fnp, fcls, f"Function.__init__ no longer contains exactly once: {want}")
    for n in ast.walk(fcls):
        if isinstance(n, ast.Attribute) and n.attr in ("_transaction_contexts", "_blocks") and isinstance(n.ctx, (ast.Store, ast.Del)):
            par = [s for s in finit if any(n is x for x in ast.walk(s))]
            if not par or not any(same_text(par[0], t) for t in FUNCTION_INIT_STATEMENTS):
                fail(fnp, n, f"Function.{n.attr} is re-bound")
    w(f"(* {FN_REL}: Function.__init__: self._transaction_contexts = {{block: BlockTransactionContext() for block in self._blocks}} *)")
    w("Definition function_transaction_contexts_gen (f : func) : state ctxobj := map (fun block => (block, init_ctx_gen false)) (function_blocks f).")
    w("")
    return 7


# ----------------------------------------------------------------------------- (2) the three _store_results
def check_key_helpers():
    kp = os.path.join(T, KH_REL)
    ktree = parse(kp)
    for name in KEY_HELPERS:
        got = member_text(find_toplevel(ktree, name, kp))
        if not same_text(ast.parse(got), KEY_HELPER_TEXT[name]) or count_bindings(ktree, name) != 1:
            raise TranslateError(f"translator: {kp}: {name} changed (the glue function of Gen/RunGen.v is no longer justified):\n{got}")


def emit_analysis(w, rel, clsname, prefix, vtype, vname, writable, consts_wanted, class_consts_wanted=()):
    path = os.path.join(T, rel)
    tree = parse(path)
    imports = bound_names(tree)
    check_builtins(path, tree, imports)
    for k in KEY_HELPERS:
        if imports.get(k) != KH_MODULE + "." + k or count_bindings(tree, k) != 1:
            raise TranslateError(f"translator: {path}: {k} is not the function of key_helpers.py")
    if imports.get("MAX_GROUP_SIZE") != "tealer.utils.algorand_constants.MAX_GROUP_SIZE" or count_bindings(tree, "MAX_GROUP_SIZE") != 1:
        raise TranslateError(f"translator: {path}: MAX_GROUP_SIZE is not the constant of algorand_constants.py")
    cls = analysis_class(path, tree, imports, clsname)
    mod = module_string_consts(tree)
    consts = {}
    for c in consts_wanted:
        if c not in mod:
            raise TranslateError(f"translator: {path}: the constant {c} is not a string literal bound once at module level")
        consts[c] = mod[c]
    class_consts = {}
    for c in class_consts_wanted:
        hits = [n for n in cls.body if isinstance(n, ast.Assign) and len(n.targets) == 1 and is_name(n.targets[0], c)]
        if len(hits) != 1 or not (is_name(hits[0].value) and hits[0].value.id in mod):
            raise TranslateError(f"translator: {path}: class constant {clsname}.{c}")
        class_consts[c] = mod[hits[0].value.id]
    fn = find_member(path, cls, "_store_results", None)
    method_signature(path, fn, [], "None")
    cx = Ctx(path, imports, consts, vtype, vname, class_consts)
    cx.writable, cx.allow_lambda, cx.block_def = writable, vtype == SSET, f"{prefix}_store_block_gen"
    body = block(cx, fn.body, 0)
    if len(cx.defs) != 1:
        fail(path, fn, "_store_results must contain exactly one loop over self._function.blocks")
    name, params, dbody, line = cx.defs[0]
    w(f"(* {rel}: {clsname}._store_results (line {fn.lineno}), the body of `for block in self._function.blocks` (line {line}) *)")
    w(f"Definition {name} {params} : py (state ctxobj) :=\n{indent(dbody, 2)}.")
    w("")
    extra = " (BASE_KEYS : list string)" if vtype == SSET else ""
    w(f"(* {rel}: {clsname}._store_results (line {fn.lineno}); f is the function under analysis, tctx its table of context objects; returns the final table *)")
    w(f"Definition {prefix}_store_results_gen (f : func) (self_block_contexts : gdict {vname}){extra} (tctx : state ctxobj) : py (state ctxobj) :=\n{indent(body, 2)}.")
    w("")
    return cls, tree, path, imports, mod


def emit_set_addr_values(w, cls, path, imports, mod):
    found = [n for n in cls.body if isinstance(n, ast.FunctionDef) and n.name == "_set_addr_values"]
    if len(found) != 1 or any(is_name(t, "_set_addr_values") for n in cls.body if isinstance(n, ast.Assign) for t in n.targets):
        raise TranslateError(f"translator: {path}: expected exactly one definition of AddrFields._set_addr_values")
    fn = found[0]
    method_signature(path, fn, [("ctx_addr_value", "'AddrFieldValue'", None), ("addr_values", "Set[str]", None)], "None", static=True)
    for c, v in (("ANY_ADDRESS", "ANY_ADDRESS"), ("NO_ADDRESS", "NO_ADDRESS")):
        if mod.get(c) != v:
            raise TranslateError(f"translator: {path}: the constant {c} is not the literal of Gen/Leaves.v")
    seen, lines = [], []

    def marker(e):
        if is_name(e) and e.id in ("ANY_ADDRESS", "NO_ADDRESS"):
            return e.id
        fail(path, e, "address marker " + ast.unparse(e)[:40])

    for s in strip_doc(fn.body):
        if not (isinstance(s, ast.Assign) and len(s.targets) == 1 and isinstance(s.targets[0], ast.Attribute) and is_name(s.targets[0].value, "ctx_addr_value") and s.targets[0].attr in ADDR_ATTRS):
            fail(path, s, "statement of _set_addr_values " + ast.unparse(s)[:60])
        a, v = s.targets[0].attr, s.value
        fld, ty = ADDR_ATTRS[a]
        if ty == BOOL and isinstance(v, ast.Compare) and len(v.ops) == 1 and isinstance(v.ops[0], (ast.In, ast.NotIn)) and is_name(v.comparators[0], "addr_values"):
            t = f"(smem {marker(v.left)} addr_values)"
            t = t if isinstance(v.ops[0], ast.In) else f"(negb {t})"
        elif ty == LSTR and isinstance(v, ast.Call) and is_name(v.func, "list") and len(v.args) == 1 and not v.keywords:
            d = v.args[0]
            if is_name(d, "addr_values"):
                t = "addr_values"
            elif (
                isinstance(d, ast.BinOp) and isinstance(d.op, ast.Sub) and is_name(d.left, "addr_values") and isinstance(d.right, ast.Call)
                and is_name(d.right.func, "set") and len(d.right.args) == 1 and not d.right.keywords and isinstance(d.right.args[0], ast.List)
            ):
                t = f"(set_diff addr_values (set_of_list [{'; '.join(marker(x) for x in d.right.args[0].elts)}]))"
            else:
                fail(path, s, "value of possible_addr " + ast.unparse(v)[:60])
        else:
            fail(path, s, f"value of ctx_addr_value.{a}: " + ast.unparse(v)[:60])
        seen.append(a)
        lines.append(f"(let ctx_addr_value := (set_{fld} ctx_addr_value {t}) in")
    w(f"(* {AF_REL}: AddrFields._set_addr_values (line {fn.lineno}); returns the new state of the AddrFieldValue object *)")
    w("Definition set_addr_values_gen (ctx_addr_value : addrval) (addr_values : sset) : addrval :=\n  " + "\n  ".join(lines) + "\n  ctx_addr_value" + ")" * len(lines) + ".")
    w("")


def base_keys_list(path, tree, cls, mod):
    """BASE_KEYS: List[str] = <module-level list of module-level string constants> -> list of strings"""
    hits = [n for n in cls.body if isinstance(n, (ast.Assign, ast.AnnAssign)) and is_name(n.targets[0] if isinstance(n, ast.Assign) else n.target, "BASE_KEYS")]
    if len(hits) != 1:
        fail(path, cls, "BASE_KEYS")
    v = hits[0].value
    if is_name(v):
        defs = [n for n in tree.body if isinstance(n, ast.Assign) and len(n.targets) == 1 and is_name(n.targets[0], v.id)]
        if len(defs) != 1 or count_bindings(tree, v.id) != 1:
            fail(path, hits[0], f"{v.id} is not bound once")
        v = defs[0].value
    if not (isinstance(v, ast.List) and all(is_name(x) and x.id in mod for x in v.elts)):
        fail(path, hits[0], "BASE_KEYS is not a list of string constants")
    # nothing appends to it
    for n in ast.walk(tree):
        if isinstance(n, ast.Attribute) and n.attr in ("append", "extend", "insert", "remove", "pop", "clear") and isinstance(n.value, (ast.Name, ast.Attribute)) and ast.unparse(n.value).split(".")[-1] in ("BASE_KEYS", "TX_FIELDS"):
            fail(path, n, "BASE_KEYS is mutated")
    return [mod[x.id] for x in v.elts]


def emit_store(outdir):
    check_key_helpers()
    L = []
    w = L.append
    w("(* GENERATED by tools/translate.py (translate_store) from /repo/tealer -- do not edit *)")
    w("(* teal/context/block_transaction_context.py (AddrFieldValue, BlockTransactionContext.__init__ and its three accessors),")
    w("   the _store_results of transaction_context/addr_fields.py (with _set_addr_values), fee_field.py, txn_types.py,")
    w("   statement by statement.  See tools/translate_store.py for the reading. *)")
    w("From Coq Require Import String List NArith ZArith Bool Arith.")
    w("From Tealer Require Import Tables LeafPrelude Leaves Syntax Cfg StackAst Keys KeysGen Analysis GraphGen SolverGen RunGen.")
    w("Import ListNotations.")
    w("Open Scope string_scope.")
    w("Open Scope list_scope.")
    w(PRELUDE.rstrip("\n"))
    w("")
    w("(* ====================================================================== *)")
    w("(* TRANSLATED functions                                                     *)")
    w("(* ====================================================================== *)")
    n = emit_context(w)
    # fee
    ffp = os.path.join(T, FF_REL)
    fftree = parse(ffp)
    fv = [c for c in fftree.body if isinstance(c, ast.ClassDef) and c.name == "FeeValue"]
    if len(fv) != 1 or not same_text(ast.parse(member_text(fv[0])), FEEVALUE_TEXT):
        raise TranslateError(f"translator: {ffp}: the dataclass FeeValue changed (LeafPrelude.feeval is no longer its reading)")
    emit_analysis(w, FF_REL, "FeeField", "fee", FEEVAL, "feeval", ("max_fee", "max_fee_unknown"), ["FEE_KEY"])
    # txn types
    emit_analysis(w, TT_REL, "TxnType", "type", LSTR, "(list string)", ("transaction_types",), [], ["TRANSACTION_TYPE_KEY"])
    # addr
    afp = os.path.join(T, AF_REL)
    aftree = parse(afp)
    afimports = bound_names(aftree)
    afcls = analysis_class(afp, aftree, afimports, "AddrFields")
    afmod = module_string_consts(aftree)
    emit_set_addr_values(w, afcls, afp, afimports, afmod)
    cls, tree, path, _, mod = emit_analysis(w, AF_REL, "AddrFields", "addr", SSET, "sset", (), ["REKEY_TO_KEY", "CLOSE_REMAINDER_TO_KEY", "ASSET_CLOSE_TO_KEY", "SENDER_KEY"])
    keys = base_keys_list(path, tree, cls, mod)
    w(f"(* {AF_REL}: AddrFields.BASE_KEYS *)")
    w(f"Definition addr_BASE_KEYS_gen : list string := [{'; '.join(coq_str(k) for k in keys)}].")
    os.makedirs(outdir, exist_ok=True)
    with open(os.path.join(outdir, "StoreGen.v"), "w") as fh:
        fh.write("\n".join(L) + "\n")
    return n + 7


def main():
    outdir = sys.argv[1] if len(sys.argv) > 1 else os.path.join(os.path.dirname(os.path.abspath(__file__)), "..", "coq", "Gen")
    try:
        n = emit_store(outdir)
    except TranslateError as e:
        print(str(e))
        sys.exit(2)
    print(f"translate_store: {n} context / result-storing functions -> {outdir}/StoreGen.v")


if __name__ == "__main__":
    main()
