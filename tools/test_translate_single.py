#!/venv/bin/python
"""Mutation test of the source -> Gen/SingleGen.v tie (translate_single.py + Lemmas/SingleGenLemmas.v).

For every mutation of a scratch copy of the tool's Python source:
  * the translator stops (TranslateError), OR
  * the generated Gen/SingleGen.v changes AND Lemmas/SingleGenLemmas.v no longer compiles against it.
A control run (no mutation) must regenerate the committed text and compile.

usage: VERIF_REPO=/tmp/cleanrepo /venv/bin/python tools/test_translate_single.py
       (needs an up-to-date build of coq/ : `make` in coq/)
"""
import difflib
import os
import re
import shutil
import subprocess
import sys
import tempfile

HERE = os.path.dirname(os.path.abspath(__file__))
ROOT = os.path.dirname(HERE)
COQ = os.path.join(ROOT, "coq")
PY = "/venv/bin/python"
REPO = os.environ.get("VERIF_REPO", "/repo")
TC = "tealer/analyses/dataflow/transaction_context"

MUTATIONS = [
    ("control", "no mutation", None, None, None),
    (
        "i",
        "_mirrored_comparison: Less -> GreaterE",
        f"{TC}/fee_field.py",
        "    if isinstance(ins, Less):\n        return Greater()\n",
        "    if isinstance(ins, Less):\n        return GreaterE()\n",
    ),
    (
        "ii",
        "_get_asserted_fee: constant-first branch does not mirror",
        f"{TC}/fee_field.py",
        "                # `int c; txn Fee; <` is `Fee > c`\n                ins = _mirrored_comparison(ins)\n",
        "                # `int c; txn Fee; <` is `Fee > c`\n",
    ),
    (
        "iii",
        "txn_types: constant-first OnCompletion decoded with the TypeEnum table",
        f"{TC}/txn_types.py",
        "            elif is_value_matches_key(key, arg2, OnCompletion) and value_2 is not None:\n"
        "                compared_on_completion = _known_constant(oncompletion_to_tealer_type, value_2)\n",
        "            elif is_value_matches_key(key, arg2, OnCompletion) and value_2 is not None:\n"
        "                compared_on_completion = _known_constant(transaction_type_to_tealer_type, value_2)\n",
    ),
    (
        "iv-a",
        "int_fields (GroupSize): field-first branch takes the field operand as the constant",
        f"{TC}/int_fields.py",
        "            if isinstance(ins1, Global) and isinstance(ins1.field, GroupSize):\n                is_int, value = is_int_push_ins(ins2)\n",
        "            if isinstance(ins1, Global) and isinstance(ins1.field, GroupSize):\n                is_int, value = is_int_push_ins(ins1)\n",
    ),
    (
        "iv-b",
        "int_fields (GroupIndex): constant-first branch takes the other operand as the constant",
        f"{TC}/int_fields.py",
        "            elif isinstance(ins2, Txn) and isinstance(ins2.field, GroupIndex):\n                is_int, value = is_int_push_ins(ins1)\n",
        "            elif isinstance(ins2, Txn) and isinstance(ins2.field, GroupIndex):\n                is_int, value = is_int_push_ins(ins2)\n",
    ),
    (
        "v",
        "addr_fields: field-first branch reads the address from the field operand",
        f"{TC}/addr_fields.py",
        "        elif is_value_matches_key(key, arg1):\n            asserted_addresses = self._get_asserted_address(arg2.instruction)\n",
        "        elif is_value_matches_key(key, arg1):\n            asserted_addresses = self._get_asserted_address(arg1.instruction)\n",
    ),
    (
        "vi",
        "addr_fields: Neq returns the pair in the Eq order",
        f"{TC}/addr_fields.py",
        "            return asserted_addresses, self._universal_set()\n        return self._universal_set(), asserted_addresses\n",
        "            return asserted_addresses, self._universal_set()\n        return asserted_addresses, self._universal_set()\n",
    ),
    (
        "vii",
        "_get_asserted_fee: operands indexed from the end (unsupported shape)",
        f"{TC}/fee_field.py",
        "            arg1 = ins_stack_value.args[0]\n            arg2 = ins_stack_value.args[1]\n            compared_value: Optional[FeeValue] = None\n",
        "            arg1 = ins_stack_value.args[-2]\n            arg2 = ins_stack_value.args[-1]\n            compared_value: Optional[FeeValue] = None\n",
    ),
    (
        "viii",
        "_get_asserted_fee: unknown-first branch does not mirror",
        f"{TC}/fee_field.py",
        "                compared_value = FeeValue(is_unknown=True)\n                ins = _mirrored_comparison(ins)\n",
        "                compared_value = FeeValue(is_unknown=True)\n",
    ),
    # ---- twin audit: same-typed names written for each other (t*), swapped argument order / tuple components (a*)
    (
        "t1",
        "TWIN _mirrored_comparison: Greater -> LessE (for Less)",
        f"{TC}/fee_field.py",
        "    if isinstance(ins, Greater):\n        return Less()\n",
        "    if isinstance(ins, Greater):\n        return LessE()\n",
    ),
    (
        "t2",
        "TWIN _get_asserted_fee: field-first branch reads the constant from arg1",
        f"{TC}/fee_field.py",
        "            elif is_value_matches_key(key, arg1):\n                is_int, value = is_int_push_ins(arg2.instruction)\n",
        "            elif is_value_matches_key(key, arg1):\n                is_int, value = is_int_push_ins(arg1.instruction)\n",
    ),
    (
        "t3",
        "TWIN int_fields._get_asserted_single: the two wrapper calls exchanged",
        f"{TC}/int_fields.py",
        "            return self._get_asserted_groupsizes(ins_stack_value)\n        return self._get_asserted_groupindices(ins_stack_value)\n",
        "            return self._get_asserted_groupindices(ins_stack_value)\n        return self._get_asserted_groupsizes(ins_stack_value)\n",
    ),
    (
        "t4",
        "TWIN int_fields (GroupSize): universe of the GroupIndex key",
        f"{TC}/int_fields.py",
        "        U = list(self.UNIVERSAL_SETS[self.GROUP_SIZE_KEY])\n",
        "        U = list(self.UNIVERSAL_SETS[self.GROUP_INDEX_KEY])\n",
    ),
    (
        "t5",
        "TWIN txn_types: TypeEnum (field first) complemented in APPLICATION_TRANSACTION_TYPES",
        f"{TC}/txn_types.py",
        "                compared_type = _known_constant(transaction_type_to_tealer_type, value_3)\n"
        "                if compared_type is not None:\n"
        "                    true_values, false_values = set([compared_type]), set(\n"
        "                        TYPEENUM_TRANSACTION_TYPES\n",
        "                compared_type = _known_constant(transaction_type_to_tealer_type, value_3)\n"
        "                if compared_type is not None:\n"
        "                    true_values, false_values = set([compared_type]), set(\n"
        "                        APPLICATION_TRANSACTION_TYPES\n",
    ),
    (
        "t6",
        "TWIN txn_types: TypeEnum (field first) decodes the constant of the field operand",
        f"{TC}/txn_types.py",
        "            if is_value_matches_key(key, arg1, TypeEnum) and value_3 is not None:\n"
        "                compared_type = _known_constant(transaction_type_to_tealer_type, value_3)\n",
        "            if is_value_matches_key(key, arg1, TypeEnum) and value_3 is not None:\n"
        "                compared_type = _known_constant(transaction_type_to_tealer_type, value_2)\n",
    ),
    (
        "t7",
        "TWIN addr_fields: global ZeroAddress is the universal set",
        f"{TC}/addr_fields.py",
        "            # ZeroAddress\n            return self._null_set()\n",
        "            # ZeroAddress\n            return self._universal_set()\n",
    ),
    (
        "a1",
        "PAIR int_fields (GroupSize): (complement, asserted) returned",
        f"{TC}/int_fields.py",
        "            return set(asserted_values), set(U) - set(asserted_values)\n        return set(U), set(U)\n\n    def _get_asserted_groupindices(",
        "            return set(U) - set(asserted_values), set(asserted_values)\n        return set(U), set(U)\n\n    def _get_asserted_groupindices(",
    ),
    (
        "a2",
        "ARGS int_fields (GroupIndex): set difference asserted - U",
        f"{TC}/int_fields.py",
        "            return set(asserted_values), set(U) - set(asserted_values)\n        return set(U), set(U)\n\n    def _get_asserted_single(",
        "            return set(asserted_values), set(asserted_values) - set(U)\n        return set(U), set(U)\n\n    def _get_asserted_single(",
    ),
    (
        "a3",
        "PAIR txn_types: Eq returns (false, true), Neq (true, false)",
        f"{TC}/txn_types.py",
        "                if isinstance(ins1, Eq):\n                    return true_values, false_values\n                return false_values, true_values\n",
        "                if isinstance(ins1, Eq):\n                    return false_values, true_values\n                return true_values, false_values\n",
    ),
    (
        "a4",
        "ARGS txn_types: ApplicationID set difference {ApplCreation} - APPLICATION",
        f"{TC}/txn_types.py",
        "            return set(APPLICATION_TRANSACTION_TYPES) - set(\n                [TealerTransactionType.ApplCreation]\n            ), set([TealerTransactionType.ApplCreation])\n",
        "            return set([TealerTransactionType.ApplCreation]) - set(\n                APPLICATION_TRANSACTION_TYPES\n            ), set([TealerTransactionType.ApplCreation])\n",
    ),
    (
        "a5",
        "PAIR addr_fields: Eq and Neq pairs exchanged",
        f"{TC}/addr_fields.py",
        "            return asserted_addresses, self._universal_set()\n        return self._universal_set(), asserted_addresses\n",
        "            return self._universal_set(), asserted_addresses\n        return asserted_addresses, self._universal_set()\n",
    ),
    (
        "a6",
        "PAIR fee_field: (value, is_int) = is_int_push_ins(..) in the constant-first branch",
        f"{TC}/fee_field.py",
        "            elif is_value_matches_key(key, arg2):\n                is_int, value = is_int_push_ins(arg1.instruction)\n",
        "            elif is_value_matches_key(key, arg2):\n                value, is_int = is_int_push_ins(arg1.instruction)\n",
    ),
]


def sh(cmd, cwd=None, env=None, timeout=1500):
    e = dict(os.environ)
    if env:
        e.update(env)
    p = subprocess.run(cmd, shell=True, cwd=cwd, env=e, stdout=subprocess.PIPE, stderr=subprocess.STDOUT, timeout=timeout, check=False)
    return p.returncode, p.stdout.decode(errors="replace")


def enclosing(vfile, line):
    """name of the Lemma/Theorem containing `line`"""
    name = "?"
    with open(vfile) as f:
        for i, l in enumerate(f, 1):
            m = re.match(r"\s*(Lemma|Theorem|Corollary|Definition)\s+(\w+)", l)
            if m and i <= line:
                name = m.group(2)
            if i > line:
                break
    return name


def compile_against(work, gen_dir, tag):
    """compile SingleGen.v of gen_dir and a copy of SingleGenLemmas.v against it; returns (ok, message)"""
    g = os.path.join(work, f"gen_{tag}")
    l = os.path.join(work, f"lem_{tag}")
    os.makedirs(g)
    os.makedirs(l)
    for base in ("Tables", "Leaves"):
        if open(os.path.join(gen_dir, base + ".v"), "rb").read() != open(os.path.join(COQ, "Gen", base + ".v"), "rb").read():
            return False, f"Gen/{base}.v changed as well"
        shutil.copy(os.path.join(COQ, "Gen", base + ".vo"), g)
    shutil.copy(os.path.join(gen_dir, "SingleGen.v"), g)
    q = f"-Q {COQ}/Model Tealer -Q {g} Tealer -Q {COQ}/Spec Tealer -Q {COQ}/Lemmas Tealer"
    rc, out = sh(f"timeout 900 coqc {q} {g}/SingleGen.v 2>&1")
    if rc != 0:
        first = [x for x in out.splitlines() if x.strip()]
        return False, "Gen/SingleGen.v does not compile: " + " ".join(first[:3])[:160]
    lem = os.path.join(l, "SingleGenLemmasMut.v")
    shutil.copy(os.path.join(COQ, "Lemmas", "SingleGenLemmas.v"), lem)
    rc, out = sh(f"timeout 1200 coqc {q} -Q {l} Tealer {lem} 2>&1")
    if rc == 0:
        return True, "SingleGenLemmas.v compiles"
    m = re.search(r'line (\d+), characters', out)
    where = enclosing(lem, int(m.group(1))) if m else "?"
    return False, f"SingleGenLemmas.v fails in `{where}`" + (f" (line {m.group(1)})" if m else "")


def main():
    if not os.path.exists(os.path.join(COQ, "Lemmas", "SingleGenLemmas.vo")):
        print("coq/ is not built (Lemmas/SingleGenLemmas.vo missing): run make first")
        sys.exit(2)
    work = tempfile.mkdtemp(prefix="tsingle_")
    scratch = os.path.join(work, "repo")
    shutil.copytree(os.path.join(REPO, "tealer"), os.path.join(scratch, "tealer"), ignore=shutil.ignore_patterns("__pycache__"))
    committed = open(os.path.join(COQ, "Gen", "SingleGen.v")).read()
    rows = []
    ok_all = True
    for tag, desc, rel, old, new in MUTATIONS:
        path = os.path.join(scratch, rel) if rel else None
        orig = None
        if path:
            orig = open(path).read()
            if orig.count(old) != 1:
                rows.append((tag, desc, "MUTATION DOES NOT APPLY", "-", False))
                ok_all = False
                continue
            with open(path, "w") as f:
                f.write(orig.replace(old, new))
        out_dir = os.path.join(work, f"out_{tag}")
        rc, out = sh(f"{PY} {HERE}/translate.py {out_dir}", env={"VERIF_REPO": scratch})
        if path:
            with open(path, "w") as f:
                f.write(orig)
        if rc != 0:
            msg = out.strip().splitlines()[-1] if out.strip() else f"rc={rc}"
            msg = msg.replace(scratch + "/", "")
            detected = tag != "control"
            rows.append((tag, desc, "translator stops", msg[:150], detected))
            ok_all &= detected
            continue
        gen = open(os.path.join(out_dir, "SingleGen.v")).read()
        changed = gen != committed
        d = list(difflib.unified_diff(committed.splitlines(), gen.splitlines(), lineterm="", n=0))
        nlines = f"-{sum(1 for x in d[2:] if x.startswith('-'))}/+{sum(1 for x in d[2:] if x.startswith('+'))}"
        ok, msg = compile_against(work, out_dir, tag)
        if tag == "control":
            good = (not changed) and ok
            rows.append((tag, desc, "text identical to coq/Gen/SingleGen.v" if not changed else "TEXT DIFFERS from coq/Gen/SingleGen.v", msg, good))
            ok_all &= good
        else:
            good = changed and not ok
            rows.append((tag, desc, f"Gallina changes ({nlines} lines)" if changed else "GALLINA UNCHANGED", msg, good))
            ok_all &= good
    w0 = max(len(r[0]) for r in rows)
    w1 = max(len(r[1]) for r in rows)
    w2 = max(len(r[2]) for r in rows)
    print(f"{'id':<{w0}} | {'mutation':<{w1}} | {'translator':<{w2}} | proof / message | verdict")
    print("-" * (w0 + w1 + w2 + 40))
    for tag, desc, a, b, good in rows:
        verdict = ("ok" if good else "FAIL") if tag == "control" else ("detected" if good else "NOT DETECTED")
        print(f"{tag:<{w0}} | {desc:<{w1}} | {a:<{w2}} | {b} | {verdict}")
    shutil.rmtree(work, ignore_errors=True)
    print("RESULT:", "all mutations detected" if ok_all else "FAILURE")
    sys.exit(0 if ok_all else 1)


if __name__ == "__main__":
    main()
