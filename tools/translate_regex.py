#!/venv/bin/python
"""Statement-by-statement translation of tealer's regex engine into Gallina (Gen/RegexGen.v).

Translated (read with `ast` only, never imported), all from utils/regex/regex.py:
  _find_label         -> find_label_gen
  _is_equal           -> is_equal_gen
  _is_match           -> is_match_gen
  _successors         -> successors_gen
  _find_instructions  -> find_instructions_gen      (recursive; the sets `visited`, `covered` and the list `matches`
                                                     are mutated: they are threaded as state)
  match_regex         -> match_regex_gen            (+ the hoisted `while` loop match_regex_gen_while1)
The hand-written counterpart is Model/Regex.v; Lemmas/RegexGenLemmas.v relates the generated functions to it.

Reading of Python in Gallina.  The exception monad (`py A := option A`, ret, bind, ifE, andE, orE, notE, subscript) is
the one of the fixed prelude of Gen/KeysGen.v, imported, not repeated.  In addition:
  * values.  An Instruction OF THE CONTRACT is its position (`nat`) in the program `p : prog` (every attribute read
    looks the position up: a position outside the program is an exception); an Instruction OF THE PATTERN (built by
    parse_regex, never linked into a contract) is a value of `instr`.  Which parameter is which is fixed by the table
    FUNCS below (the Python annotation is `Instruction` for both).  Optional[Instruction] is `option nat` (an
    instruction used where an Optional is expected is wrapped in `Some`), str is `string`, int is `Z`, List[..] is
    `list ..`, Set[Instruction] is `list nat` read through pyset_mem / pyset_add / pyset_union (an element is
    added in front, only when it is not a member; the iteration order of a set -- unspecified in Python -- is the
    order of that list), Dict[Instruction, List[Instruction]] built with defaultdict(list) is an association list
    (dd_get: [] for a missing key; dd_append), Teal is `teal`, Regex is the pair (label, instructions).
  * every function takes the program `p` first; in match_regex the program is `teal_prog contract`.
  * recursion: `Fixpoint find_instructions_gen (p : prog) (fuel : nat) .. {struct fuel}`; the translated body sits
    under `S fuel`, every recursive call passes the decremented `fuel`; `O => None` (budget exhausted).  A function
    that calls it takes `fuel` as well and passes it on.
  * mutable state.  _find_instructions mutates the objects bound to its parameters visited, matches, covered.  They
    are threaded: the translated function returns (result, visited, matches, covered); a call
    `_find_instructions(a, b, x, y, z)` (x, y, z: three distinct local names) re-binds x, y, z.  The call is accepted as
    an expression statement and as the whole test of an `if`.  Local lists/sets/dicts are re-bound at every mutation:
    `xs.append(e)` is `xs := xs ++ [e]`, `s.add(e)` is `s := pyset_add e s`, `d[k].append(e)` is `d := dd_append d k e`,
    `x = xs.pop()` is `(x, xs) <- list_pop xs` (IndexError on []), `s |= t` is `s := pyset_union s t`.
    Aliasing is excluded syntactically: only names whose every binding is a fresh object (a literal, set(),
    defaultdict(list), a comprehension, `+`) or a mutable parameter of _find_instructions may be mutated; a list that
    was stored in another container may no longer be mutated; a loop body may not mutate what the loop iterates.
  * truthiness: `if xs:` / `while xs:` / `xs and ..` on a list is truthy_list, `not x` on an Optional[Instruction] is
    "x is None" and on an Instruction is false (no class of instructions.py defines __bool__ / __len__: checked).
    `a and b` / `a or b` are accepted in conditions only.
  * `x in s` on a set of instructions is identity (no class of instructions.py defines __eq__ / __hash__: checked),
    i.e. equality of positions.  `type(a) is type(b)` is equality of the class names, `str(a) == str(b)` equality of the
    printed texts (ins_type / ins_str for a position, pat_type / pat_str for a pattern instruction).
  * `return` in the middle of a function: an `if` whose branches may fall through and that is followed by more
    statements is translated with a JOIN POINT when the continuation is needed more than once
        let kN := fun (<the variables assigned in the if>) => <what follows> in if c then .. (kN ..) else (kN ..).
    `if x is None: <returns>` / `if not x: <returns>` narrow x : option nat to nat in what follows (a match).
  * `for x in e: body` is a fold over the list `e` (evaluated once, before the loop) whose state is the tuple of the
    variables (re)assigned in the body and bound before the loop (loops nest).  `continue` ends the body; a `return v`
    inside the body adds a first component `option R` to the state (once it is `Some v` the remaining iterations do
    nothing and the loop is followed by `return v`); a `break` adds a boolean component in the same way.
    `for _, x in enumerate(xs)` iterates xs; `range(a, b)` is py_range a b.  The loop variable is not visible after
    the loop.
  * `while c: body` is a separate structurally recursive function NAME_whileN (p) (wfuel) <variables read> <state>
    with its own budget `wfuel` (`O => None`); the enclosing function takes `wfuel` as a parameter.
  * `print(..)`: no effect (the formatted values must be variables: str() of an object is taken to be total).
  * the object graph is read through the FIXED glue table of the prelude; the Python text of every property it stands
    for is fingerprinted.

Fail-closed: every statement kind, expression kind, attribute name, call name and variable type that is not
whitelisted below raises TranslateError.
"""
import ast
import os
import sys

from tcommon import TranslateError, fail, parse, strip_doc, T, coq_str
from translate_keys import indent
from translate_search import bound_names, count_bindings, unparse_nodoc, find_def, find_toplevel, signature

RX_REL = "utils/regex/regex.py"
INS_REL = "teal/instructions/instructions.py"
BB_REL = "teal/basic_blocks.py"
SUB_REL = "teal/subroutine.py"
TEAL_REL = "teal/teal.py"

# ----------------------------------------------------------------------------- types
INS = ("ins",)  # an Instruction of the contract: a position
PAT = ("pat",)  # an Instruction of the pattern: an instr
BOOL = ("bool",)
STR = ("string",)
INT = ("Z",)
TEAL = ("teal",)
REGEX = ("Regex",)
DICT = ("dict",)  # Dict[Instruction, List[Instruction]]
UNIT = ("unit",)


def tlist(t):
    return ("list", t)


def tset(t):
    return ("set", t)


def topt(t):
    return ("option", t)


def tprod(a, b):
    return ("prod", a, b)


def coqty(t, top=True):
    if t is None:
        raise TranslateError("translator: a value whose type is not determined")
    if t[0] == "ins":
        return "nat"
    if t[0] == "pat":
        return "instr"
    if t[0] in ("bool", "string", "Z", "teal", "Regex", "unit"):
        return t[0]
    if t[0] == "dict":
        return "list (nat * list nat)" if top else "(list (nat * list nat))"
    if t[0] in ("list", "option", "set"):
        s = f"{'list' if t[0] == 'set' else t[0]} {coqty(t[1], False)}"
        return s if top else f"({s})"
    if t[0] == "prod":
        return f"({coqty(t[1], False)} * {coqty(t[2], False)})"
    raise TranslateError(f"translator: type {t}")


def unify(a, b):
    """most specific common type of two types (None components are undetermined), or None"""
    if a is None:
        return b
    if b is None:
        return a
    if a == b:
        return a
    if a[0] != b[0] or len(a) != len(b):
        return None
    parts = [unify(x, y) for x, y in zip(a[1:], b[1:])]
    if any(p is None and not (x is None and y is None) for p, x, y in zip(parts, a[1:], b[1:])):
        return None
    return (a[0],) + tuple(parts)


def determined(t):
    return t is not None and all(determined(x) for x in t[1:])


def is_mutable(t):
    return t is not None and t[0] in ("list", "set", "dict")


# the annotations of local variables (a local is always an instruction of the contract)
LOCAL_ANNOTATIONS = {
    "List[Instruction]": tlist(INS),
    "List[List[Instruction]]": tlist(tlist(INS)),
    "Set[Instruction]": tset(INS),
    "Dict[Instruction, List[Instruction]]": DICT,
    "Instruction": INS,
    "Optional[Instruction]": topt(INS),
    "bool": BOOL,
}

# the translated functions: parameters (name, annotation text, type), return (annotation text, type), state = the
# parameters whose objects are mutated (threaded)
FUNCS = {
    "_find_label": dict(gen="find_label_gen", params=[("instructions", "List[Instruction]", tlist(INS)), ("label", "str", STR)], returns=("Optional[Instruction]", topt(INS)), state=[]),
    "_is_equal": dict(gen="is_equal_gen", params=[("a", "Instruction", INS), ("b", "Instruction", PAT)], returns=("bool", BOOL), state=[]),
    "_is_match": dict(gen="is_match_gen", params=[("current_instruction", "Optional[Instruction]", topt(INS)), ("regex", "List[Instruction]", tlist(PAT))], returns=("bool", BOOL), state=[]),
    "_successors": dict(gen="successors_gen", params=[("ins", "Instruction", INS)], returns=("List[Instruction]", tlist(INS)), state=[]),
    "_find_instructions": dict(
        gen="find_instructions_gen",
        params=[
            ("current_instruction", "Instruction", INS),
            ("regex", "List[Instruction]", tlist(PAT)),
            ("visited", "Set[Instruction]", tset(INS)),
            ("matches", "List[List[Instruction]]", tlist(tlist(INS))),
            ("covered", "Set[Instruction]", tset(INS)),
        ],
        returns=("bool", BOOL),
        state=["visited", "matches", "covered"],
    ),
    "match_regex": dict(
        gen="match_regex_gen",
        params=[("contract", "Teal", TEAL), ("regex", "Regex", REGEX)],
        returns=("Tuple[List[List[Instruction]], Set[Instruction]]", tprod(tlist(tlist(INS)), tset(INS))),
        state=[],
    ),
}

# Coq keywords used as Python variable names are renamed
RENAME = {"match": "match_"}

BUILTINS = ("len", "isinstance", "type", "str", "enumerate", "range", "set", "print")

RESERVED = {
    "p", "fuel", "wfuel", "acc", "st", "ret", "bind", "py", "ifE", "notE", "andE", "orE", "subscript", "truthy_list", "truthy_instruction",
    "truthy_opt_instruction", "is_none", "len", "py_range", "assert_true", "mapE", "filterE", "list_pop", "pyset_empty", "pyset_mem", "pyset_add",
    "pyset_union", "pyset_elements", "dd_empty", "dd_get", "dd_append", "ins_attr_next", "ins_attr_label", "ins_isinstance_Label",
    "ins_isinstance_Callsub", "ins_called_subroutine_entry_entry_instr", "ins_type", "ins_str", "pat_type", "pat_str", "teal_prog",
    "teal_instructions", "regex_label", "regex_instructions", "Regex", "fold_left", "map", "filter", "rev", "fst", "snd", "negb", "andb", "orb",
    "true", "false", "nil", "cons", "app", "Some", "None", "O", "S", "nat", "string", "bool", "list", "option", "Z", "prog", "teal", "instr", "unit", "tt",
    "in", "at", "as", "fun", "let", "match", "end", "if", "then", "else", "return", "with", "forall", "exists", "fix", "cofix", "for",
    "where", "using", "Type", "Prop", "Set", "SProp", "struct", "left", "right", "inl", "inr", "pair", "eq_refl", "op_at", "ins_next", "find_label",
    "cls_of", "str_of_instr", "seq", "length", "existsb",
    "_",
} | {f["gen"] for f in FUNCS.values()} | set(RENAME.values())  # fmt: skip

# ----------------------------------------------------------------------------- fixed prelude (glue table)
PRELUDE = r"""
(* ====================================================================== *)
(* PRELUDE (fixed text); the exception monad is that of Gen/KeysGen.v      *)
(* ====================================================================== *)
(* ---- truthiness, integers, lists *)
Definition truthy_list {A : Type} (l : list A) : bool := match l with [] => false | _ => true end.
(* no class of teal/instructions/instructions.py defines __bool__ or __len__ (checked): an instruction is truthy *)
Definition truthy_instruction (k : nat) : bool := true.
Definition truthy_opt_instruction (o : option nat) : bool := match o with Some _ => true | None => false end.
Definition is_none {A : Type} (o : option A) : bool := match o with None => true | Some _ => false end.
Definition len {A : Type} (l : list A) : Z := Z.of_nat (length l).
(* range(a, b) *)
Definition py_range (a b : Z) : list Z := map (fun i => (a + Z.of_nat i)%Z) (seq 0 (Z.to_nat (b - a))).
(* assert c *)
Definition assert_true {A : Type} (c : py bool) (k : py A) : py A := match c with Some true => k | _ => None end.
(* [e for x in l] / [x for x in l if c] whose e / c can raise *)
Fixpoint mapE {A B : Type} (f : A -> py B) (l : list A) : py (list B) :=
  match l with
  | [] => ret []
  | x :: t => bind (f x) (fun y => bind (mapE f t) (fun r => ret (y :: r)))
  end.
Fixpoint filterE {A : Type} (f : A -> py bool) (l : list A) : py (list A) :=
  match l with
  | [] => ret []
  | x :: t => bind (f x) (fun b => bind (filterE f t) (fun r => ret (if b then x :: r else r)))
  end.
(* x = xs.pop() : the last element and the list without it; IndexError on [] *)
Definition list_pop {A : Type} (xs : list A) : py (A * list A) :=
  match rev xs with [] => None | x :: r => Some (x, rev r) end.
(* ---- Set[Instruction]: a list of positions; membership is identity of the instruction objects (no class of
   instructions.py defines __eq__ / __hash__: checked), i.e. equality of positions.  The iteration order of a Python
   set is unspecified: here it is the order of the list (Lemmas/RegexGenLemmas.v: the result does not depend on it). *)
Definition pyset_empty : list nat := [].
Definition pyset_mem (x : nat) (s : list nat) : bool := existsb (Nat.eqb x) s.
Definition pyset_add (x : nat) (s : list nat) : list nat := if pyset_mem x s then s else x :: s.
Definition pyset_union (a b : list nat) : list nat := fold_left (fun s x => pyset_add x s) b a.
Definition pyset_elements (s : list nat) : list nat := s.
(* ---- defaultdict(list) with instructions as keys: an association list *)
Definition dd_empty : list (nat * list nat) := [].
Fixpoint dd_get (d : list (nat * list nat)) (k : nat) : list nat :=
  match d with
  | [] => []
  | (k', v) :: t => if Nat.eqb k' k then v else dd_get t k
  end.
Fixpoint dd_append (d : list (nat * list nat)) (k x : nat) : list (nat * list nat) :=
  match d with
  | [] => [(k, [x])]
  | (k', v) :: t => if Nat.eqb k' k then (k', v ++ [x]) :: t else (k', v) :: dd_append t k x
  end.

(* ---- GLUE TABLE: the object graph as the regex engine reads it.
   An Instruction of the contract = its position k in p (Model/Cfg.v: op_at p k is the instruction; a position
   outside p is an exception).  An Instruction of the pattern = an instr.
     ins.next                    Instruction.next = self._next (fingerprinted)        ins_next p k  (None: a jump label
                                                                                      that does not resolve, the
                                                                                      KeyError of parse_teal)
     ins.label                   InstructionWithLabel.label (fingerprinted; its subclasses are exactly Label, B, BZ,
                                 BNZ, Callsub: checked); AttributeError otherwise
     isinstance(ins, Label)      Label has no subclass (checked)                      op_at p k is an ILabel
     isinstance(ins, Callsub)    Callsub has no subclass (checked)                    op_at p k is an ICallsub
     ins.called_subroutine.entry.entry_instr
                                 Callsub.called_subroutine, Subroutine.entry, BasicBlock.entry_instr (fingerprinted):
                                 the first instruction of the entry block of the subroutine, i.e. the label
                                 instruction labels[name] (a label always starts its block)
                                                                                      find_label p l for ICallsub l
     type(ins) / str(ins)        the class / the printed text                         cls_of / str_of_instr
     contract.instructions       Teal.instructions = self._instructions (fingerprinted)   t_retained_ins
     regex.label / regex.instructions   plain attributes set by Regex.__init__ (fingerprinted)   fst / snd *)
Definition ins_attr_next (p : prog) (k : nat) : py (list nat) := ins_next p k.
Definition ins_attr_label (p : prog) (k : nat) : py string :=
  bind (op_at p k) (fun i =>
    match i with ILabel l | IB l | IBZ l | IBNZ l | ICallsub l => Some l | _ => None end).
Definition ins_isinstance_Label (p : prog) (k : nat) : py bool :=
  bind (op_at p k) (fun i => ret (match i with ILabel _ => true | _ => false end)).
Definition ins_isinstance_Callsub (p : prog) (k : nat) : py bool :=
  bind (op_at p k) (fun i => ret (match i with ICallsub _ => true | _ => false end)).
Definition ins_called_subroutine_entry_entry_instr (p : prog) (k : nat) : py nat :=
  bind (op_at p k) (fun i => match i with ICallsub l => find_label p l | _ => None end).
Definition ins_type (p : prog) (k : nat) : py string := bind (op_at p k) (fun i => ret (cls_of i)).
Definition ins_str (p : prog) (k : nat) : py string := bind (op_at p k) (fun i => ret (str_of_instr i)).
Definition pat_type (i : instr) : string := cls_of i.
Definition pat_str (i : instr) : string := str_of_instr i.
Definition teal_prog (t : teal) : prog := t_prog t.
Definition teal_instructions (t : teal) : list nat := t_retained_ins t.
Definition Regex : Type := (string * list instr)%type.
Definition regex_label (r : Regex) : string := fst r.
Definition regex_instructions (r : Regex) : list instr := snd r.
"""

# ----------------------------------------------------------------------------- fingerprints
FINGERPRINTS = [
    (INS_REL, "Instruction", "next", "@property\ndef next(self) -> List['Instruction']:\n    return self._next"),
    (INS_REL, "InstructionWithLabel", "label", "@property\ndef label(self) -> str:\n    return self._label"),
    (
        INS_REL, "Callsub", "called_subroutine",
        "@property\ndef called_subroutine(self) -> 'Subroutine':\n    if self._called_subroutine is None:\n"
        "        raise TealerException(f'callsub.called_subroutine is accessed before assignment: {str(self)}')\n    return self._called_subroutine",
    ),
    (SUB_REL, "Subroutine", "entry", "@property\ndef entry(self) -> 'BasicBlock':\n    return self._entry"),
    (BB_REL, "BasicBlock", "entry_instr", "@property\ndef entry_instr(self) -> Instruction:\n    return self._instructions[0]"),
    (TEAL_REL, "Teal", "instructions", "@property\ndef instructions(self) -> List[Instruction]:\n    return self._instructions"),
]
REGEX_CLASS = "class Regex:\n\n    def __init__(self, label: str, instructions: List[Instruction]) -> None:\n        self.label = label\n        self.instructions = instructions"
WITH_LABEL = ["B", "BZ", "BNZ", "Label", "Callsub"]

EXPECTED_BINDINGS = {
    "defaultdict": "collections.defaultdict",
    "Instruction": "tealer.teal.instructions.instructions.Instruction",
    "Label": "tealer.teal.instructions.instructions.Label",
    "Callsub": "tealer.teal.instructions.instructions.Callsub",
    "Teal": "tealer.teal.teal.Teal",
    "Regex": "<local>",
}


def check_fingerprints(rx_path, rx_tree):
    trees = {}
    for rel, cls, name, text in FINGERPRINTS:
        path = os.path.join(T, rel)
        if rel not in trees:
            trees[rel] = parse(path)
        fn = find_def(path, trees[rel], cls, name)
        got = unparse_nodoc(fn)
        if got != text:
            fail(path, fn, f"{cls}.{name} is no longer the function the glue table stands for:\n{got}")
    # instructions.py: identity / truthiness of instruction objects, the classes with a label, no subclass of Label/Callsub
    ipath = os.path.join(T, INS_REL)
    with_label = []
    for node in ast.walk(trees[INS_REL]):
        if isinstance(node, ast.FunctionDef) and node.name in ("__eq__", "__ne__", "__hash__", "__bool__", "__len__", "__contains__", "__getattr__", "__getattribute__", "__instancecheck__", "__class_getitem__"):
            fail(ipath, node, f"a class of instructions.py defines {node.name}: `in`, `not x`, isinstance are no longer what the prelude says")
        if isinstance(node, ast.ClassDef):
            bases = [ast.unparse(b) for b in node.bases]
            if node.keywords or node.decorator_list:
                fail(ipath, node, f"class {node.name} has a metaclass/decorator")
            if "Label" in bases or "Callsub" in bases:
                fail(ipath, node, f"class {node.name} derives from Label/Callsub: isinstance is no longer a test of the class")
            if "InstructionWithLabel" in bases:
                with_label.append(node.name)
    if sorted(with_label) != sorted(WITH_LABEL):
        raise TranslateError(f"translator: {ipath}: the classes with a .label are {with_label}, expected {WITH_LABEL}")
    # the Regex class
    cs = [n for n in rx_tree.body if isinstance(n, ast.ClassDef) and n.name == "Regex"]
    if len(cs) != 1 or unparse_nodoc_class(cs[0]) != REGEX_CLASS:
        raise TranslateError(f"translator: {rx_path}: class Regex is no longer the pair (label, instructions)")


def unparse_nodoc_class(c):
    import copy

    g = copy.deepcopy(c)
    g.body = strip_doc(g.body) or [ast.Pass()]
    for m in g.body:
        if isinstance(m, ast.FunctionDef):
            m.body = strip_doc(m.body) or [ast.Pass()]
    return ast.unparse(g)


# ----------------------------------------------------------------------------- environment
def cn(name):
    return RENAME.get(name, name)


class Env:
    def __init__(self, path, tree, imports, fname, P):
        self.path = path
        self.tree = tree
        self.imports = imports
        self.fname = fname  # python name of the function being translated
        self.P = P  # the term of the program
        self.vars = {}  # python name -> type
        self.mut_ok = {}  # python name -> every binding so far is a fresh object (may be mutated)
        self.escaped = set()  # lists stored in another container
        self.counter = [0, 0, 0]  # temporaries, join points, while loops
        self.hoisted = []  # text of the hoisted while loops
        self.flags = {"fuel": False, "wfuel": False}
        self.loop = None  # innermost loop: dict(end=fn(env, brk), depth)
        self.on_return = None  # None (function level) | fn(env, term, pure) -> term
        self.in_while = False
        self.loop_depth = 0

    def child(self, **new):
        e = Env(self.path, self.tree, self.imports, self.fname, self.P)
        e.vars = dict(self.vars)
        e.mut_ok = dict(self.mut_ok)
        e.escaped = set(self.escaped)
        e.counter = self.counter
        e.hoisted = self.hoisted
        e.flags = self.flags
        e.loop = self.loop
        e.on_return = self.on_return
        e.in_while = self.in_while
        e.loop_depth = self.loop_depth
        e.vars.update(new)
        return e

    def fresh(self):
        self.counter[0] += 1
        return f"tmp{self.counter[0]}"

    def fresh_join(self):
        self.counter[1] += 1
        return f"k{self.counter[1]}"

    @property
    def info(self):
        return FUNCS[self.fname]


def seq(env, parts, build, monadic_result=False):
    """parts: [(term, pure)]; impure parts are bound left to right to fresh names. -> (term, pure)"""
    binds, atoms = [], []
    for t, pure in parts:
        if pure:
            atoms.append(t)
        else:
            v = env.fresh()
            binds.append((v, t))
            atoms.append(v)
    body = build(*atoms)
    if not binds and not monadic_result:
        return body, True
    out = body if monadic_result else f"(ret {body})"
    for v, t in reversed(binds):
        out = f"(bind {t} (fun {v} => {out}))"
    return out, False


def as_monadic(t, pure):
    return f"(ret {t})" if pure else t


def is_name(e, n):
    return isinstance(e, ast.Name) and e.id == n


def need_builtin(env, node, name):
    if name in env.vars or count_bindings(env.tree, name) != 0:
        fail(env.path, node, f"the builtin {name} is re-bound")


def need_import(env, node, name):
    if name in env.vars or env.imports.get(name) != EXPECTED_BINDINGS[name] or count_bindings(env.tree, name) != 1:
        fail(env.path, node, f"name {name} is bound to {env.imports.get(name)}, expected {EXPECTED_BINDINGS[name]}")


def check_name(env, name, node):
    if name in RESERVED or name.startswith("tmp") or (name.startswith("k") and name[1:].isdigit()) or name in FUNCS or name in BUILTINS:
        if name not in RENAME:
            fail(env.path, node, f"variable name {name} is reserved by the translator")
    if not name.isidentifier() or not name.isascii():
        fail(env.path, node, f"variable name {name}")


# ----------------------------------------------------------------------------- expressions
def coerce(env, node, t, ty, pure, want):
    """use of a value of type ty where `want` is expected: equal, or A used as Optional[A]"""
    if want is None:
        return t, ty, pure
    u = unify(ty, want)
    if u is not None:
        return t, u, pure
    if want[0] == "option" and ty[0] != "option":
        u = unify(ty, want[1])
        if u is not None:
            if pure:
                return f"(Some {t})", topt(u), True
            v = env.fresh()
            return f"(bind {t} (fun {v} => (ret (Some {v}))))", topt(u), False
    fail(env.path, node, f"value of type {ty} where {want} is expected")


def expr(env, e, want=None):
    """-> (term, type, pure); `want` is the expected type (used for [], set(), None and the Optional coercion)"""
    t, ty, pure = expr0(env, e, want)
    return coerce(env, e, t, ty, pure, want)


def cond(env, e):
    """e in a boolean context -> (term : bool or py bool, pure)"""
    p = env.path
    if isinstance(e, ast.BoolOp):
        parts = [cond(env, v) for v in e.values]
        is_and = isinstance(e.op, ast.And)
        if all(pu for _, pu in parts):
            out = parts[-1][0]
            for t, _ in reversed(parts[:-1]):
                out = f"({'andb' if is_and else 'orb'} {t} {out})"
            return out, True
        out = as_monadic(*parts[-1])
        for t, pu in reversed(parts[:-1]):
            out = f"({'andE' if is_and else 'orE'} {as_monadic(t, pu)} {out})"
        return out, False
    if isinstance(e, ast.UnaryOp) and isinstance(e.op, ast.Not):
        t, pure = cond(env, e.operand)
        return (f"(negb {t})" if pure else f"(notE {t})"), pure
    t, ty, pure = expr(env, e)
    if ty == BOOL:
        return t, pure
    if ty[0] in ("list", "set"):
        fn = "truthy_list"
    elif ty == topt(INS):
        fn = "truthy_opt_instruction"
    elif ty == INS:
        fn = "truthy_instruction"
    else:
        fail(p, e, f"truth value of a value of type {ty}")
    return seq(env, [(t, pure)], lambda a: f"({fn} {a})")


def type_or_str_call(env, e, which):
    """type(x) / str(x) -> (term, pure) of type string"""
    if not (isinstance(e, ast.Call) and is_name(e.func, which) and len(e.args) == 1 and not e.keywords):
        return None
    need_builtin(env, e, which)
    t, ty, pure = expr(env, e.args[0])
    glue = {"type": {INS: "ins_type", PAT: "pat_type"}, "str": {INS: "ins_str", PAT: "pat_str"}}[which]
    if ty not in glue:
        fail(env.path, e, f"{which}() of a value of type {ty}")
    if ty == INS:
        out, _ = seq(env, [(t, pure)], lambda a: f"({glue[ty]} {env.P} {a})", monadic_result=True)
        return out, False
    return seq(env, [(t, pure)], lambda a: f"({glue[ty]} {a})")


def is_const_int(e):
    return isinstance(e, ast.Constant) and isinstance(e.value, int) and not isinstance(e.value, bool)


def expr0(env, e, want):
    p = env.path
    if isinstance(e, ast.Constant):
        if e.value is True:
            return "true", BOOL, True
        if e.value is False:
            return "false", BOOL, True
        if e.value is None:
            return "None", unify(topt(None), want) if want and want[0] == "option" else topt(None), True
        if is_const_int(e):
            return (f"{e.value}%Z" if e.value >= 0 else f"({e.value})%Z"), INT, True
        if isinstance(e.value, str):
            return coq_str(e.value), STR, True
        fail(p, e, "constant " + ast.unparse(e))
    if isinstance(e, ast.Name):
        if e.id in env.vars:
            return cn(e.id), env.vars[e.id], True
        fail(p, e, f"unknown name {e.id}")
    if isinstance(e, ast.List):
        ew = want[1] if want and want[0] == "list" else None
        if not e.elts:
            return "[]", tlist(ew), True
        parts = [expr(env, x, ew) for x in e.elts]
        ty = None
        for (_, t1, _), x in zip(parts, e.elts):
            ty2 = unify(ty, t1) if ty is not None else t1
            if ty2 is None:
                fail(p, x, "list literal with elements of different types")
            ty = ty2
        out, pure = seq(env, [(t, pu) for t, _, pu in parts], lambda *a: "[" + "; ".join(a) + "]")
        return out, tlist(ty), pure
    if isinstance(e, ast.Tuple):
        if len(e.elts) != 2:
            fail(p, e, "tuple " + ast.unparse(e))
        ws = (want[1], want[2]) if want and want[0] == "prod" else (None, None)
        parts = [expr(env, x, w) for x, w in zip(e.elts, ws)]
        out, pure = seq(env, [(t, pu) for t, _, pu in parts], lambda a, b: f"({a}, {b})")
        return out, tprod(parts[0][1], parts[1][1]), pure
    if isinstance(e, ast.BinOp):
        if isinstance(e.op, ast.Add):
            w = want if want and want[0] == "list" else None
            l, lty, lp = expr(env, e.left, w)
            if lty[0] != "list":
                fail(p, e, f"`+` on a value of type {lty}")
            r, rty, rp = expr(env, e.right, lty if determined(lty) else w)
            ty = unify(lty, rty)
            if ty is None or ty[0] != "list":
                fail(p, e, f"`+` on values of types {lty}, {rty}")
            out, pure = seq(env, [(l, lp), (r, rp)], lambda a, b: f"({a} ++ {b})")
            return out, ty, pure
        if isinstance(e.op, ast.Sub):
            l, _, lp = expr(env, e.left, INT)
            r, _, rp = expr(env, e.right, INT)
            out, pure = seq(env, [(l, lp), (r, rp)], lambda a, b: f"({a} - {b})%Z")
            return out, INT, pure
        fail(p, e, "binary operator " + ast.unparse(e))
    if isinstance(e, ast.Subscript):
        v, vty, vp = expr(env, e.value)
        if vty[0] == "list" and is_const_int(e.slice) and e.slice.value >= 0:
            if not determined(vty):
                fail(p, e, "subscript of an untyped list")
            out, _ = seq(env, [(v, vp)], lambda a: f"(subscript {a} {e.slice.value})", monadic_result=True)
            return out, vty[1], False
        if vty == DICT:
            k, _, kp = expr(env, e.slice, INS)
            out, pure = seq(env, [(v, vp), (k, kp)], lambda a, b: f"(dd_get {a} {b})")
            return out, tlist(INS), pure
        fail(p, e, "subscript " + ast.unparse(e))
    if isinstance(e, ast.Compare):
        if len(e.ops) != 1:
            fail(p, e, "chained comparison " + ast.unparse(e))
        op, left, right = e.ops[0], e.left, e.comparators[0]
        if isinstance(op, (ast.In, ast.NotIn)):
            x, xty, xp = expr(env, left)
            s, sty, sp = expr(env, right, tset(xty))
            if xty != INS or sty != tset(INS):
                fail(p, e, f"`in` on values of types {xty}, {sty}")
            neg = isinstance(op, ast.NotIn)
            out, pure = seq(env, [(x, xp), (s, sp)], lambda a, b: f"(negb (pyset_mem {a} {b}))" if neg else f"(pyset_mem {a} {b})")
            return out, BOOL, pure
        if isinstance(op, (ast.Is, ast.IsNot)):
            neg = isinstance(op, ast.IsNot)
            if isinstance(right, ast.Constant) and right.value is None:
                x, xty, xp = expr(env, left)
                if xty[0] != "option":
                    fail(p, e, f"`is None` on a value of type {xty}")
                out, pure = seq(env, [(x, xp)], lambda a: f"(negb (is_none {a}))" if neg else f"(is_none {a})")
                return out, BOOL, pure
            a = type_or_str_call(env, left, "type")
            b = type_or_str_call(env, right, "type")
            if a is None or b is None:
                fail(p, e, "`is` on something else than None or two type(..) " + ast.unparse(e))
            out, pure = seq(env, [a, b], lambda x, y: f"(negb (String.eqb {x} {y}))" if neg else f"(String.eqb {x} {y})")
            return out, BOOL, pure
        l, lty, lp = expr(env, left)
        r, rty, rp = expr(env, right, lty)
        if lty != rty:
            fail(p, e, f"comparison of values of types {lty}, {rty}")
        table = {
            (ast.Eq, STR): "(String.eqb {a} {b})", (ast.NotEq, STR): "(negb (String.eqb {a} {b}))",
            (ast.Eq, INT): "(Z.eqb {a} {b})", (ast.NotEq, INT): "(negb (Z.eqb {a} {b}))",
            (ast.LtE, INT): "(Z.leb {a} {b})", (ast.Lt, INT): "(Z.ltb {a} {b})",
            (ast.GtE, INT): "(Z.geb {a} {b})", (ast.Gt, INT): "(Z.gtb {a} {b})",
        }  # fmt: skip
        fmt = table.get((type(op), lty))
        if fmt is None:
            fail(p, e, f"comparison {type(op).__name__} on values of type {lty}")
        out, pure = seq(env, [(l, lp), (r, rp)], lambda a, b: fmt.format(a=a, b=b))
        return out, BOOL, pure
    if isinstance(e, ast.UnaryOp):
        if isinstance(e.op, ast.Not):
            t, pure = cond(env, e)
            return t, BOOL, pure
        fail(p, e, "unary operator " + ast.unparse(e))
    if isinstance(e, ast.BoolOp):
        fail(p, e, "`and`/`or` outside a condition (its value is an operand, not a bool): " + ast.unparse(e)[:60])
    if isinstance(e, ast.IfExp):
        c, cp = cond(env, e.test)
        a, aty, ap = expr(env, e.body, want)
        b, bty, bp = expr(env, e.orelse, want)
        ty = unify(aty, bty)
        if ty is None:
            # A / None: Optional[A]
            if bty[0] == "option" and aty[0] != "option":
                a, aty, ap = coerce(env, e.body, a, aty, ap, topt(unify(aty, bty[1]) or aty))
            elif aty[0] == "option" and bty[0] != "option":
                b, bty, bp = coerce(env, e.orelse, b, bty, bp, topt(unify(bty, aty[1]) or bty))
            ty = unify(aty, bty)
            if ty is None:
                fail(p, e, f"conditional expression with branches of types {aty}, {bty}")
        if cp and ap and bp:
            return f"(if {c} then {a} else {b})", ty, True
        if cp:
            return f"(if {c} then {as_monadic(a, ap)} else {as_monadic(b, bp)})", ty, False
        return f"(ifE {c} {as_monadic(a, ap)} {as_monadic(b, bp)})", ty, False
    if isinstance(e, ast.ListComp):
        if len(e.generators) != 1:
            fail(p, e, "comprehension " + ast.unparse(e))
        g = e.generators[0]
        if len(g.ifs) > 1 or g.is_async or not isinstance(g.target, ast.Name):
            fail(p, e, "comprehension " + ast.unparse(e))
        l, lty, lp = expr(env, g.iter)
        if lty[0] != "list" or not determined(lty):
            fail(p, e, f"comprehension over a value of type {lty}")
        x = g.target.id
        check_name(env, x, e)
        if x in env.vars:
            fail(p, e, f"comprehension variable {x} shadows a variable")
        cenv = env.child(**{x: lty[1]})
        if g.ifs:
            if not is_name(e.elt, x):
                fail(p, e, "filtering comprehension whose element is not the variable")
            c, cp = cond(cenv, g.ifs[0])
            out, pure = seq(env, [(l, lp)], lambda a: f"(filter (fun {cn(x)} => {c}) {a})" if cp else f"(filterE (fun {cn(x)} => {c}) {a})", monadic_result=not cp)
            return out, lty, pure
        b, bty, bp = expr(cenv, e.elt)
        out, pure = seq(env, [(l, lp)], lambda a: f"(map (fun {cn(x)} => {b}) {a})" if bp else f"(mapE (fun {cn(x)} => {b}) {a})", monadic_result=not bp)
        return out, tlist(bty), pure
    if isinstance(e, ast.Attribute):
        if ast.unparse(e).endswith(".called_subroutine.entry.entry_instr"):
            base = e.value.value.value
            v, vty, vp = expr(env, base)
            if vty != INS:
                fail(p, e, f"attribute chain of a value of type {vty}")
            out, _ = seq(env, [(v, vp)], lambda a: f"(ins_called_subroutine_entry_entry_instr {env.P} {a})", monadic_result=True)
            return out, INS, False
        v, vty, vp = expr(env, e.value)
        glue = {
            (INS, "next"): ("ins_attr_next", tlist(INS), True, False),
            (INS, "label"): ("ins_attr_label", STR, True, False),
            (TEAL, "instructions"): ("teal_instructions", tlist(INS), False, True),
            (REGEX, "label"): ("regex_label", STR, False, True),
            (REGEX, "instructions"): ("regex_instructions", tlist(PAT), False, True),
        }.get((vty, e.attr))
        if glue is None:
            fail(p, e, f"attribute .{e.attr} of a value of type {vty} is not in the glue table")
        fn, rty, needs_p, gpure = glue
        pre = f"{fn} {env.P}" if needs_p else fn
        out, pure = seq(env, [(v, vp)], lambda a: f"({pre} {a})", monadic_result=not gpure)
        return out, rty, pure
    if isinstance(e, ast.Call):
        return call(env, e, want)
    fail(p, e, "expression " + ast.unparse(e)[:60])


def state_call(env, e):
    """a call of the function with threaded state -> (function info, argument expressions) or None"""
    if isinstance(e, ast.Call) and isinstance(e.func, ast.Name) and e.func.id in FUNCS and FUNCS[e.func.id]["state"]:
        return FUNCS[e.func.id]
    return None


def call(env, e, want):
    p = env.path
    if e.keywords:
        fail(p, e, "call with keyword arguments " + ast.unparse(e)[:60])
    if not isinstance(e.func, ast.Name):
        fail(p, e, "call " + ast.unparse(e)[:60])
    fn = e.func.id
    if fn in env.vars:
        fail(p, e, f"call of the local variable {fn}")
    if fn == "len" and len(e.args) == 1:
        need_builtin(env, e, fn)
        v, vty, vp = expr(env, e.args[0])
        if vty[0] != "list":
            fail(p, e, f"len of a value of type {vty}")
        out, pure = seq(env, [(v, vp)], lambda a: f"(len {a})")
        return out, INT, pure
    if fn == "isinstance" and len(e.args) == 2 and isinstance(e.args[1], ast.Name) and e.args[1].id in ("Label", "Callsub"):
        need_builtin(env, e, fn)
        need_import(env, e, e.args[1].id)
        v, vty, vp = expr(env, e.args[0])
        if vty != INS:
            fail(p, e, f"isinstance of a value of type {vty}")
        out, _ = seq(env, [(v, vp)], lambda a: f"(ins_isinstance_{e.args[1].id} {env.P} {a})", monadic_result=True)
        return out, BOOL, False
    if fn == "str":
        r = type_or_str_call(env, e, "str")
        if r is not None:
            return r[0], STR, r[1]
    if fn == "set" and not e.args:
        need_builtin(env, e, fn)
        return "pyset_empty", want if want and want[0] == "set" and determined(want) else tset(INS), True
    if fn == "defaultdict" and len(e.args) == 1 and is_name(e.args[0], "list"):
        need_import(env, e, "defaultdict")
        if "list" in env.vars or count_bindings(env.tree, "list") != 0:
            fail(p, e, "the builtin list is re-bound")
        return "dd_empty", DICT, True
    if fn in FUNCS:
        info = FUNCS[fn]
        if info["state"]:
            fail(p, e, f"call of {fn} (which mutates its arguments) inside an expression")
        if count_bindings(env.tree, fn) != 1 or env.imports.get(fn) != "<local>":
            fail(p, e, f"{fn} is not the top-level function of the module")
        if fn == env.fname or fn not in DONE:
            fail(p, e, f"call of {fn}: recursion / call of a function that is not translated yet")
        if len(e.args) != len(info["params"]):
            fail(p, e, f"arguments of {fn}")
        if DONE[fn]["wfuel"]:
            fail(p, e, f"call of {fn}, which contains a while loop")
        parts = [expr(env, a, ty) for a, (_, _, ty) in zip(e.args, info["params"])]
        fuel = ""
        if DONE[fn]["fuel"]:
            env.flags["fuel"] = True
            if env.in_while:
                fail(p, e, f"call of the fuelled {fn} inside a while loop")
            fuel = " fuel"
        out, _ = seq(env, [(t, pu) for t, _, pu in parts], lambda *a: f"({info['gen']} {env.P}{fuel} " + " ".join(a) + ")", monadic_result=True)
        return out, info["returns"][1], False
    fail(p, e, "call " + ast.unparse(e)[:60])


DONE = {}  # python name -> dict(fuel=.., wfuel=..) of the functions translated so far


# ----------------------------------------------------------------------------- statements
FORBIDDEN = (ast.Try, ast.With, ast.FunctionDef, ast.AsyncFunctionDef, ast.Lambda, ast.NamedExpr, ast.Delete, ast.Global, ast.Nonlocal, ast.GeneratorExp, ast.SetComp, ast.DictComp, ast.Yield, ast.YieldFrom, ast.Raise, ast.Await, ast.ClassDef, ast.Import, ast.ImportFrom, ast.Starred, ast.Set, ast.Dict)


def method_call(st, names):
    """`X.m(..)` with X a Name, m in names -> (X, m, args) else None"""
    v = st.value if isinstance(st, ast.Expr) else st
    if isinstance(v, ast.Call) and isinstance(v.func, ast.Attribute) and v.func.attr in names and isinstance(v.func.value, ast.Name) and not v.keywords:
        return v.func.value.id, v.func.attr, v.args
    return None


def dict_append(st):
    """`D[k].append(v)` with D a Name -> (D, k, v) else None"""
    v = st.value
    if (
        isinstance(v, ast.Call)
        and isinstance(v.func, ast.Attribute)
        and v.func.attr == "append"
        and isinstance(v.func.value, ast.Subscript)
        and isinstance(v.func.value.value, ast.Name)
        and len(v.args) == 1
        and not v.keywords
    ):
        return v.func.value.value.id, v.func.value.slice, v.args[0]
    return None


def assigned_in(env, stmts):
    """names (re)bound by the statements, in order of first occurrence: assignments, mutations (append/add/pop/|=,
    d[k].append) and the state arguments of a call of _find_instructions.  Loop variables are local to their loop."""
    out = []

    def add(n):
        if n not in out:
            out.append(n)

    for st in stmts:
        for node in ast.walk(st):
            if isinstance(node, FORBIDDEN):
                fail(env.path, node, "statement/expression not accepted: " + type(node).__name__)
            if isinstance(node, (ast.Assign, ast.AnnAssign, ast.AugAssign)):
                for tg in node.targets if isinstance(node, ast.Assign) else [node.target]:
                    if not isinstance(tg, ast.Name):
                        fail(env.path, node, "assignment target " + ast.unparse(tg))
                    add(tg.id)
            if isinstance(node, ast.Call):
                m = method_call(node, ("append", "add", "pop"))
                if m:
                    add(m[0])
                if isinstance(node.func, ast.Attribute) and node.func.attr == "append" and isinstance(node.func.value, ast.Subscript) and isinstance(node.func.value.value, ast.Name):
                    add(node.func.value.value.id)
                info = state_call(env, node)
                if info:
                    for a, (pn, _, _) in zip(node.args, info["params"]):
                        if pn in info["state"] and isinstance(a, ast.Name):
                            add(a.id)
    return out


def escapes_in(env, stmts):
    """the variables (bound in env, of a mutable type) that the statements store in a container"""
    out = set()
    for st in stmts:
        for node in ast.walk(st):
            m = method_call(node, ("append", "add")) if isinstance(node, ast.Call) else None
            if m and len(m[2]) == 1 and isinstance(m[2][0], ast.Name) and is_mutable(env.vars.get(m[2][0].id)):
                out.add(m[2][0].id)
    return out


def with_escapes(env, stmts):
    e = env.child()
    e.escaped |= escapes_in(env, stmts)
    return e


def loop_targets(stmts):
    out = set()
    for st in stmts:
        for node in ast.walk(st):
            if isinstance(node, ast.For):
                out |= {n.id for n in ast.walk(node.target) if isinstance(n, ast.Name)}
            if isinstance(node, ast.ListComp):
                out |= {n.id for g in node.generators for n in ast.walk(g.target) if isinstance(n, ast.Name)}
    return out


def tuple_term(names):
    return names[0] if len(names) == 1 else "(" + ", ".join(names) + ")"


def tuple_type(tys):
    return tys[0] if len(tys) == 1 else "(" + " * ".join(tys) + ")"


def projections(n, st):
    """terms of the n components of the left-nested tuple st"""
    if n == 1:
        return [st]
    return projections(n - 1, f"(fst {st})") + [f"(snd {st})"]


def ret_type(env):
    return env.info["returns"][1]


def function_return(env, t, pure):
    """`return t` at function level: the value and the final state of the threaded objects"""
    names = [cn(n) for n in env.info["state"]]
    for n in env.info["state"]:
        if env.vars.get(n) != dict((a, c) for a, _, c in env.info["params"])[n]:
            raise TranslateError(f"translator: {env.path}: the state object {n} is re-bound")
    if pure:
        return f"(ret {tuple_term([t] + names)})"
    if not names:
        return t
    v = env.fresh()
    return f"(bind {t} (fun {v} => (ret {tuple_term([v] + names)})))"


def do_return(env, st):
    if st.value is None:
        fail(env.path, st, "bare return")
    if env.in_while and env.loop is None:
        fail(env.path, st, "return inside a while loop")
    t, _, pure = expr(env, st.value, ret_type(env))
    if env.on_return is not None:
        return env.on_return(env, t, pure)
    return function_return(env, t, pure)


def bind_var(env, name, node, t, ty, pure, rest_of, narrowing=False, fresh_obj=None):
    """`name = <t>`; a re-assignment must keep the type of the variable (except the narrowing of an Optional)"""
    check_name(env, name, node)
    if name in env.info["state"] and fresh_obj is not None:
        fail(env.path, node, f"assignment to {name}: the object is threaded as state, it can only be mutated")
    if name in env.vars and not narrowing:
        old = env.vars[name]
        ty2 = unify(old, ty)
        if ty2 is None and old[0] == "option" and ty[0] != "option" and unify(old[1], ty) is not None:
            # an instruction assigned to an Optional variable that had been narrowed: still an instruction
            ty2 = ty
        if ty2 is None and ty[0] == "option" and old[0] != "option" and unify(ty[1], old) is not None:
            ty2 = ty  # widening back to the Optional
        if ty2 is None:
            fail(env.path, node, f"re-assignment of {name} changes its type from {old} to {ty}")
        ty = ty2
    if not determined(ty):
        fail(env.path, node, f"the type of {name} is not determined: {ty}")
    env2 = env.child(**{name: ty})
    if fresh_obj is not None:
        env2.mut_ok[name] = fresh_obj and env.mut_ok.get(name, True)
        env2.escaped.discard(name)
    rest = rest_of(env2)
    if pure:
        return f"(let {cn(name)} := {t} in\n{rest})"
    return f"(bind {t} (fun {cn(name)} =>\n{rest}))"


def need_mutable(env, node, name, kinds):
    ty = env.vars.get(name)
    if ty is None or ty[0] not in kinds:
        fail(env.path, node, f"mutation of {name} of type {ty}")
    if not env.mut_ok.get(name, False):
        fail(env.path, node, f"mutation of {name}, which may be an alias of another object")
    if name in env.escaped:
        fail(env.path, node, f"mutation of {name} after it was stored in another container")
    if env.loop is not None and name in env.loop["iterating"]:
        fail(env.path, node, f"mutation of {name} while a loop iterates over it")
    return ty


def is_fresh_expr(e):
    if isinstance(e, (ast.List, ast.ListComp)) or (isinstance(e, ast.BinOp) and isinstance(e.op, ast.Add)):
        return True
    if isinstance(e, ast.Call) and isinstance(e.func, ast.Name) and e.func.id in ("set", "defaultdict"):
        return True
    return False


def narrowing_test(env, e):
    """`x is None` / `not x` with x : Optional -> x, else None"""
    if isinstance(e, ast.Compare) and len(e.ops) == 1 and isinstance(e.ops[0], ast.Is) and isinstance(e.left, ast.Name) and isinstance(e.comparators[0], ast.Constant) and e.comparators[0].value is None:
        x = e.left.id
    elif isinstance(e, ast.UnaryOp) and isinstance(e.op, ast.Not) and isinstance(e.operand, ast.Name):
        x = e.operand.id
    else:
        return None
    if x in env.vars and env.vars[x] == topt(INS):
        return x
    return None


def apply_state_call(env, node, info, rest_of_result):
    """`_find_instructions(a, b, x, y, z)`: -> term; rest_of_result(env2, result term) builds what follows"""
    p = env.path
    if node.keywords or len(node.args) != len(info["params"]):
        fail(p, node, f"arguments of {node.func.id}")
    fn = node.func.id
    if count_bindings(env.tree, fn) != 1 or env.imports.get(fn) != "<local>" or fn in env.vars:
        fail(p, node, f"{fn} is not the top-level function of the module")
    rec = fn == env.fname
    if not rec and fn not in DONE:
        fail(p, node, f"call of {fn}, which is not translated yet")
    if env.in_while:
        fail(p, node, f"call of the fuelled {fn} inside a while loop")
    env.flags["fuel"] = True
    parts, names = [], []
    for a, (pn, _, ty) in zip(node.args, info["params"]):
        if pn in info["state"]:
            if not isinstance(a, ast.Name) or a.id not in env.vars or env.vars[a.id] != ty:
                fail(p, node, f"the argument for {pn} must be a local name of type {ty}")
            if a.id in names:
                fail(p, node, f"the same object is passed twice to {fn}")
            need_mutable(env, node, a.id, (ty[0],))
            names.append(a.id)
            parts.append((cn(a.id), True))
        else:
            t, _, pu = expr(env, a, ty)
            parts.append((t, pu))
    tmp = env.fresh()
    projs = projections(1 + len(names), tmp)
    call_t, _ = seq(env, parts, lambda *a: f"({info['gen']} {env.P} fuel " + " ".join(a) + ")", monadic_result=True)
    inner = rest_of_result(env, projs[0])
    for n, pr in reversed(list(zip(names, projs[1:]))):
        inner = f"(let {cn(n)} := {pr} in\n{inner})"
    return f"(bind {call_t} (fun {tmp} =>\n{inner}))"


def block(env, stmts, fall):
    """stmts: statement list; fall: function env -> term for what follows the block (None: the function ends).
    Returns a term of type py R."""
    p = env.path
    stmts = strip_doc(stmts)
    if not stmts:
        if fall is None:
            raise TranslateError(f"translator: {p}: control reaches the end of {env.fname} without return")
        return fall(env)
    st, rest = stmts[0], stmts[1:]
    rest_of = lambda env2: block(env2, rest, fall)  # noqa: E731
    if isinstance(st, ast.Return):
        if rest:
            fail(p, rest[0], "statement after return")
        return do_return(env, st)
    if isinstance(st, ast.Pass):
        return rest_of(env)
    if isinstance(st, ast.Continue):
        if rest:
            fail(p, rest[0], "statement after continue")
        if env.loop is None:
            fail(p, st, "continue outside a for loop")
        return env.loop["end"](env, False)
    if isinstance(st, ast.Break):
        if rest:
            fail(p, rest[0], "statement after break")
        if env.loop is None:
            fail(p, st, "break outside a for loop")
        return env.loop["end"](env, True)
    if isinstance(st, (ast.Assign, ast.AnnAssign)):
        if isinstance(st, ast.Assign):
            if len(st.targets) != 1:
                fail(p, st, "chained assignment")
            tg, value, ann = st.targets[0], st.value, None
        else:
            tg, value = st.target, st.value
            if value is None:
                fail(p, st, "annotation without value")
            ann = LOCAL_ANNOTATIONS.get(ast.unparse(st.annotation))
            if ann is None:
                fail(p, st, "annotation " + ast.unparse(st.annotation))
        if not isinstance(tg, ast.Name):
            fail(p, st, "assignment target " + ast.unparse(tg))
        m = method_call(value, ("pop",))
        if m is not None:
            x, _, args = m
            if args:
                fail(p, st, "pop with an argument")
            ty = need_mutable(env, st, x, ("list",))
            if tg.id == x:
                fail(p, st, "x = x.pop()")
            tmp = env.fresh()
            inner = bind_var(env, tg.id, st, f"(fst {tmp})", ty[1], True, lambda env2: bind_var(env2, x, st, f"(snd {tmp})", ty, True, rest_of), fresh_obj=False)
            return f"(bind (list_pop {cn(x)}) (fun {tmp} =>\n{inner}))"
        info = state_call(env, value)
        if info is not None:
            return apply_state_call(env, value, info, lambda env2, r: bind_var(env2, tg.id, st, r, info["returns"][1], True, rest_of, fresh_obj=False))
        want = ann or (env.vars[tg.id] if is_mutable(env.vars.get(tg.id)) else None)
        t, ty, pure = expr(env, value, want)
        if is_mutable(ty) and not is_fresh_expr(value):
            # the variable may be an alias of another object: it can be read, never mutated
            return bind_var(env, tg.id, st, t, ty, pure, rest_of, fresh_obj=False)
        return bind_var(env, tg.id, st, t, ty, pure, rest_of, fresh_obj=True)
    if isinstance(st, ast.AugAssign):
        if not (isinstance(st.op, ast.BitOr) and isinstance(st.target, ast.Name)):
            fail(p, st, "augmented assignment " + ast.unparse(st)[:60])
        x = st.target.id
        ty = need_mutable(env, st, x, ("set",))
        t, _, pure = expr(env, st.value, ty)
        out, pure2 = seq(env, [(t, pure)], lambda a: f"(pyset_union {cn(x)} {a})")
        return bind_var(env, x, st, out, ty, pure2, rest_of)
    if isinstance(st, ast.Assert):
        if st.msg is not None:
            fail(p, st, "assert with a message")
        c, cp = cond(env, st.test)
        return f"(assert_true {as_monadic(c, cp)}\n{rest_of(env)})"
    if isinstance(st, ast.Expr):
        v = st.value
        if isinstance(v, ast.Call) and is_name(v.func, "print"):
            need_builtin(env, st, "print")
            if v.keywords or len(v.args) != 1 or not isinstance(v.args[0], (ast.JoinedStr, ast.Constant)):
                fail(p, st, "argument of print")
            for part in v.args[0].values if isinstance(v.args[0], ast.JoinedStr) else []:
                if isinstance(part, ast.Constant):
                    continue
                if not isinstance(part, ast.FormattedValue) or part.format_spec is not None or not isinstance(part.value, ast.Name) or part.value.id not in env.vars:
                    fail(p, st, "f-string part " + ast.unparse(part)[:60])
            return rest_of(env)
        d = dict_append(st)
        if d is not None:
            x, k, val = d
            need_mutable(env, st, x, ("dict",))
            kt, _, kp = expr(env, k, INS)
            vt, _, vp = expr(env, val, INS)
            out, pure = seq(env, [(kt, kp), (vt, vp)], lambda a, b: f"(dd_append {cn(x)} {a} {b})")
            return bind_var(env, x, st, out, DICT, pure, rest_of)
        m = method_call(st, ("append", "add"))
        if m is not None:
            x, meth, args = m
            if len(args) != 1:
                fail(p, st, f"arguments of .{meth}")
            ty = need_mutable(env, st, x, ("list",) if meth == "append" else ("set",))
            t, ety, pure = expr(env, args[0], ty[1])
            env2 = env
            if is_mutable(ety):
                if not isinstance(args[0], ast.Name):
                    fail(p, st, "a mutable object that is not a variable is stored in a container")
                env2 = env.child()
                env2.escaped.add(args[0].id)
            out, pure2 = seq(env, [(t, pure)], (lambda a: f"({cn(x)} ++ [{a}])") if meth == "append" else (lambda a: f"(pyset_add {a} {cn(x)})"))
            return bind_var(env2, x, st, out, unify(ty, (ty[0], ety)), pure2, rest_of)
        info = state_call(env, v)
        if info is not None:
            return apply_state_call(env, v, info, lambda env2, r: rest_of(env2))
        fail(p, st, "expression statement " + ast.unparse(st)[:60])
    if isinstance(st, ast.If):
        if not rest:
            return if_term(env, st, fall)
        # what follows the if: needed how often?
        uses = [0]

        def probe(_env):
            uses[0] += 1
            return "K"

        saved = (list(env.counter), len(env.hoisted), dict(env.flags))
        if_term(env, st, probe)
        env.counter[:] = saved[0]
        del env.hoisted[saved[1] :]
        env.flags.update(saved[2])
        if uses[0] == 0:
            fail(p, rest[0], "unreachable statement")
        if uses[0] == 1:
            return if_term(env, st, rest_of)
        # join point: the variables assigned in the if that are bound before it
        join = [v for v in assigned_in(env, [st]) if v in env.vars]
        kn = env.fresh_join()
        body = block(with_escapes(env, [st]), rest, fall)
        params = " ".join(f"({cn(v)} : {coqty(env.vars[v])})" for v in join) or "(_ : unit)"

        def callk(env2):
            args = []
            for v in join:
                if env2.vars[v] == env.vars[v]:
                    args.append(cn(v))
                elif env.vars[v] == topt(env2.vars[v]):
                    args.append(f"(Some {cn(v)})")
                else:
                    fail(p, st, f"the type of {v} differs at the join point: {env2.vars[v]} / {env.vars[v]}")
                if v in env2.escaped and v not in env.escaped:
                    fail(p, st, f"{v} is stored in a container in one branch only")
            return f"({kn} {' '.join(args) or 'tt'})"

        return f"(let {kn} := (fun {params} =>\n{indent(body, 2)}) in\n{if_term(env, st, callk)})"
    if isinstance(st, ast.For):
        return for_term(env, st, rest_of)
    if isinstance(st, ast.While):
        return while_term(env, st, rest_of)
    fail(p, st, "statement " + ast.unparse(st)[:60])


def if_term(env, st, k):
    """k: env -> term for what follows the if (None: the function ends)"""
    p = env.path

    def cont(env2):
        if k is None:
            raise TranslateError(f"translator: {p}:{st.lineno}: control reaches the end of {env.fname} without return")
        return k(env2)

    x = narrowing_test(env, st.test)
    if x is not None and not st.orelse:
        # if x is None: <never falls through>  -- narrowing of the Optional in what follows
        falls = [0]

        def probe(_env):
            falls[0] += 1
            return "K"

        saved = (list(env.counter), len(env.hoisted), dict(env.flags))
        block(env, st.body, probe)
        env.counter[:] = saved[0]
        del env.hoisted[saved[1] :]
        env.flags.update(saved[2])
        if falls[0] == 0:
            tmp = env.fresh()
            none_t = block(env, st.body, cont)
            some_t = bind_var(env, x, st, tmp, env.vars[x][1], True, cont, narrowing=True)
            return f"(match {cn(x)} with\n | None =>\n{indent(none_t)}\n | Some {tmp} =>\n{indent(some_t)}\n end)"
    info = state_call(env, st.test)
    if info is not None:

        def after(env2, r):
            then_t = block(env2, st.body, cont)
            else_t = block(env2, st.orelse, cont) if st.orelse else cont(env2)
            return f"(if {r}\n then\n{indent(then_t)}\n else\n{else_t})"

        return apply_state_call(env, st.test, info, after)
    t, pure = cond(env, st.test)
    then_t = block(env, st.body, cont)
    else_t = block(env, st.orelse, cont) if st.orelse else cont(env)
    if pure:
        return f"(if {t}\n then\n{indent(then_t)}\n else\n{else_t})"
    return f"(ifE {t}\n{indent(then_t)}\n{else_t})"


def contains(stmts, kinds, stop=()):
    """does a statement of one of the kinds occur in stmts (not looking inside the statements of kind `stop`)"""

    def walk(node):
        if isinstance(node, kinds):
            return True
        if isinstance(node, stop):
            return False
        return any(walk(c) for c in ast.iter_child_nodes(node))

    return any(walk(s) for s in stmts)


def names_read(node):
    return [n.id for n in ast.walk(node) if isinstance(n, ast.Name)]


def for_term(env, st, rest_of):
    p = env.path
    if st.orelse or getattr(st, "type_comment", None):
        fail(p, st, "for-else")
    it, tg = st.iter, st.target
    iterating = set()
    # the loop variable and the list iterated
    if isinstance(it, ast.Call) and is_name(it.func, "enumerate") and len(it.args) == 1 and not it.keywords:
        need_builtin(env, st, "enumerate")
        if not (isinstance(tg, ast.Tuple) and len(tg.elts) == 2 and is_name(tg.elts[0], "_") and isinstance(tg.elts[1], ast.Name)):
            fail(p, st, "loop header " + ast.unparse(st)[:60])
        x = tg.elts[1].id
        l, lty, lpure = expr(env, it.args[0])
        iterating |= {n for n in names_read(it.args[0]) if is_mutable(env.vars.get(n))}
    elif isinstance(it, ast.Call) and is_name(it.func, "range") and len(it.args) in (1, 2) and not it.keywords:
        need_builtin(env, st, "range")
        if not isinstance(tg, ast.Name):
            fail(p, st, "loop header " + ast.unparse(st)[:60])
        x = tg.id
        parts = [expr(env, a, INT) for a in it.args]
        if len(parts) == 1:
            parts = [("0%Z", INT, True)] + parts
        l, lpure = seq(env, [(t, pu) for t, _, pu in parts], lambda a, b: f"(py_range {a} {b})")
        lty = tlist(INT)
    else:
        if not isinstance(tg, ast.Name):
            fail(p, st, "loop header " + ast.unparse(st)[:60])
        x = tg.id
        l, lty, lpure = expr(env, it)
        iterating |= {n for n in names_read(it) if is_mutable(env.vars.get(n))}
        if lty[0] == "set":
            l, lty = f"(pyset_elements {l})", tlist(lty[1])
    if lty[0] != "list" or not determined(lty):
        fail(p, st, f"iteration over a value of type {lty}")
    if x != "_":
        check_name(env, x, st)
        if x in env.vars:
            fail(p, st, f"loop variable {x} shadows a variable")
    body = strip_doc(st.body)
    assigned = assigned_in(env, body)
    if x in assigned:
        fail(p, st, "loop body assigns the loop variable")
    for n in iterating:
        if n in assigned:
            fail(p, st, f"the loop body mutates {n}, which the loop iterates")
    early = contains(body, (ast.Return,))
    brk = contains(body, (ast.Break,), stop=(ast.For, ast.While))
    state = [n for n in assigned if n in env.vars]
    ncomps = int(early) + int(brk) + len(state)
    if ncomps == 0:
        fail(p, st, "loop without carried variable")
    rty = coqty(ret_type(env))
    stv = "st"
    projs = projections(ncomps, stv)
    benv = env.child(**({x: lty[1]} if x != "_" else {}))
    benv.loop_depth = env.loop_depth + 1
    # a list created before the loop may not be stored in a container inside it (it would be mutated afterwards)
    outer_escaped = set(env.escaped)

    def pack(env2, first, second):
        comps = ([first] if early else []) + ([second] if brk else [])
        for n in state:
            if env2.vars[n] == env.vars[n]:
                comps.append(cn(n))
            elif env.vars[n] == topt(env2.vars[n]):
                comps.append(f"(Some {cn(n)})")
            else:
                fail(p, st, f"loop body changes the type of {n} from {env.vars[n]} to {env2.vars[n]}")
            if n in env2.escaped and n not in outer_escaped:
                fail(p, st, f"{n}, created before the loop, is stored in a container inside it")
        return tuple_term(comps)

    none_r = f"(@None {rty})"

    def body_end(env2, is_break):
        return f"(ret {pack(env2, none_r, 'true' if is_break else 'false')})"

    def on_return(env2, t, pure):
        if pure:
            return f"(ret {pack(env2, f'(Some {t})', 'false')})"
        v = env2.fresh()
        return f"(bind {t} (fun {v} => (ret {pack(env2, f'(Some {v})', 'false')})))"

    benv.loop = {"end": body_end, "iterating": iterating | (env.loop["iterating"] if env.loop else set())}
    benv.on_return = on_return if early else None
    body_t = block(benv, body, lambda env2: body_end(env2, False))
    k = 0
    if brk:
        body_t = f"(if {projs[int(early)]} then (ret {stv}) else\n{body_t})"
    if early:
        body_t = f"(match {projs[0]} with\n | Some _ => (ret {stv})\n | None =>\n{indent(body_t)}\n end)"
    k = int(early) + int(brk)
    for n, pr in reversed(list(zip(state, projs[k:]))):
        body_t = f"(let {cn(n)} := {pr} in\n{body_t})"
    lv = env.fresh() if not lpure else None
    lterm = lv if lv else l
    init = pack(env, none_r, "false")
    xv = cn(x) if x != "_" else "_"
    sty = tuple_type(([f"(option {rty})"] if early else []) + (["bool"] if brk else []) + [coqty(env.vars[n], False) for n in state])
    loop = f"(fold_left (fun (acc : py {sty}) {xv} => (bind acc (fun {stv} =>\n{indent(body_t, 2)})))\n  {lterm} (ret {init}))"
    tmp = env.fresh()
    after = rest_of(with_escapes(env, body))
    aprojs = projections(ncomps, tmp)
    if early:
        v = env.fresh()
        ret_t = env.on_return(env, v, True) if env.on_return else function_return(env, v, True)
        after = f"(match {aprojs[0]} with\n | Some {v} => {ret_t}\n | None =>\n{indent(after)}\n end)"
    for n, pr in reversed(list(zip(state, aprojs[k:]))):
        after = f"(let {cn(n)} := {pr} in\n{after})"
    out = f"(bind {loop} (fun {tmp} =>\n{after}))"
    if lv:
        out = f"(bind {l} (fun {lv} =>\n{out}))"
    return out


def while_term(env, st, rest_of):
    p = env.path
    if st.orelse:
        fail(p, st, "while-else")
    if env.loop is not None or env.in_while:
        fail(p, st, "while inside a loop")
    if env.info["state"]:
        fail(p, st, "while in a function with threaded state")
    body = strip_doc(st.body)
    if contains(body, (ast.Return,)) or contains(body, (ast.Break, ast.Continue), stop=(ast.For,)) or contains(body, (ast.While,)):
        fail(p, st, "return/break/continue/while inside a while loop")
    assigned = assigned_in(env, body)
    state = [n for n in assigned if n in env.vars]
    if not state:
        fail(p, st, "while loop without carried variable")
    targets = loop_targets(body)
    used = []
    for n in names_read(st):
        if n in env.vars and n not in state and n not in used:
            if n in targets:
                fail(p, st, f"{n} is both a variable and a loop variable of the while body")
            used.append(n)
    env.counter[2] += 1
    name = f"{env.info['gen']}_while{env.counter[2]}"
    env.flags["wfuel"] = True
    wenv = Env(env.path, env.tree, env.imports, env.fname, "p")
    wenv.counter, wenv.hoisted, wenv.flags = env.counter, env.hoisted, env.flags
    wenv.vars = {n: env.vars[n] for n in used + state}
    wenv.mut_ok = {n: env.mut_ok.get(n, False) for n in used + state}
    wenv.escaped = set(env.escaped)
    wenv.in_while = True
    for n in used + state:
        if not determined(env.vars[n]):
            fail(p, st, f"the type of {n} is not determined")
    # the variables read after the loop must be state or bound before it: those bound only inside are not visible
    sty = tuple_type([coqty(env.vars[n], False) for n in state])

    def again(env2):
        for n in state:
            if env2.vars[n] != env.vars[n]:
                fail(p, st, f"the while body changes the type of {n}")
            if n in env2.escaped and n not in env.escaped:
                fail(p, st, f"{n} is stored in a container inside the while loop")
        return f"({name} p wfuel {' '.join(cn(n) for n in used + state)})"

    c, cp = cond(wenv, st.test)
    body_t = block(wenv, body, again)
    done = f"(ret {tuple_term([cn(n) for n in state])})"
    inner = f"(if {c}\n then\n{indent(body_t)}\n else\n{done})" if cp else f"(ifE {c}\n{indent(body_t)}\n{done})"
    params = " ".join(f"({cn(n)} : {coqty(env.vars[n])})" for n in used + state)
    env.hoisted.append(
        f"(* {RX_REL}: the while loop of {env.fname} (line {st.lineno}); state: {', '.join(state)} *)\n"
        f"Fixpoint {name} (p : prog) (wfuel : nat) {params} {{struct wfuel}} : py {sty} :=\n"
        f"  match wfuel with\n"
        f"  | O => None (* iteration budget exhausted *)\n"
        f"  | S wfuel =>\n{indent(inner, 4)}\n"
        f"  end."
    )
    tmp = env.fresh()
    after = rest_of(with_escapes(env, body))
    for n, pr in reversed(list(zip(state, projections(len(state), tmp)))):
        after = f"(let {cn(n)} := {pr} in\n{after})"
    return f"(bind ({name} {env.P} wfuel {' '.join(cn(n) for n in used + state)}) (fun {tmp} =>\n{after}))"


# ----------------------------------------------------------------------------- emission
def call_graph(tree, path):
    fns = {}
    for name in FUNCS:
        fns[name] = find_toplevel(tree, name, path)
    calls = {}
    for name, fn in fns.items():
        calls[name] = []
        for node in ast.walk(fn):
            if isinstance(node, ast.Call) and isinstance(node.func, ast.Name) and node.func.id in FUNCS and node.func.id not in calls[name]:
                calls[name].append(node.func.id)
    return fns, calls


def topo_order(calls, path):
    """callees first (stable w.r.t. the order of FUNCS); self loops are recursion, other cycles are refused"""
    order, state = [], {}

    def visit(n, stack):
        if state.get(n) == 2:
            return
        if state.get(n) == 1:
            raise TranslateError(f"translator: {path}: mutual recursion between {', '.join(stack)}")
        state[n] = 1
        for m in calls[n]:
            if m != n:
                visit(m, stack + [m])
        state[n] = 2
        order.append(n)

    for n in FUNCS:
        visit(n, [n])
    return order


def emit_regex(outdir):
    rp = os.path.join(T, RX_REL)
    tree = parse(rp)
    imports = bound_names(tree)
    for name, origin in EXPECTED_BINDINGS.items():
        if imports.get(name) != origin:
            raise TranslateError(f"translator: {rp}: name {name} is bound to {imports.get(name)}, expected {origin}")
        if count_bindings(tree, name) != 1:
            raise TranslateError(f"translator: {rp}: name {name} is bound {count_bindings(tree, name)} times in the module")
    for name in FUNCS:
        if imports.get(name) != "<local>" or count_bindings(tree, name) != 1:
            raise TranslateError(f"translator: {rp}: {name} is not defined exactly once in the module")
    for name in BUILTINS + ("list",):
        if count_bindings(tree, name) != 0:
            raise TranslateError(f"translator: {rp}: the builtin {name} is re-bound in the module")
    check_fingerprints(rp, tree)
    fns, calls = call_graph(tree, rp)
    order = topo_order(calls, rp)

    L = []
    w = L.append
    w("(* GENERATED by tools/translate.py (translate_regex) from /repo/tealer -- do not edit *)")
    w("(* utils/regex/regex.py: _find_label, _is_equal, _is_match, _successors, _find_instructions, match_regex,")
    w("   statement by statement.  See tools/translate_regex.py. *)")
    w("From Coq Require Import String List NArith ZArith Bool Arith.")
    w("From Tealer Require Import Tables Syntax Parse Cfg Keys KeysGen.")
    w("Import ListNotations.")
    w("Open Scope string_scope.")
    w("Open Scope list_scope.")
    w(PRELUDE.rstrip("\n"))
    w("")
    w("(* ====================================================================== *)")
    w("(* TRANSLATED functions (callees first)                                     *)")
    w("(* ====================================================================== *)")
    DONE.clear()
    for name in order:
        fn, info = fns[name], FUNCS[name]
        signature(rp, fn, [(a, ann) for a, ann, _ in info["params"]], returns=info["returns"][0])
        recursive = name in calls[name]
        P = "(teal_prog contract)" if any(ty == TEAL for _, _, ty in info["params"]) else "p"
        env = Env(rp, tree, imports, name, P)
        for a, _, ty in info["params"]:
            check_name(env, a, fn)
            env.vars[a] = ty
            env.mut_ok[a] = a in info["state"]
        if recursive:
            env.flags["fuel"] = True
        # parameters that are not threaded are never mutated: need_mutable refuses them (mut_ok is False)
        body = block(env, fn.body, None)
        if info["state"] and not recursive:
            raise TranslateError(f"translator: {rp}: {name} is expected to be recursive")
        DONE[name] = {"fuel": env.flags["fuel"], "wfuel": env.flags["wfuel"]}
        for h in env.hoisted:
            w(h)
            w("")
        params = " ".join(f"({cn(a)} : {coqty(ty)})" for a, _, ty in info["params"])
        rty = tuple_type([coqty(info["returns"][1], False)] + [coqty(dict((a, c) for a, _, c in info["params"])[s], False) for s in info["state"]])
        if P != "p":
            pparam = ""
        else:
            pparam = "(p : prog) "
        extra = ("(fuel : nat) " if env.flags["fuel"] else "") + ("(wfuel : nat) " if env.flags["wfuel"] else "")
        w(f"(* {RX_REL}: {name} (line {fn.lineno})" + (f"; returns the result and the final state of {', '.join(info['state'])}" if info["state"] else "") + " *)")
        if recursive:
            w(
                f"Fixpoint {info['gen']} {pparam}{extra}{params} {{struct fuel}} : py {rty} :=\n"
                f"  match fuel with\n"
                f"  | O => None (* recursion budget exhausted *)\n"
                f"  | S fuel =>\n{indent(body, 4)}\n"
                f"  end."
            )
        else:
            w(f"Definition {info['gen']} {pparam}{extra}{params} : py {rty} :=\n{indent(body, 2)}.")
        w("")
    os.makedirs(outdir, exist_ok=True)
    with open(os.path.join(outdir, "RegexGen.v"), "w") as fh:
        fh.write("\n".join(L))
    return len(order)


def main():
    outdir = sys.argv[1] if len(sys.argv) > 1 else os.path.join(os.path.dirname(os.path.abspath(__file__)), "..", "coq", "Gen")
    try:
        n = emit_regex(outdir)
    except TranslateError as e:
        print(str(e))
        sys.exit(2)
    print(f"translate_regex: {n} regex-engine functions -> {outdir}/RegexGen.v")


if __name__ == "__main__":
    main()
