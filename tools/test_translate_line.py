#!/venv/bin/python
"""Self-test of tools/translate_line.py (the regenerated line-level front end of the parser, Gen/LineGen.v).

(a) runs the translator on the clean source ($VERIF_REPO, default /tmp/cleanrepo) and checks that the output compiles,
    is the file in coq/Gen, and that Lemmas/LineGenLemmas.v compiles against it (positive control);
(b) applies small mutations to a scratch copy of parse_instruction.py and shows that, for each, either the translator
    stops (TranslateError) or the generated Gallina differs AND Lemmas/LineGenLemmas.v no longer compiles against it;
    one more row edits the fixed prelude of a scratch copy of the translator without re-pinning its fingerprint;
(c) conformance of the fixed reading (the str method table, int(), and the translated functions as a whole) with the
    running interpreter: the generated functions are evaluated by coqc (vm_compute) on sample ASCII strings and
    compared with what the real Python functions of $VERIF_REPO return (this part imports tealer; the translator
    never does).  The known deviations of the library leaves (binascii errors) are excluded from the samples.

Precondition: coq/ has been built (`make`).  Every coqc runs under `timeout`.  Exit status 0 iff every row has the
expected verdict.
"""
import ast
import itertools
import os
import shutil
import subprocess
import sys
import tempfile

HERE = os.path.dirname(os.path.abspath(__file__))
ROOT = os.path.dirname(HERE)
COQ = os.path.join(ROOT, "coq")
PY = "/venv/bin/python"
REPO = os.environ.get("VERIF_REPO", "/tmp/cleanrepo")

PI = "tealer/teal/instructions/parse_instruction.py"
NEEDED = [PI, "tealer/teal/instructions/instructions.py"]


def sh(cmd, cwd=None, env=None):
    e = dict(os.environ)
    if env:
        e.update(env)
    p = subprocess.run(cmd, shell=True, cwd=cwd, stdout=subprocess.PIPE, stderr=subprocess.STDOUT, env=e, check=False)
    return p.returncode, p.stdout.decode(errors="replace")


# ----------------------------------------------------------------------------- mutations (text -> text)
def replace_once(src, old, new):
    if src.count(old) != 1:
        raise RuntimeError(f"mutation anchor found {src.count(old)} times: " + old[:60])
    return src.replace(old, new, 1)


def mut_escape_not_skipping(src):
    """the backslash no longer escapes the next character (the escape is lost)"""
    return replace_once(src, "                    i += 2\n                    continue\n", "                    i += 1\n                    continue\n")


def mut_escape_continue_dropped(src):
    """`continue` after the escape dropped: the escaped character is examined again"""
    return replace_once(src, "                    i += 2\n                    continue\n", "                    i += 2\n")


def mut_comment_before_string(src):
    """the `//` test moved before the string-literal test"""
    tree = ast.parse(src)
    fn = [n for n in tree.body if isinstance(n, ast.FunctionDef) and n.name == "_split_instruction_into_tokens"][0]
    loop = [n for n in fn.body if isinstance(n, ast.While)][0]
    top = loop.body[0]
    quote = top.orelse[0]
    comment = quote.orelse[0]
    if "'\"'" not in ast.unparse(quote.test) or "'//'" not in ast.unparse(comment.test):
        raise RuntimeError("mutation anchor not found: quote / comment branches")
    last = comment.orelse
    top.orelse = [comment]
    comment.orelse = [quote]
    quote.orelse = last
    return ast.unparse(ast.fix_missing_locations(tree)) + "\n"


def mut_b64_comment_again(src):
    """the past defect D30: `//` inside base64 data is a comment again (tokenizer)"""
    return replace_once(src, 'elif line[i : i + 2] == "//" and not _in_base64_literal(fields, line[start:i]):', 'elif line[i : i + 2] == "//":')


def mut_b64_comment_again_line(src):
    """the past defect D30, second half: parse_line strips a last token `//..` even when it is base64 data"""
    return replace_once(src, 'if fields[-1].startswith("//") and not _in_base64_literal(fields[:-1], ""):', 'if fields[-1].startswith("//"):')


def mut_b64_kw_only_base64(src):
    """_in_base64_literal forgets the keyword b64"""
    return replace_once(src, 'return len(fields) > 0 and fields[-1] in ("base64", "b64")', 'return len(fields) > 0 and fields[-1] in ("base64",)')


def mut_prefix_order(src):
    """octal / hex prefix tests swapped in _parse_int"""
    return replace_once(
        src,
        '    if x.startswith("0x"):\n        return int(x[2:], 16)\n    if x.startswith("0"):\n        return int(x, 8)\n',
        '    if x.startswith("0"):\n        return int(x, 8)\n    if x.startswith("0x"):\n        return int(x[2:], 16)\n',
    )


def mut_hex_base(src):
    """hex literals read in base 10"""
    return replace_once(src, "return int(x[2:], 16)", "return int(x[2:], 10)")


def mut_label_in(src):
    """label test with `in` instead of the last character"""
    return replace_once(src, 'if fields[0][-1] == ":":', 'if ":" in fields[0]:')


def mut_label_first_char(src):
    """label test on the first character"""
    return replace_once(src, 'if fields[0][-1] == ":":', 'if fields[0][0] == ":":')


def mut_no_strip(src):
    """the line is no longer stripped before tokenizing"""
    return replace_once(src, "    line = line.strip()\n    i = 0\n", "    i = 0\n")


def mut_flush_before_comment(src):
    """a pending partial token is flushed before the comment token"""
    return replace_once(src, "            fields.append(line[i:])\n            return fields\n", "            if start != i:\n                fields.append(line[start:i])\n            fields.append(line[i:])\n            return fields\n")


def mut_space_after_quote(src):
    """whitespace test after the quote test"""
    tree = ast.parse(src)
    fn = [n for n in tree.body if isinstance(n, ast.FunctionDef) and n.name == "_split_instruction_into_tokens"][0]
    loop = [n for n in fn.body if isinstance(n, ast.While)][0]
    top = loop.body[0]
    quote = top.orelse[0]
    rest = quote.orelse
    quote.orelse = [top]
    top.orelse = rest
    loop.body[0] = quote
    return ast.unparse(ast.fix_missing_locations(tree)) + "\n"


def mut_paren_close(src):
    """base64(..) accepted without the closing parenthesis test"""
    return src.replace('            if fields[i][-1] != ")":\n                error = True\n                break\n            data = fields[i].split("(")[1][:-1]\n            arguments.append(_b64_decode(data))', '            data = fields[i].split("(")[1][:-1]\n            arguments.append(_b64_decode(data))', 1)


def mut_rule_exact(src):
    """rule dispatch by equality instead of prefix"""
    return replace_once(src, "        if line.startswith(key):\n", "        if line == key:\n")


def mut_one_argument(src):
    """byte / pushbytes / method accept any number of arguments"""
    return replace_once(src, "        if len(imm) != 1:\n", "        if len(imm) < 1:\n")


def mut_lstrip(src):
    """a str method outside the table"""
    return replace_once(src, "    line = line.strip()\n    i = 0\n", "    line = line.lstrip()\n    i = 0\n")


def mut_leaf(src):
    """the base64 leaf edited (padding)"""
    return replace_once(src, 'base64.b64decode(s + "=" * (-len(s) % 4))', 'base64.b64decode(s + "=" * (-len(s) % 3))')


def mut_negative_index(src):
    """an index expression with a subtraction (ints are nat in the reading)"""
    return replace_once(src, "fields.append(line[start : i + 1])", "fields.append(line[start - 0 : i + 1])")


MUTATIONS = [
    ("(1) escape: backslash no longer skips the next character", mut_escape_not_skipping),
    ("(2) escape: `continue` after the escape dropped", mut_escape_continue_dropped),
    ("(3) `//` test before the string-literal test", mut_comment_before_string),
    ("(4) D30: `//` in base64 data is a comment again (tokenizer)", mut_b64_comment_again),
    ("(5) D30: `//` in base64 data stripped as comment (parse_line)", mut_b64_comment_again_line),
    ("(6) _in_base64_literal forgets `b64`", mut_b64_kw_only_base64),
    ("(7) octal / hex prefix tests swapped", mut_prefix_order),
    ("(8) hex literal read in base 10", mut_hex_base),
    ("(9) label test with `in`", mut_label_in),
    ("(10) label test on the first character", mut_label_first_char),
    ("(11) line not stripped before tokenizing", mut_no_strip),
    ("(12) partial token flushed before a comment", mut_flush_before_comment),
    ("(13) whitespace test after the quote test", mut_space_after_quote),
    ("(14) base64(..) without the `)` test", mut_paren_close),
    ("(15) rule dispatch by equality", mut_rule_exact),
    ("(16) byte accepts several arguments", mut_one_argument),
    ("(x1) str method outside the table (lstrip)", mut_lstrip),
    ("(x2) base64 leaf edited", mut_leaf),
    ("(x3) subtraction in an index", mut_negative_index),
]


# ----------------------------------------------------------------------------- one run
def prepare_repo(dst, mutate=None):
    for f in NEEDED:
        os.makedirs(os.path.dirname(os.path.join(dst, f)), exist_ok=True)
        shutil.copy(os.path.join(REPO, f), os.path.join(dst, f))
    if mutate:
        path = os.path.join(dst, PI)
        with open(path, encoding="utf-8") as fh:
            src = fh.read()
        new = mutate(src)
        if new == src:
            raise RuntimeError("mutation did not change the source")
        ast.parse(new)
        with open(path, "w", encoding="utf-8") as fh:
            fh.write(new)


def qflags(gen):
    return f"-Q {COQ}/Model Tealer -Q {gen} Tealer -Q {COQ}/Spec Tealer -Q {COQ}/Lemmas Tealer"


def link_gen(gen):
    for f in os.listdir(os.path.join(COQ, "Gen")):
        if f.endswith(".vo") and not f.startswith("LineGen"):
            os.symlink(os.path.join(COQ, "Gen", f), os.path.join(gen, f))


def run_case(work, mutate=None, tools=HERE):
    repo = os.path.join(work, "repo")
    gen = os.path.join(work, "Gen")
    lem = os.path.join(work, "Lemmas")
    os.makedirs(gen)
    os.makedirs(lem)
    prepare_repo(repo, mutate)
    rc, out = sh(f"{PY} {tools}/translate_line.py {gen}", env={"VERIF_REPO": repo})
    res = {"translator": "ok" if rc == 0 else "STOPPED", "log": out.strip(), "text": None, "gen_ok": None, "lemmas_ok": None, "gen": gen}
    if rc != 0:
        if rc != 2 or "translator:" not in out:
            res["translator"] = "CRASHED"
        return res
    with open(os.path.join(gen, "LineGen.v"), encoding="utf-8") as fh:
        res["text"] = fh.read()
    link_gen(gen)
    shutil.copy(os.path.join(COQ, "Lemmas", "LineGenLemmas.v"), os.path.join(lem, "LineGenLemmas.v"))
    rc, out = sh(f"timeout 300 coqc {qflags(gen)} {gen}/LineGen.v 2>&1")
    res["gen_ok"] = rc == 0
    res["log"] += "\n" + out[-1500:]
    if rc == 0:
        rc, out = sh(f"timeout 900 coqc {qflags(gen)} {lem}/LineGenLemmas.v 2>&1")
        res["lemmas_ok"] = rc == 0
        res["log"] += "\n" + out[-1500:]
        res["errline"] = next((l for l in out.splitlines() if l.startswith("File ") and "LineGenLemmas" in l), None)
    return res


def run_prelude_edit(work):
    """a scratch copy of the translator whose prelude reads str.isspace differently, fingerprint not re-pinned"""
    tools = os.path.join(work, "tools")
    os.makedirs(tools)
    for f in ("translate_line.py", "tcommon.py", "translate_keys.py", "translate.py"):
        shutil.copy(os.path.join(HERE, f), os.path.join(tools, f))
    p = os.path.join(tools, "translate_line.py")
    with open(p, encoding="utf-8") as fh:
        src = fh.read()
    new = replace_once(src, "[9; 10; 11; 12; 13; 28; 29; 30; 31; 32].", "[9; 10; 11; 12; 13; 32].")
    with open(p, "w", encoding="utf-8") as fh:
        fh.write(new)
    return run_case(os.path.join(work, "run"), None, tools)


# ----------------------------------------------------------------------------- conformance with the interpreter
def coq_any(s):
    """a Coq string term for an arbitrary ASCII string"""
    parts, cur = [], ""
    for ch in s:
        if 32 <= ord(ch) <= 126:
            cur += ch
        else:
            if cur:
                parts.append('"' + cur.replace('"', '""') + '"')
                cur = ""
            if ord(ch) > 127:
                raise RuntimeError("non-ASCII sample")
            parts.append(f'(String (Ascii.ascii_of_nat {ord(ch)}) "")')
    if cur or not parts:
        parts.append('"' + cur.replace('"', '""') + '"')
    return "(" + " ++ ".join(parts) + ")%string"


def coq_list(xs):
    return "[" + "; ".join(coq_any(x) for x in xs) + "]"


def opt(x, f):
    return "None" if x is None else f"(Some {f(x)})"


def conformance(work):
    sys.path.insert(0, REPO)
    from tealer.teal.instructions import parse_instruction as P  # noqa  (the harness, not the translator, imports tealer)
    import contextlib
    import io

    def attempt(f, *a):
        try:
            with contextlib.redirect_stdout(io.StringIO()):
                return ("ok", f(*a))
        except Exception as e:  # noqa
            return ("exc", type(e).__name__)

    groups = []  # (name, coq expression listing the failing samples, number of samples)
    # --- characters
    ws = [c for c in range(128) if chr(c).isspace()]
    dg = [c for c in range(128) if chr(c).isdigit()]
    groups.append(("chr(c).isspace() on 0..127", f"(filter (fun c => negb (Bool.eqb (ascii_isspace (Ascii.ascii_of_nat c)) (existsb (Nat.eqb c) [{'; '.join(map(str, ws))}]))) (seq 0 128))", 128))
    groups.append(("chr(c).isdigit() on 0..127", f"(filter (fun c => negb (Bool.eqb (ascii_isdigit (Ascii.ascii_of_nat c)) (existsb (Nat.eqb c) [{'; '.join(map(str, dg))}]))) (seq 0 128))", 128))
    # --- str methods
    alpha = [" ", "\t", "\x1c", "a", '"', "(", "/"]
    strs = [""] + ["".join(t) for n in (1, 2, 3) for t in itertools.product(alpha, repeat=n)]
    strs += [" a b ", "\x1f a\x0b", "ab(cd(ef)", "0x1f", "base64(", "b64(AA)", "a" * 9]

    def table(name, items, coqf, eqb):
        rows = "; ".join(f"({a}, {e})" for a, e in items)
        groups.append((name, f"(filter (fun p => negb ({eqb} ({coqf} (fst p)) (snd p))) [{rows}])", len(items)))

    sb = lambda b: "true" if b else "false"  # noqa: E731
    table("s.strip()", [(coq_any(s), coq_any(s.strip())) for s in strs], "str_strip", "String.eqb")
    table("s.isspace()", [(coq_any(s), sb(s.isspace())) for s in strs], "str_isspace", "Bool.eqb")
    table("s.isdigit()", [(coq_any(s), sb(s.isdigit())) for s in strs + ["0", "12", "1a"]], "str_isdigit", "Bool.eqb")
    table("s.split('(')", [(coq_any(s), coq_list(s.split("("))) for s in strs], "(fun s => str_split_char s \"(\"%char)", "(list_beq string String.eqb)")
    table("s.split(' ')", [(coq_any(s), coq_list(s.split(" "))) for s in strs], "(fun s => str_split_char s \" \"%char)", "(list_beq string String.eqb)")
    table("s[:-1]", [(coq_any(s), coq_any(s[:-1])) for s in strs], "str_drop_last", "String.eqb")
    table("s[-1]", [(coq_any(s), opt(s[-1] if s else None, coq_any)) for s in strs], "str_last", "(opt_beq string String.eqb)")
    table("s.startswith(('base64(', 'b64('))", [(coq_any(s), sb(s.startswith(("base64(", "b64(")))) for s in strs], '(fun s => str_startswith_any s ["base64("; "b64("])', "Bool.eqb")
    sl = [(s, a, b) for s in ["", "a", "abc", "abcdef"] for a in range(0, 8) for b in range(0, 9)]
    rows = "; ".join(f"(({coq_any(s)}, {a}, {b}), ({coq_any(s[a:b])}, {coq_any(s[a:])}, {opt(s[a] if a < len(s) else None, coq_any)}))" for s, a, b in sl)
    groups.append(("s[a:b], s[a:], s[a]", f"(filter (fun p => let '((s, a, b), (x, y, z)) := p in negb (String.eqb (str_slice s a b) x && String.eqb (str_slice_from s a) y && opt_beq string String.eqb (str_index s a) z)) [{rows}])", len(sl)))
    joins = [[], ["a"], ["a", "b"], ["", "", "x"], ["a b", "c"]]
    table("' '.join(xs)", [(coq_list(x), coq_any(" ".join(x))) for x in joins], '(str_join " ")', "String.eqb")
    # --- int(s, base)
    ia = [" ", "\t", "\x1c", "+", "-", "_", "0", "1", "7", "8", "9", "a", "f", "g", "x", "X", "o", "z"]
    ints = [""] + ["".join(t) for n in (1, 2, 3) for t in itertools.product(ia, repeat=n)]
    ints += ["0x1f", "0X1F", "0x_1f", "0x__1", "0o17", "0O7_7", " 12 ", "\n12\r", "1_000_000", "18446744073709551615", "0x0x1", "-0", "+0x1", "-0o7", "0b1"]
    for base in (8, 10, 16):
        items = []
        for s in ints:
            try:
                v = int(s, base)
            except ValueError:
                v = None
            items.append((coq_any(s), opt(v, lambda z: f"({z})%Z")))
        table(f"int(s, {base})", items, f"(fun s => py_int s {base}%N)", "(opt_beq Z Z.eqb)")
    # --- the translated functions against the real ones
    pis = ["", "0", "00", "08", "0x", "0x1f", "0X1f", "12", "1_0", "-1", "+1", " 1", "0o7", "0x0x1", "0xg", "a", "0_7"]
    items = []
    for s in pis + ints[: 18 * 18 + 19]:
        k, v = attempt(P._parse_int, s)
        items.append((coq_any(s), opt(v if k == "ok" else None, lambda z: f"({z})%Z")))
    table("_parse_int", items, "parse_int_gen", "(opt_beq Z Z.eqb)")
    items = []
    for s in pis:
        k, v = attempt(P._is_int, s)
        items.append((coq_any(s), opt(v if k == "ok" else None, sb)))
    table("_is_int", items, "is_int_gen", "(opt_beq bool Bool.eqb)")
    lines = [
        "", " ", "int 1", "  int 1  // c", "int 1//c", "//c", "a//b //c", 'byte "a b" // c', 'byte "a\\"b"', 'byte "a\\\\"', 'byte "a\\\\" "b"', 'byte "a',
        'byte "a\\', 'x"y z" w', 'byte base64 //8= // c', "byte b64(//8=) // c", "byte base64(//8=)//c", "byte b64 //", "byte base32 // c", "b64 //x", "a b64(//",
        "int 1\t\x1c 2", "\x1f x \x0b", 'a"b', '""', '"" ""', '"//"', "lab:", "lab : x", "byte 0x00 //", "byte base64(a //b)", "method \"a(b)c\"", "b64(// x", "base64 // y // z",
        "#pragma version 8", "bytecblock 0x00 base64 AA== b32(AA)", "pushbytess \"a\" \"b\"", "txn  Sender", "gtxn 0 Fee", "int\t5", "pushints 1 2 3", "callsub  f", "bnz a b",
    ]
    alpha2 = [" ", "a", '"', "\\", "/", "b64"]
    lines += ["".join(t) for n in (2, 3, 4) for t in itertools.product(alpha2, repeat=n)]
    items = []
    for s in lines:
        k, v = attempt(P._split_instruction_into_tokens, s)
        items.append((coq_any(s), opt(v if k == "ok" else None, coq_list)))
    table("_split_instruction_into_tokens", items, "tokens_gen", "(opt_beq (list string) (list_beq string String.eqb))")
    ibl = [([], ""), ([], "b64("), ([], "base64(x"), (["b64"], ""), (["a", "base64"], "x"), (["base64", "a"], "x"), (["b32"], "b32("), ([], "xb64(")]
    rows = "; ".join(f"(({coq_list(f)}, {coq_any(t)}), {sb(P._in_base64_literal(f, t))})" for f, t in ibl)
    groups.append(("_in_base64_literal", f"(filter (fun p => negb (opt_beq bool Bool.eqb (in_base64_literal_gen (fst (fst p)) (snd (fst p))) (Some (snd p)))) [{rows}])", len(ibl)))
    bal = [[], ["0x00"], ['"a"'], ["base64", "AAAA"], ["b64"], ["b64", "AA=="], ["base32", "AE======"], ["b32(AE)"], ["base64(AAAA)"], ["b64(AAAA"], ["base64()"], ["x"], ["0x00", "x"], ["b64", "AAAA", '"s"', "0x"], ["base32(AE)", "b64(AAAA)"], ["b64(AA(AA)"]]
    items = []
    for f in bal:
        k, v = attempt(P._parse_byte_arguments, f)
        if k == "exc" and v != "ParseError":
            continue  # binascii.Error from the library leaf: outside the reading (total leaves)
        items.append((coq_list(f), opt(v if k == "ok" else None, coq_list)))
    table("_parse_byte_arguments", items, "(parse_byte_arguments_gen 50)", "(opt_beq (list string) (list_beq string String.eqb))")
    # parse_line: None / class name of the instruction / exception
    items = []
    for s in lines[:43] + ["err", "int x", "byte", "byte 0x 0x", "method \"f()\"", "unknownop 1", "lab: x", "a:", ":", "gtxn 0", "intcblock 1 2", "b64: x", "frame_dig -1", "frame_bury -128", "frame_dig -0x1"]:
        k, v = attempt(P.parse_line, s)
        if k == "exc" and v not in ("ParseError", "ValueError", "IndexError", "KeyError"):
            continue
        if k == "exc":
            e = "None"
        elif v is None:
            e = "(Some None)"
        else:
            e = f'(Some (Some "{type(v).__name__}"))'
        items.append((coq_any(s), e))
    table("parse_line (class of the result)", items, "(fun s => option_map (option_map cls_of) (parse_line_top s))", "(opt_beq (option string) (opt_beq string String.eqb))")
    # documented deviation: the rule lambdas are read through Parse.parse_shape, which uses the MODEL's parse_int;
    # Python's int() accepts these spellings (Lemmas/LineGenLemmas.parse_int_gen_extra_spellings), the model does not
    items = []
    for s in ["load 1_0", "load -1", "pushints +1 -2", "store 0o7", "int 0x0x1f"]:
        k, v = attempt(P.parse_line, s)
        if not (k == "ok" and v is not None):
            raise RuntimeError("documented deviation no longer present in python: " + s)
        items.append((coq_any(s), "None"))
    table("parse_line, documented deviation: python parses, model raises", items, "(fun s => option_map (option_map cls_of) (parse_line_top s))", "(opt_beq (option string) (opt_beq string String.eqb))")

    L = [
        "From Coq Require Import String List NArith ZArith Bool Ascii Arith.",
        "From Tealer Require Import Tables Syntax Parse KeysGen LineGen.",
        "Import ListNotations.",
        "Open Scope string_scope. Open Scope list_scope. Open Scope nat_scope.",
        "Definition opt_beq (A : Type) (f : A -> A -> bool) (a b : option A) : bool :=",
        "  match a, b with Some x, Some y => f x y | None, None => true | _, _ => false end.",
        "Fixpoint list_beq (A : Type) (f : A -> A -> bool) (a b : list A) : bool :=",
        "  match a, b with [] , [] => true | x :: a', y :: b' => f x y && list_beq A f a' b' | _, _ => false end.",
    ]
    for i, (name, ex, n) in enumerate(groups):
        # the translated functions are evaluated lazily: ifE / andE are ordinary functions, so a call-by-value
        # evaluation (vm_compute) would compute both branches of every `if`, recursive calls included
        red = "lazy" if (name.startswith("_") or name.startswith("parse_line")) else "vm_compute"
        L.append(f"Definition bad{i} := {ex}.")
        L.append(f'Eval {red} in ("group {i}", List.length bad{i}, bad{i}).')
    path = os.path.join(work, "Conf.v")
    with open(path, "w", encoding="utf-8") as fh:
        fh.write("\n".join(L) + "\n")
    rc, out = sh(f"timeout 900 coqc -Q {COQ}/Model Tealer -Q {COQ}/Gen Tealer -Q {COQ}/Spec Tealer -Q {COQ}/Lemmas Tealer {path} 2>&1")
    rows = []
    okall = rc == 0
    flat = " ".join(out.split())
    for i, (name, _, n) in enumerate(groups):
        good = f'("group {i}", 0, [])' in flat
        okall &= good
        rows.append((name, n, ("as documented" if "documented deviation" in name else "agree") if good else "DIFFER"))
    return okall, rows, out


def main():
    verbose = "-v" in sys.argv
    for f in ("Model/Parse.vo", "Gen/Tables.vo", "Gen/KeysGen.vo", "Gen/LineGen.vo", "Lemmas/ParseLemmas2.vo"):
        if not os.path.exists(os.path.join(COQ, f)):
            print(f"precondition: {COQ}/{f} missing -- build coq/ first (make)")
            sys.exit(3)
    top = tempfile.mkdtemp(prefix="tline_")
    rows = []
    ok = True
    try:
        base = run_case(os.path.join(top, "base"))
        same = None
        cur = os.path.join(COQ, "Gen", "LineGen.v")
        if base["text"] is not None and os.path.exists(cur):
            with open(cur, encoding="utf-8") as fh:
                same = fh.read() == base["text"]
        good = base["translator"] == "ok" and base["gen_ok"] and base["lemmas_ok"] and same is not False
        ok &= bool(good)
        rows.append(("(a) clean source", base["translator"], "= coq/Gen/LineGen.v" if same else ("DIFFERS from coq/Gen" if same is False else "-"), base["gen_ok"], base["lemmas_ok"], "PASS" if good else "FAIL"))
        if verbose or not good:
            print(base["log"])
        cases = [(name, lambda w, fn=fn: run_case(w, fn)) for name, fn in MUTATIONS]
        cases.append(("(p) prelude edited, fingerprint not re-pinned", run_prelude_edit))
        for i, (name, runner) in enumerate(cases):
            r = runner(os.path.join(top, f"m{i}"))
            if r["translator"] == "STOPPED":
                verdict, good, diff = "caught: translator stops", True, "-"
            elif r["translator"] == "CRASHED":
                verdict, good, diff = "FAIL: translator crashed", False, "-"
            else:
                differs = r["text"] != base["text"]
                diff = "differs" if differs else "IDENTICAL"
                if differs and r["gen_ok"] and r["lemmas_ok"] is False:
                    verdict, good = "caught: Gallina differs, lemmas break", True
                elif differs and not r["gen_ok"]:
                    verdict, good = "caught: Gallina differs, LineGen.v ill-typed", True
                else:
                    verdict, good = "FAIL: NOT DETECTED", False
            ok &= good
            rows.append((name, r["translator"], diff, r["gen_ok"], r["lemmas_ok"], verdict))
            if verbose or not good:
                print(f"--- {name}\n{r['log']}\n")
            elif r["translator"] == "STOPPED":
                print(f"--- {name}: {r['log'].splitlines()[0][:230]}")
            elif r["lemmas_ok"] is False:
                print(f"--- {name}: coqc LineGenLemmas.v fails at {r.get('errline') or '?'}")
        cok, crows, cout = conformance(top)
        ok &= cok
        if verbose or not cok:
            print(cout[-6000:])
    finally:
        shutil.rmtree(top, ignore_errors=True)
    hdr = ("case", "translator", "generated Gallina", "LineGen.v compiles", "LineGenLemmas.v compiles", "verdict")
    fmt = lambda x: "-" if x is None else ("yes" if x is True else ("NO" if x is False else str(x)))  # noqa: E731
    table = [hdr] + [tuple(fmt(c) for c in r) for r in rows]
    widths = [max(len(r[i]) for r in table) for i in range(len(hdr))]
    print()
    for k, r in enumerate(table):
        print(" | ".join(c.ljust(w) for c, w in zip(r, widths)))
        if k == 0:
            print("-+-".join("-" * w for w in widths))
    print("\n(c) conformance of the reading with the running interpreter (coqc vm_compute vs. python)")
    chdr = ("group", "samples", "verdict")
    ctable = [chdr] + [(n, str(k), v) for n, k, v in crows]
    cw = [max(len(r[i]) for r in ctable) for i in range(3)]
    for k, r in enumerate(ctable):
        print(" | ".join(c.ljust(w) for c, w in zip(r, cw)))
        if k == 0:
            print("-+-".join("-" * w for w in cw))
    print("\nRESULT:", "all mutations caught, clean source accepted, reading conforms on the samples" if ok else "FAILURE")
    sys.exit(0 if ok else 1)


if __name__ == "__main__":
    main()
