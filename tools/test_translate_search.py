#!/venv/bin/python
"""Self-test of tools/translate_search.py (the regenerated path search of the detectors, Gen/SearchGen.v).

(a) runs the translator on the clean source ($VERIF_REPO, default /tmp/cleanrepo) and checks that the output is the
    current coq/Gen/SearchGen.v, compiles, and that Lemmas/SearchGenLemmas.v compiles against it;
(b) applies small mutations to a scratch copy of detectors/utils.py (and of the fingerprinted helpers) and shows that,
    for each, either the translator stops (TranslateError) or the generated Gallina differs AND
    Lemmas/SearchGenLemmas.v no longer compiles against it; one semantically neutral mutant (e1) is included as a
    control: its Gallina differs and the lemmas must still compile.

Precondition: coq/ has been built (`make`); the .vo files of Model/, Gen/ (Tables, Leaves, KeysGen), Spec/, Lemmas/ are
used.  Every coqc runs under `timeout`.  Exit status 0 iff every row has the expected verdict.

usage: VERIF_REPO=/tmp/cleanrepo /venv/bin/python tools/test_translate_search.py [-v]
"""
import ast
import os
import re
import shutil
import subprocess
import sys
import tempfile

HERE = os.path.dirname(os.path.abspath(__file__))
ROOT = os.path.dirname(HERE)
COQ = os.path.join(ROOT, "coq")
PY = "/venv/bin/python"
REPO = os.environ.get("VERIF_REPO", "/tmp/cleanrepo")

UTILS = "tealer/detectors/utils.py"
AN = "tealer/utils/analyses.py"
BB = "tealer/teal/basic_blocks.py"


def sh(cmd, cwd=None, env=None):
    e = dict(os.environ)
    if env:
        e.update(env)
    p = subprocess.run(cmd, shell=True, cwd=cwd, stdout=subprocess.PIPE, stderr=subprocess.STDOUT, env=e, check=False)
    return p.returncode, p.stdout.decode(errors="replace")


# ----------------------------------------------------------------------------- mutations (text -> text)
def replace_once(src, old, new):
    if src.count(old) != 1:
        raise RuntimeError(f"mutation anchor found {src.count(old)} times: " + old[:60])
    return src.replace(old, new, 1)


def cut(src, old):
    return replace_once(src, old, "")


RECORD = (
    "        # do we need to make a copy of lists in [:-1]???\n"
    "        current_subroutine_executed = current_subroutine_executed[:-1] + [\n"
    "            current_subroutine_executed[-1] + [bb]\n"
    "        ]\n\n"
)
RETSUB_IF = "        if bb.is_retsub_block:\n"
VALIDATED_IF = (
    "        if validated_in_block(bb, function, checks_field):\n"
    "            logger_detectors.debug(\n"
    '                f"Validated Path: current_full_path = {current_path}\\n, current_block: {repr(bb)}"\n'
    "            )\n"
    "            return\n\n"
)
APPEND_PATH = "        current_path = current_path + [bb]\n\n"
RECURSION_CHECK = (
    "            if called_subroutine in already_called_subroutines:\n"
    "                # recursion\n"
    "                return\n"
)


def mut_record_after_push(src):
    """(i) `record bb as executed` moved after the `if bb.is_callsub_block:` frame push"""
    src = cut(src, RECORD)
    return replace_once(src, RETSUB_IF, RECORD + RETSUB_IF)


def mut_loop_cut_path(src):
    """(ii) the loop cut tests `bb in current_path`"""
    return replace_once(src, "        if bb in current_subroutine_executed[-1]:\n", "        if bb in current_path:\n")


def mut_retsub_no_pop_executed(src):
    """(iii) the retsub branch does not pop current_subroutine_executed"""
    return replace_once(src, "                    current_subroutine_executed[:-1],\n", "                    current_subroutine_executed,\n")


def mut_leaf_before_validated(src):
    """(iv) the leaf test happens before the validated test"""
    src = cut(src, VALIDATED_IF)
    return replace_once(src, RECORD, VALIDATED_IF + RECORD)


def mut_reversed_successors(src):
    """(v) successors iterated in reversed order"""
    return replace_once(src, "            for next_bb in next_blocks_global(function, bb):\n", "            for next_bb in reversed(next_blocks_global(function, bb)):\n")


def mut_no_recursion_check(src):
    """(x1) the recursion check is dropped"""
    return cut(src, RECURSION_CHECK)


def mut_retsub_no_pop_stack(src):
    """(x2) the retsub branch does not pop the call stack"""
    return replace_once(src, "                    current_call_stack[:-1],  # returning from a subroutine\n", "                    current_call_stack,\n")


def mut_report_ignored(src):
    """(x3) the report condition is ignored"""
    return replace_once(src, "            if satisfies_report_condition(current_path):\n", "            if True:\n")


def mut_path_first(src):
    """(e1) bb is appended to the path before the loop cut: the path is only read after the two cuts (and by the
    debug messages), so this mutant is EQUIVALENT -- the proofs must still go through (they are not a text comparison)"""
    src = cut(src, APPEND_PATH)
    return replace_once(src, "        # check for loops\n", "        current_path = current_path + [bb]\n        # check for loops\n")


def mut_leaf_falls_through(src):
    """(x5) no return after the leaf handling"""
    return replace_once(src, "                paths_without_check.append(current_path)\n            return\n", "                paths_without_check.append(current_path)\n")


def mut_push_no_executed(src):
    """(x6) the callsub branch pushes the frame but no list of executed blocks"""
    return cut(src, "            current_subroutine_executed = current_subroutine_executed + [[]]\n")


def mut_push_main_frame(src):
    """(x7) the initial call stack is empty"""
    return replace_once(src, "[(None, function.main)], [[]])", "[], [[]])")


def mut_validated_loop_true(src):
    """(x8) validated_in_block: a failing index returns True"""
    return replace_once(
        src,
        "        if not checks_field(function.transaction_context(block).gtxn_context(i)):\n            return False\n",
        "        if not checks_field(function.transaction_context(block).gtxn_context(i)):\n            return True\n",
    )


def mut_validated_abs_falls(src):
    """(x9) validated_in_block: with an absolute index the group indices are tried as well"""
    return replace_once(src, "            return True\n        return False\n", "            return True\n")


def mut_validated_after_call(src):
    """(x10) the return point of the callsub block in the frame is read from the retsub block itself"""
    return replace_once(src, "            return_point = callsub_block.sub_return_point\n", "            return_point = bb.sub_return_point\n")


def mut_state_rebound(src):
    """(s1) paths_without_check re-bound instead of mutated"""
    return replace_once(src, "                paths_without_check.append(current_path)\n", "                paths_without_check = paths_without_check + [current_path]\n")


def mut_state_copy(src):
    """(s2) the recursive call gets a fresh list"""
    return replace_once(
        src,
        "                    return_point,\n                    current_path,\n                    paths_without_check,\n",
        "                    return_point,\n                    current_path,\n                    [],\n",
    )


def mut_param_mutated(src):
    """(s3) current_path mutated in place"""
    return replace_once(src, "        current_path = current_path + [bb]\n", "        current_path.append(bb)\n")


def mut_leaf_helper(src):
    """(s4, utils/analyses.py) leaf_block_global no longer excludes callsub blocks"""
    return replace_once(
        src,
        "    return len(block.next) == 0 and not block.is_retsub_block and not block.is_callsub_block\n",
        "    return len(block.next) == 0 and not block.is_retsub_block\n",
    )


def mut_block_eq(src):
    """(s5, teal/basic_blocks.py) BasicBlock defines __eq__"""
    return replace_once(src, "    def __str__(self) -> str:\n        ret = \"\"\n", "    def __eq__(self, other: object) -> bool:\n        return True\n\n    def __str__(self) -> str:\n        ret = \"\"\n")


def mut_signature(src):
    """(s6) the last two parameters of search_paths swapped"""
    a = '        current_call_stack: List[Tuple[Optional["BasicBlock"], "Subroutine"]],\n'
    b = '        current_subroutine_executed: List[List["BasicBlock"]],\n    ) -> None:\n'
    return replace_once(src, a + b, '        current_subroutine_executed: List[List["BasicBlock"]],\n' + a + "    ) -> None:\n")


def mut_helper_rebound(src):
    """(s7) leaf_block_global is a local function of utils.py"""
    src = replace_once(src, "from tealer.utils.analyses import next_blocks_global, leaf_block_global\n", "from tealer.utils.analyses import next_blocks_global\n")
    return replace_once(src, "def validated_in_block(\n", 'def leaf_block_global(block: "BasicBlock") -> bool:\n    return len(block.next) == 0\n\n\ndef validated_in_block(\n')


def mut_while(src):
    """(s8) a statement kind outside the whitelist"""
    return replace_once(src, "        # check for loops\n", "        while False:\n            pass\n        # check for loops\n")


def mut_sub_return_point(src):
    """(s9, teal/basic_blocks.py) sub_return_point returns the last successor"""
    return replace_once(src, "        return self.next[0] if self.next else None\n", "        return self.next[-1] if self.next else None\n")


def mut_next_helper(src):
    """(s10, utils/analyses.py) next_blocks_global of a callsub block also returns the return point"""
    return replace_once(src, "        return [block.called_subroutine.entry]\n", "        return [block.called_subroutine.entry] + block.next\n")


def mut_helper_conditionally_rebound(src):
    """(s11) next_blocks_global re-bound under an `if` at module level"""
    return replace_once(src, 'logger_detectors = logging.getLogger("Detectors")\n', 'logger_detectors = logging.getLogger("Detectors")\nif logger_detectors is not None:\n    next_blocks_global = lambda function, block: block.next\n')


# ---- twin audit (same-typed names written for each other, swapped argument order / tuple components)
def mut_retsub_callsub(src):
    """(t1) the return branch tests bb.is_callsub_block (twin attributes)"""
    return replace_once(src, RETSUB_IF, "        if bb.is_callsub_block:\n")


def mut_report_executed(src):
    """(t2) the reported path is the list of executed blocks of the current routine (a list of the same type)"""
    return replace_once(src, "                paths_without_check.append(current_path)\n", "                paths_without_check.append(current_subroutine_executed[-1])\n")


def mut_record_path(src):
    """(t3) the executed list of the current routine becomes the whole path (a list of the same type)"""
    return replace_once(src, "            current_subroutine_executed[-1] + [bb]\n", "            current_path\n")


def mut_successors_prev(src):
    """(t4) the DFS follows prev_blocks_global (forward / backward twin)"""
    src = replace_once(src, "from tealer.utils.analyses import next_blocks_global, leaf_block_global\n", "from tealer.utils.analyses import next_blocks_global, prev_blocks_global, leaf_block_global\n")
    return replace_once(src, "            for next_bb in next_blocks_global(function, bb):\n", "            for next_bb in prev_blocks_global(function, bb):\n")


def mut_validated_abs_txn(src):
    """(t5) validated_in_block: with an absolute index the gtxn test asks the txn context again (twin contexts)"""
    return replace_once(
        src,
        "        if checks_field(function.transaction_context(block).gtxn_context(absolute_index)):\n",
        "        if checks_field(function.transaction_context(block)):\n",
    )


def mut_frame_pair_swapped(src):
    """(a1) (_, callsub_block) = current_call_stack[-1]"""
    return replace_once(src, "            (callsub_block, _) = current_call_stack[-1]\n", "            (_, callsub_block) = current_call_stack[-1]\n")


def mut_path_prepend(src):
    """(a2) current_path = [bb] + current_path"""
    return replace_once(src, APPEND_PATH, "        current_path = [bb] + current_path\n\n")


def mut_frame_pushed_swapped(src):
    """(a3) the pushed frame is (called_subroutine, bb)"""
    return replace_once(src, "            current_call_stack = current_call_stack + [(bb, called_subroutine)]\n", "            current_call_stack = current_call_stack + [(called_subroutine, bb)]\n")


def mut_stack_prepend(src):
    """(a4) the new frame is pushed at the bottom of the call stack"""
    return replace_once(src, "            current_call_stack = current_call_stack + [(bb, called_subroutine)]\n", "            current_call_stack = [(bb, called_subroutine)] + current_call_stack\n")


def mut_frame_index(src):
    """(a5) the recursion check reads frame[0]"""
    return replace_once(src, "[frame[1] for frame in current_call_stack]", "[frame[0] for frame in current_call_stack]")


MUTATIONS = [
    ("(i) record-as-executed after the frame push", UTILS, mut_record_after_push),
    ("(ii) loop cut tests `bb in current_path`", UTILS, mut_loop_cut_path),
    ("(iii) retsub: executed lists not popped", UTILS, mut_retsub_no_pop_executed),
    ("(iv) leaf test before validated test", UTILS, mut_leaf_before_validated),
    ("(v) successors in reversed order", UTILS, mut_reversed_successors),
    ("(x1) recursion check dropped", UTILS, mut_no_recursion_check),
    ("(x2) retsub: call stack not popped", UTILS, mut_retsub_no_pop_stack),
    ("(x3) report condition ignored", UTILS, mut_report_ignored),
    ("(x5) no return after the leaf handling", UTILS, mut_leaf_falls_through),
    ("(x6) callsub: no new executed list", UTILS, mut_push_no_executed),
    ("(x7) initial call stack empty", UTILS, mut_push_main_frame),
    ("(x8) validated_in_block: failing index -> True", UTILS, mut_validated_loop_true),
    ("(x9) validated_in_block: abs. index falls through", UTILS, mut_validated_abs_falls),
    ("(x10) return point read from the retsub block", UTILS, mut_validated_after_call),
    ("(s1) state list re-bound, not mutated", UTILS, mut_state_rebound),
    ("(s2) recursive call with a fresh state list", UTILS, mut_state_copy),
    ("(s3) current_path mutated in place", UTILS, mut_param_mutated),
    ("(s4) leaf_block_global changed (fingerprint)", AN, mut_leaf_helper),
    ("(s5) BasicBlock.__eq__ defined", BB, mut_block_eq),
    ("(s6) search_paths signature changed", UTILS, mut_signature),
    ("(s7) leaf_block_global re-bound in utils.py", UTILS, mut_helper_rebound),
    ("(s8) while statement", UTILS, mut_while),
    ("(s9) sub_return_point changed (fingerprint)", BB, mut_sub_return_point),
    ("(s10) next_blocks_global changed (fingerprint)", AN, mut_next_helper),
    ("(s11) next_blocks_global re-bound under an if", UTILS, mut_helper_conditionally_rebound),
    ("(e1) EQUIVALENT: path extended before the cuts", UTILS, mut_path_first),
    ("(t1) TWIN return branch tests is_callsub_block", UTILS, mut_retsub_callsub),
    ("(t2) TWIN reported path = executed list", UTILS, mut_report_executed),
    ("(t3) TWIN executed list = whole path", UTILS, mut_record_path),
    ("(t4) TWIN DFS follows prev_blocks_global", UTILS, mut_successors_prev),
    ("(t5) TWIN validated: txn context for gtxn context", UTILS, mut_validated_abs_txn),
    ("(a1) PAIR (_, callsub_block) = frame", UTILS, mut_frame_pair_swapped),
    ("(a2) ARGS current_path = [bb] + current_path", UTILS, mut_path_prepend),
    ("(a3) PAIR pushed frame (subroutine, bb)", UTILS, mut_frame_pushed_swapped),
    ("(a4) ARGS frame pushed at the bottom", UTILS, mut_stack_prepend),
    ("(a5) PAIR recursion check reads frame[0]", UTILS, mut_frame_index),
]
EQUIVALENT = {"(e1) EQUIVALENT: path extended before the cuts"}  # semantically neutral: Gallina differs, lemmas must hold
REQUIRED = 5  # the first five rows are the mutations required by the task


# ----------------------------------------------------------------------------- one run
def enclosing(vfile, line):
    name = "?"
    with open(vfile, encoding="utf-8") as f:
        for i, l in enumerate(f, 1):
            m = re.match(r"\s*(Lemma|Theorem|Corollary|Definition)\s+(\w+)", l)
            if m and i <= line:
                name = m.group(2)
            if i > line:
                break
    return name


def run_case(work, scratch, rel=None, mutate=None):
    """-> dict(translator=..., text=..., gen_ok=..., lemmas_ok=..., where=..., log=...)"""
    gen = os.path.join(work, "Gen")
    lem = os.path.join(work, "Lemmas")
    os.makedirs(gen)
    os.makedirs(lem)
    path, orig = None, None
    if mutate:
        path = os.path.join(scratch, rel)
        with open(path, encoding="utf-8") as fh:
            orig = fh.read()
        new = mutate(orig)
        if new == orig:
            raise RuntimeError("mutation did not change the source")
        ast.parse(new)  # the mutant is valid Python
        with open(path, "w", encoding="utf-8") as fh:
            fh.write(new)
    try:
        rc, out = sh(f"{PY} {HERE}/translate_search.py {gen}", env={"VERIF_REPO": scratch})
    finally:
        if path:
            with open(path, "w", encoding="utf-8") as fh:
                fh.write(orig)
    res = {"translator": "ok" if rc == 0 else "STOPPED", "log": out.strip().replace(scratch + "/", ""), "text": None, "gen_ok": None, "lemmas_ok": None, "where": None}
    if rc != 0:
        if rc != 2 or "translator:" not in out:
            res["translator"] = "CRASHED"
        return res
    with open(os.path.join(gen, "SearchGen.v"), encoding="utf-8") as fh:
        res["text"] = fh.read()
    # the other generated files are taken (compiled) from the built tree
    for f in ("Tables.vo", "Leaves.vo", "KeysGen.vo", "SingleGen.vo", "AssertedGen.vo"):
        os.symlink(os.path.join(COQ, "Gen", f), os.path.join(gen, f))
    lemv = os.path.join(lem, "SearchGenLemmas.v")
    shutil.copy(os.path.join(COQ, "Lemmas", "SearchGenLemmas.v"), lemv)
    q = f"-Q {COQ}/Model Tealer -Q {gen} Tealer -Q {COQ}/Spec Tealer -Q {COQ}/Lemmas Tealer"
    rc, out = sh(f"timeout 300 coqc {q} {gen}/SearchGen.v 2>&1")
    res["gen_ok"] = rc == 0
    res["log"] += "\n" + out[-1500:]
    if rc == 0:
        rc, out = sh(f"timeout 900 coqc {q} {lemv} 2>&1")
        res["lemmas_ok"] = rc == 0
        res["log"] += "\n" + out[-1500:]
        if rc != 0:
            m = re.search(r"line (\d+), characters", out)
            res["where"] = f"{enclosing(lemv, int(m.group(1)))} (line {m.group(1)})" if m else "?"
    return res


def main():
    verbose = "-v" in sys.argv
    for f in ("Model/Detect.vo", "Gen/KeysGen.vo", "Lemmas/SearchLemmas.vo", "Lemmas/TotalSearch.vo", "Spec/Paths.vo"):
        if not os.path.exists(os.path.join(COQ, f)):
            print(f"precondition: {COQ}/{f} missing -- build coq/ first (make)")
            sys.exit(3)
    top = tempfile.mkdtemp(prefix="tsearch_")
    scratch = os.path.join(top, "repo")
    shutil.copytree(os.path.join(REPO, "tealer"), os.path.join(scratch, "tealer"), ignore=shutil.ignore_patterns("__pycache__"))
    rows = []
    ok = True
    try:
        base = run_case(os.path.join(top, "base"), scratch)
        same = None
        cur = os.path.join(COQ, "Gen", "SearchGen.v")
        if base["text"] is not None and os.path.exists(cur):
            with open(cur, encoding="utf-8") as fh:
                same = fh.read() == base["text"]
        good = base["translator"] == "ok" and base["gen_ok"] and base["lemmas_ok"] and same is True
        ok &= bool(good)
        rows.append(("(a) clean source", base["translator"], "= coq/Gen/SearchGen.v" if same else ("DIFFERS from coq/Gen" if same is False else "-"), base["gen_ok"], base["lemmas_ok"], "PASS" if good else "FAIL"))
        if verbose or not good:
            print(base["log"])
        for i, (name, rel, fn) in enumerate(MUTATIONS):
            r = run_case(os.path.join(top, f"m{i}"), scratch, rel, fn)
            if r["translator"] == "STOPPED":
                verdict, good, diff = "caught: translator stops", True, "-"
            elif r["translator"] == "CRASHED":
                verdict, good, diff = "FAIL: translator crashed", False, "-"
            else:
                differs = r["text"] != base["text"]
                diff = "differs" if differs else "IDENTICAL"
                if name in EQUIVALENT:
                    good = differs and bool(r["gen_ok"]) and r["lemmas_ok"] is True
                    verdict = "equivalent mutant: lemmas still hold (expected)" if good else "FAIL: equivalent mutant rejected"
                elif differs and r["gen_ok"] and r["lemmas_ok"] is False:
                    verdict, good = f"caught: lemmas break in {r['where']}", True
                elif differs and not r["gen_ok"]:
                    verdict, good = "caught: SearchGen.v ill-typed", True
                else:
                    verdict, good = "FAIL: NOT DETECTED", False
            ok &= good
            rows.append((name, r["translator"], diff, r["gen_ok"], r["lemmas_ok"], verdict))
            if verbose or not good:
                print(f"--- {name}\n{r['log']}\n")
            elif r["translator"] == "STOPPED":
                print(f"--- {name}: {r['log'].splitlines()[0][:260]}")
    finally:
        shutil.rmtree(top, ignore_errors=True)
    hdr = ("case", "translator", "generated Gallina", "SearchGen.v compiles", "SearchGenLemmas.v compiles", "verdict")
    fmt = lambda x: "-" if x is None else ("yes" if x is True else ("NO" if x is False else str(x)))  # noqa: E731
    table = [hdr] + [tuple(fmt(c) for c in r) for r in rows]
    widths = [max(len(r[i]) for r in table) for i in range(len(hdr))]
    print()
    for k, r in enumerate(table):
        print(" | ".join(c.ljust(w) for c, w in zip(r, widths)))
        if k == 0:
            print("-+-".join("-" * w for w in widths))
    print("\nRESULT:", "all mutations caught, clean source accepted" if ok else "FAILURE")
    sys.exit(0 if ok else 1)


if __name__ == "__main__":
    main()
