#!/venv/bin/python
"""Self-test of tools/translate_rows.py (the regenerated row texts of the DOT node labels, Gen/RowsGen.v).

(a) runs the translator on the clean source ($VERIF_REPO, default /repo) and checks that the output is the current
    coq/Gen/RowsGen.v, compiles, and that Lemmas/RowsGenLemmas.v compiles against it;
(b) applies small mutations to a scratch copy of utils/output.py / parse_teal.py / parse_instruction.py / instructions.py
    and shows that, for each, either the translator stops (TranslateError) or the generated Gallina differs AND
    Lemmas/RowsGenLemmas.v no longer compiles against it.

Precondition: coq/ has been built (`make`).  Every coqc runs under `timeout`.  Exit status 0 iff every row has the
expected verdict.

usage: /venv/bin/python tools/test_translate_rows.py [-v]
"""
import ast
import os
import re
import shutil
import subprocess
import sys
import tempfile

HERE = os.path.dirname(os.path.abspath(__file__))
ROOT = os.path.dirname(HERE)
COQ = os.path.join(ROOT, "coq")
PY = "/venv/bin/python"
REPO = os.environ.get("VERIF_REPO", "/repo")

OUT = "tealer/utils/output.py"
PT = "tealer/teal/parse_teal.py"
PI = "tealer/teal/instructions/parse_instruction.py"
INS = "tealer/teal/instructions/instructions.py"


def sh(cmd, cwd=None, env=None):
    e = dict(os.environ)
    if env:
        e.update(env)
    p = subprocess.run(cmd, shell=True, cwd=cwd, stdout=subprocess.PIPE, stderr=subprocess.STDOUT, env=e, check=False)
    return p.returncode, p.stdout.decode(errors="replace")


# ----------------------------------------------------------------------------- mutations (text -> text)
def replace_once(src, old, new):
    if src.count(old) != 1:
        raise RuntimeError(f"mutation anchor found {src.count(old)} times: " + old[:60])
    return src.replace(old, new, 1)


def m_line_off_by_one(s):
    return replace_once(s, 'f"{ins.line}. {ins_str}"', 'f"{ins.line + 1}. {ins_str}"')


def m_rows_reversed(s):
    return replace_once(s, "    for ins in bb.instructions:\n        table_rows.append(_instruction_to_dot(ins, config))", "    for ins in bb.instructions:\n        table_rows.insert(1, _instruction_to_dot(ins, config))")


def m_rows_reversed_iter(s):
    return replace_once(s, "    for ins in bb.instructions:\n        table_rows.append(", "    for ins in bb.instructions[::-1]:\n        table_rows.append(")


def m_markup_wrong_class(s):
    return replace_once(s, "    if isinstance(ins, (Callsub, Retsub)):\n        ins_str", "    if isinstance(ins, (Callsub, BZ)):\n        ins_str")


def m_markup_one_class(s):
    return replace_once(s, "    if isinstance(ins, (Callsub, Retsub)):\n        ins_str", "    if isinstance(ins, Callsub):\n        ins_str")


def m_markup_always(s):
    return replace_once(s, "    if isinstance(ins, (Callsub, Retsub)):\n        ins_str = f", "    if ins_str:\n        ins_str = f")


def m_missing_escape(s):
    return replace_once(s, "    ins_str = html.escape(ins.source_code.strip(), quote=True)", "    ins_str = ins.source_code.strip()")


def m_escape_no_quote(s):
    return replace_once(s, "    ins_str = html.escape(ins.source_code.strip(), quote=True)", "    ins_str = html.escape(ins.source_code.strip(), quote=False)")


def m_no_strip(s):
    return replace_once(s, "    ins_str = html.escape(ins.source_code.strip(), quote=True)", "    ins_str = html.escape(ins.source_code, quote=True)")


def m_text_is_comment(s):
    return replace_once(s, 'f"{ins.line}. {ins_str}"', 'f"{ins.line}. {source_code_comments}"')


def m_text_is_str(s):
    return replace_once(s, "    ins_str = html.escape(ins.source_code.strip(), quote=True)", "    ins_str = html.escape(str(ins), quote=True)")


def m_comments_swapped(s):
    return replace_once(s, '        f"{tealer_comments}"\n        f"{source_code_comments}"\n', '        f"{source_code_comments}"\n        f"{tealer_comments}"\n')


def m_tealer_not_bold(s):
    return replace_once(s, '        tealer_comments = f"<B>{tealer_comments}</B><BR/>"', '        tealer_comments = f"{tealer_comments}<BR/>"')


def m_comment_unescaped(s):
    return replace_once(s, "            html.escape(comment.strip(), quote=True) for comment in ins.comments_before_ins", "            comment.strip() for comment in ins.comments_before_ins")


def m_additional_dropped(s):
    return replace_once(s, "            for comment in ins.tealer_comments + config.ins_additional_comments(ins)\n", "            for comment in ins.tealer_comments\n")


def m_header_dropped(s):
    return replace_once(s, "    table_rows.append(comments_cell_str)\n", "")


def m_header_last(s):
    s = replace_once(s, "    table_rows.append(comments_cell_str)\n", "")
    return replace_once(s, "    graph_edges: List[str] = []\n    if config.color_edges", "    table_rows.append(comments_cell_str)\n    graph_edges: List[str] = []\n    if config.color_edges")


def m_port_exit(s):
    return replace_once(s, 'PORT="{bb.entry_instr.line}" BORDER', 'PORT="{bb.exit_instr.line}" BORDER')


def m_skip_first(s):
    return replace_once(s, "    for ins in bb.instructions:\n        table_rows.append(", "    for ins in bb.instructions[1:]:\n        table_rows.append(")


def m_row_twice(s):
    return replace_once(s, "        table_rows.append(_instruction_to_dot(ins, config))\n", "        table_rows.append(_instruction_to_dot(ins, config))\n        table_rows.append(_instruction_to_dot(ins, config))\n")


def m_row_template(s):
    return replace_once(s, "f'<TD ALIGN=\"LEFT\" BALIGN=\"LEFT\" COLOR=\"{color}\">'", "f'<TD ALIGN=\"LEFT\" COLOR=\"{color}\">'")


def m_background_default(s):
    return replace_once(s, 'config.custom_background_color.get(ins, "BLACK")', 'config.custom_background_color.get(ins, "WHITE")')


def m_border_from_entry(s):
    return replace_once(s, "COLOR=\"{config.bb_border_color(bb)}\">", "COLOR=\"{config.bb_border_color(bb.idx)}\">")


def m_file_prefix_sep(s):
    return replace_once(s, '        filename_prefix = f"{filename_prefix}_"', '        filename_prefix = f"{filename_prefix}-"')


def m_file_name_swapped(s):
    return replace_once(s, '        filename = f"{filename_prefix}subroutine_{sub_name}_cfg.dot"', '        filename = f"{filename_prefix}{sub_name}_subroutine_cfg.dot"')


def m_file_main_after(s):
    return replace_once(s, "            f.write(subroutine_to_dot(subroutine, config))", "            f.write(subroutine_to_dot(teal.main, config))")


def m_source_code_rebound(s):
    return replace_once(s, "    source_code_line = line\n", "    source_code_line = line.strip().split('//')[0]\n")


def m_line_zero_based(s):
    return replace_once(s, "        ins.line = idx\n", "        ins.line = idx - 1\n")


def m_block_comment(s):
    return replace_once(s, 'bb.tealer_comments.insert(0, f"block_id = {bb.idx}; cost = {bb.cost}")\n\n    for subroutine in', 'bb.tealer_comments.append(f"block_id = {bb.idx}; cost = {bb.cost}")\n\n    for subroutine in')


def m_source_code_property(s):
    return replace_once(s, "        return self._source_code_line\n", "        return self._source_code_line.split('//')[0]\n")


MUTATIONS = [
    ("(1) line number off by one", OUT, m_line_off_by_one),
    ("(2) rows inserted in reverse order", OUT, m_rows_reversed),
    ("(3) instructions iterated in reverse", OUT, m_rows_reversed_iter),
    ("(4) markup on the wrong class (Callsub, BZ)", OUT, m_markup_wrong_class),
    ("(5) markup on Callsub only", OUT, m_markup_one_class),
    ("(6) markup on every instruction", OUT, m_markup_always),
    ("(7) instruction text not escaped", OUT, m_missing_escape),
    ("(8) escape without quote=True", OUT, m_escape_no_quote),
    ("(9) instruction text not stripped", OUT, m_no_strip),
    ("(10) instruction text replaced by the source comments", OUT, m_text_is_comment),
    ("(11) instruction text replaced by str(ins)", OUT, m_text_is_str),
    ("(12) tealer / source comments swapped in the cell", OUT, m_comments_swapped),
    ("(13) tealer comments not bold", OUT, m_tealer_not_bold),
    ("(14) source comments not escaped", OUT, m_comment_unescaped),
    ("(15) additional comments of the config dropped", OUT, m_additional_dropped),
    ("(16) header cell dropped", OUT, m_header_dropped),
    ("(17) header cell appended after the rows", OUT, m_header_last),
    ("(18) PORT = line of the exit instruction", OUT, m_port_exit),
    ("(19) first instruction skipped", OUT, m_skip_first),
    ("(20) every row twice", OUT, m_row_twice),
    ("(21) row template edited", OUT, m_row_template),
    ("(22) default background colour", OUT, m_background_default),
    ("(23) border colour asked with bb.idx", OUT, m_border_from_entry),
    ("(24) file prefix separator", OUT, m_file_prefix_sep),
    ("(25) sub-cfg file name layout", OUT, m_file_name_swapped),
    ("(26) every sub-cfg file holds the main routine", OUT, m_file_main_after),
    ("(27) parse_line: source_code_line cut at the comment", PI, m_source_code_rebound),
    ("(28) first_pass: zero-based ins.line", PT, m_line_zero_based),
    ("(29) parse_teal: block_id comment appended instead of inserted", PT, m_block_comment),
    ("(30) Instruction.source_code property edited", INS, m_source_code_property),
]
REQUIRED = 15


# ----------------------------------------------------------------------------- one run
def enclosing(vfile, line):
    name = "?"
    with open(vfile, encoding="utf-8") as f:
        for i, l in enumerate(f, 1):
            m = re.match(r"\s*(Lemma|Theorem|Corollary|Definition|Example)\s+(\w+)", l)
            if m and i <= line:
                name = m.group(2)
            if i > line:
                break
    return name


def run_case(work, scratch, rel=None, mutate=None):
    """-> dict(translator=..., text=..., gen_ok=..., lemmas_ok=..., where=..., log=...)"""
    gen = os.path.join(work, "Gen")
    lem = os.path.join(work, "Lemmas")
    os.makedirs(gen)
    os.makedirs(lem)
    path, orig = None, None
    if mutate:
        path = os.path.join(scratch, rel)
        with open(path, encoding="utf-8") as fh:
            orig = fh.read()
        new = mutate(orig)
        if new == orig:
            raise RuntimeError("mutation did not change the source")
        ast.parse(new)  # the mutant is valid Python
        with open(path, "w", encoding="utf-8") as fh:
            fh.write(new)
    try:
        rc, out = sh(f"{PY} {HERE}/translate_rows.py {gen}", env={"VERIF_REPO": scratch})
    finally:
        if path:
            with open(path, "w", encoding="utf-8") as fh:
                fh.write(orig)
    res = {"translator": "ok" if rc == 0 else "STOPPED", "log": out.strip().replace(scratch + "/", ""), "text": None, "gen_ok": None, "lemmas_ok": None, "where": None}
    if rc != 0:
        if rc != 2 or "translator:" not in out:
            res["translator"] = "CRASHED"
        return res
    with open(os.path.join(gen, "RowsGen.v"), encoding="utf-8") as fh:
        res["text"] = fh.read()
    # the other generated files are taken (compiled) from the built tree
    for f in os.listdir(os.path.join(COQ, "Gen")):
        if f.endswith(".vo") and f != "RowsGen.vo":
            os.symlink(os.path.join(COQ, "Gen", f), os.path.join(gen, f))
    lemv = os.path.join(lem, "RowsGenLemmas.v")
    shutil.copy(os.path.join(COQ, "Lemmas", "RowsGenLemmas.v"), lemv)
    q = f"-Q {COQ}/Model Tealer -Q {gen} Tealer -Q {COQ}/Spec Tealer -Q {COQ}/Lemmas Tealer"
    rc, out = sh(f"timeout 300 coqc {q} {gen}/RowsGen.v 2>&1")
    res["gen_ok"] = rc == 0
    res["log"] += "\n" + out[-1500:]
    if rc == 0:
        rc, out = sh(f"timeout 900 coqc {q} {lemv} 2>&1")
        res["lemmas_ok"] = rc == 0
        res["log"] += "\n" + out[-1500:]
        if rc != 0:
            m = re.search(r"line (\d+), characters", out)
            res["where"] = f"{enclosing(lemv, int(m.group(1)))} (line {m.group(1)})" if m else ("timeout" if rc == 124 else "?")
    return res


def main():
    verbose = "-v" in sys.argv
    for f in ("Model/Rows.vo", "Gen/OutputGen.vo", "Lemmas/OutputGenLemmas.vo", "Lemmas/LineGenLemmas.vo"):
        if not os.path.exists(os.path.join(COQ, f)):
            print(f"precondition: {COQ}/{f} missing -- build coq/ first (make)")
            sys.exit(3)
    top = tempfile.mkdtemp(prefix="trows_")
    scratch = os.path.join(top, "repo")
    shutil.copytree(os.path.join(REPO, "tealer"), os.path.join(scratch, "tealer"), ignore=shutil.ignore_patterns("__pycache__"))
    rows = []
    ok = True
    try:
        base = run_case(os.path.join(top, "base"), scratch)
        same = None
        cur = os.path.join(COQ, "Gen", "RowsGen.v")
        if base["text"] is not None and os.path.exists(cur):
            with open(cur, encoding="utf-8") as fh:
                same = fh.read() == base["text"]
        good = base["translator"] == "ok" and base["gen_ok"] and base["lemmas_ok"] and same is True
        ok &= bool(good)
        rows.append(("(a) clean source", base["translator"], "= coq/Gen/RowsGen.v" if same else ("DIFFERS from coq/Gen" if same is False else "-"), base["gen_ok"], base["lemmas_ok"], "PASS" if good else "FAIL"))
        if verbose or not good:
            print(base["log"])
        for i, (name, rel, fn) in enumerate(MUTATIONS):
            r = run_case(os.path.join(top, f"m{i}"), scratch, rel, fn)
            if r["translator"] == "STOPPED":
                verdict, good, diff = "caught: translator stops", True, "-"
            elif r["translator"] == "CRASHED":
                verdict, good, diff = "FAIL: translator crashed", False, "-"
            else:
                differs = r["text"] != base["text"]
                diff = "differs" if differs else "IDENTICAL"
                if differs and r["gen_ok"] and r["lemmas_ok"] is False:
                    verdict, good = f"caught: lemmas break in {r['where']}", True
                elif differs and not r["gen_ok"]:
                    verdict, good = "caught: RowsGen.v ill-typed", True
                else:
                    verdict, good = "FAIL: NOT DETECTED", False
            ok &= good
            rows.append((name, r["translator"], diff, r["gen_ok"], r["lemmas_ok"], verdict))
            if verbose or not good:
                print(f"--- {name}\n{r['log']}\n")
            elif r["translator"] == "STOPPED":
                print(f"--- {name}: {r['log'].splitlines()[0][:260]}")
    finally:
        shutil.rmtree(top, ignore_errors=True)
    hdr = ("case", "translator", "generated Gallina", "RowsGen.v compiles", "RowsGenLemmas.v compiles", "verdict")
    fmt = lambda x: "-" if x is None else ("yes" if x is True else ("NO" if x is False else str(x)))  # noqa: E731
    table = [hdr] + [tuple(fmt(c) for c in r) for r in rows]
    widths = [max(len(r[i]) for r in table) for i in range(len(hdr))]
    print()
    for k, r in enumerate(table):
        print(" | ".join(c.ljust(w) for c, w in zip(r, widths)))
        if k == 0:
            print("-+-".join("-" * w for w in widths))
    print("\nRESULT:", "all mutations caught, clean source accepted" if ok else "FAILURE")
    sys.exit(0 if ok else 1)


if __name__ == "__main__":
    main()
