"""Independent C19 oracle for the violation search: what the AVM specification (the trusted transcription
Spec/AvmTables.v, printed by Spec/AvmDump.v -- nothing of it comes from the analyzer's source or from coq/Gen) says about
a TEAL source text, compared with what the IMPLEMENTATION reported (`cfg` request of tools/implrun.py):

  * version flags   : an instruction line is flagged "ins" iff its opcode's introduction version exceeds the declared
                      version; otherwise it is flagged "field" iff it carries a transaction / global / asset_holding /
                      asset_params / app_params / acct_params field whose introduction version exceeds it; nothing else
                      is flagged; the declared version is the `#pragma version` of the first instruction, 1 when absent.
  * mode            : mixture flagged iff an Application-only and a Signature-only opcode both occur (anywhere in the
                      source, reachable or not); unmixed programs are Stateful / Stateless iff they use an opcode of that
                      mode, Any otherwise; contract type LogicSig iff Stateless (Any is read by the tool as an
                      application: not checked here).
  * block costs     : the displayed cost of a block is the sum of the AVM costs of its instructions at the declared
                      version (labels and #pragma cost nothing); only blocks all of whose opcodes exist in the declared
                      version are checked (the cost of a non-existent opcode is undefined).

Used only to FIND a failing input (replay); it decides nothing.  Lines whose first token is not in the AVM table
(labels, unknown opcodes) are skipped for flags and make their block's cost unchecked.  The known finding D22
(ed25519verify, versions 1-4) is left to its own replay: programs containing ed25519verify are not mode-checked.  The
pseudo-op `method` is the one entry of the transcription marked unsure (TableLemmas.version_mismatch_names = [Method]: the
tool says version 6, the transcription 1): flags on `method` lines are not compared."""
import os
import re
import subprocess

ROOT = os.path.dirname(os.path.dirname(os.path.abspath(__file__)))
COQ = os.path.join(ROOT, "coq")
_CACHE = {}
STATS = {}

FIELD_TABLE = {
    "txn": "txn", "gtxn": "txn", "gtxns": "txn", "itxn": "txn", "itxn_field": "txn", "gitxn": "txn",
    "txna": "txn", "gtxna": "txn", "gtxnsa": "txn", "itxna": "txn", "gitxna": "txn",
    "txnas": "txn", "gtxnas": "txn", "gtxnsas": "txn", "itxnas": "txn", "gitxnas": "txn",
    "global": "global", "asset_holding_get": "asset_holding", "asset_params_get": "asset_params",
    "app_params_get": "app_params", "acct_params_get": "acct_params",
}
# position of the field token among the immediates
FIELD_POS = {"gtxn": 1, "gtxna": 1, "gitxn": 1, "gitxna": 1, "gtxnas": 1, "gitxnas": 1}


def tables():
    if "t" in _CACHE:
        return _CACHE["t"]
    p = subprocess.run("timeout 120 coqc -Q Model Tealer -Q Gen Tealer -Q Spec Tealer Spec/AvmDump.v", shell=True, cwd=COQ,
                       stdout=subprocess.PIPE, stderr=subprocess.STDOUT, check=False)
    out = p.stdout.decode(errors="replace")
    ops, curves, fields = {}, {}, {}
    for line in out.split("\n"):
        line = line.strip()
        if line.startswith("= \""):
            line = line[3:]
        parts = line.rstrip('"').split("|")
        if parts[0] == "op" and len(parts) == 7:
            ops.setdefault(parts[1], (int(parts[2]), parts[3], [int(x) for x in parts[4].split(",")]))
            _CACHE.setdefault("arity", {}).setdefault(parts[1], (parts[5], parts[6]))
        elif parts[0] == "curve" and len(parts) == 5:
            curves[(parts[1], parts[2])] = (int(parts[3]), int(parts[4]))
        elif parts[0] == "field" and len(parts) == 4:
            fields.setdefault(parts[1], {})[parts[2]] = int(parts[3])
    if len(ops) < 150 or "txn" not in fields:
        raise RuntimeError("avmspec: could not read the AVM tables from Spec/AvmDump.v: " + out[-300:])
    # array fields may be spelled through the plain opcodes (txn ApplicationArgs 0): one name space
    fields["txn"].update(fields.get("txna", {}))
    _CACHE["t"] = (ops, curves, fields)
    return _CACHE["t"]


def strip_comment(line):
    """drop a trailing // comment; lines carrying byte literals are returned with the literal untouched up to the comment
    (a `//` inside a quoted string or base64 payload would need the real tokenizer: such lines are never field- or
    version-relevant beyond their first token, which is all that is read from them)."""
    i = line.find("//")
    return line if i < 0 else line[:i]


def source_instructions(text):
    """[(line number, mnemonic, immediates)] for every instruction line; labels, blank and comment lines skipped"""
    out = []
    for n, raw in enumerate(text.split("\n"), start=1):
        toks = strip_comment(raw).split()
        if not toks:
            continue
        if toks[0].endswith(":") and len(toks) == 1:
            continue
        if toks[0] == "#pragma":
            out.append((n, "#pragma", toks[1:]))
            continue
        out.append((n, toks[0], toks[1:]))
    return out


def declared_version(ins):
    if ins and ins[0][1] == "#pragma" and len(ins[0][2]) == 2 and ins[0][2][0] == "version" and ins[0][2][1].isdigit():
        return int(ins[0][2][1])
    return 1


def field_of(mn, imms, fields):
    tbl = FIELD_TABLE.get(mn)
    if tbl is None:
        return None
    pos = FIELD_POS.get(mn, 0)
    if len(imms) <= pos:
        return None
    return fields[tbl].get(imms[pos])


def expected(text):
    ops, _curves, fields = tables()
    ins = source_instructions(text)
    v = declared_version(ins)
    flags, app_only, sig_only, unknown, has_ed, skip = [], False, False, False, False, set()
    for n, mn, imms in ins:
        if mn == "#pragma":
            continue
        if mn == "method":
            skip.add(n)
            continue
        if mn == "ed25519verify":
            has_ed = True
        if mn not in ops:
            unknown = True
            continue
        iv, modes, _ = ops[mn]
        if iv > v:
            flags.append([n, "ins"])
        else:
            fv = field_of(mn, imms, fields)
            if fv is not None and fv > v:
                flags.append([n, "field"])
        m = modes[min(max(v, 1), 8) - 1]
        app_only = app_only or m == "P"
        sig_only = sig_only or m == "S"
    return {"version": v, "flags": flags, "app_only": app_only, "sig_only": sig_only, "unknown": unknown, "has_ed": has_ed, "skip": skip}


def ins_cost(printed, v):
    """AVM cost of an instruction given its printed form, None when it cannot be decided here"""
    ops, curves, _ = tables()
    toks = printed.split()
    if not toks:
        return None
    mn = toks[0]
    if mn.endswith(":") or mn == "#pragma":
        return 0
    if mn not in ops:
        return None
    iv, _modes, costs = ops[mn]
    if iv > v or not 1 <= v <= 8:
        return None
    if (mn, toks[1] if len(toks) > 1 else "") in curves:
        cv, ck = curves[(mn, toks[1])]
        return ck if cv <= v else None
    if mn.startswith("ecdsa_"):
        return None
    return costs[v - 1]


def check(text, impl):
    """list of violation strings: where the implementation's report on `text` contradicts the AVM tables"""
    if not isinstance(impl, dict) or "blocks" not in impl or "flags" not in impl:
        return []
    e = expected(text)
    out = []
    v = e["version"]
    if impl.get("version") != v:
        out.append(f"declared version is {v} (#pragma of the first instruction, 1 when absent) but the tool reports {impl.get('version')}")
        return out
    if not e["unknown"]:
        got = sorted(tuple(x) for x in impl["flags"] if x[0] not in e["skip"])
        want = sorted(tuple(x) for x in e["flags"])
        if got != want:
            miss = [x for x in want if x not in got]
            extra = [x for x in got if x not in want]
            out.append(f"version {v}: lines flagged as unsupported {[list(x) for x in got]}, the AVM tables demand {[list(x) for x in want]}"
                       + (f" (not flagged: {[list(x) for x in miss]})" if miss else "") + (f" (wrongly flagged: {[list(x) for x in extra]})" if extra else ""))
        if not e["has_ed"]:
            mixed = e["app_only"] and e["sig_only"]
            if bool(impl.get("mixed")) != mixed:
                out.append(f"mixture of Application-only and Signature-only opcodes: present={mixed}, flagged={bool(impl.get('mixed'))}")
            elif not mixed:
                want_mode = "Stateful" if e["app_only"] else "Stateless" if e["sig_only"] else "Any"
                if impl.get("mode") != want_mode:
                    out.append(f"program uses {'an Application-only' if e['app_only'] else 'a Signature-only' if e['sig_only'] else 'no mode-specific'} opcode, so its mode is {want_mode}; the tool says {impl.get('mode')}")
                elif want_mode != "Any":
                    is_sig = "LogicSig" in str(impl.get("contract_type"))
                    if is_sig != (want_mode == "Stateless"):
                        out.append(f"mode {want_mode} but contract type {impl.get('contract_type')}")
    for b in impl["blocks"]:
        cs = [ins_cost(s, v) for s in b.get("ins", [])]
        if any(c is None for c in cs):
            continue
        shown = impl.get("costs", {}).get(str(b["idx"]))
        if shown is not None and int(shown) != sum(cs):
            out.append(f"block {b['idx']} ({'; '.join(b['ins'])[:120]}): displayed cost {shown}, sum of AVM opcode costs at version {v} is {sum(cs)}")
    return out


# ----------------------------------------------------------------------------- C11: operands by the AVM arities
def _arity(code, imms):
    """value of an arity code of Spec/AvmTables.v for the immediates of a line (None = not defined)"""
    try:
        if code[0] == "K":
            return int(code[1:])
        if code[0] == "N":
            return int(imms[0], 0) + int(code[1:]) if imms else None
        if code[0] == "L":
            return len(imms) + int(code[1:])
        if code[0] == "O":
            a, b = code[1:].split(":")
            return int(b) if imms else int(a)
    except (ValueError, IndexError):
        return None
    return None


def check_operands(text, impl_ast):
    """Independent reading of C11 on straight-line blocks: simulate the symbolic stack with the AVM's own arities
    (Spec/AvmTables.v, window convention for the deep-stack opcodes) -- every instruction pops its k topmost cells, which
    are either 'pushed by instruction at line l as its j-th output' or unknown (from before the block), and pushes m cells --
    and compare, operand by operand, with the producers the implementation reconstructed (`ast` request: for each
    instruction line the list of [producer line, output index, ...] or "U").  Blocks are taken from the implementation's
    answer (its keys are block ids; the instruction lines of a block are the keys inside).  A block is skipped from the
    first instruction on that is not in the AVM table or whose arity is undefined for its immediates; frame_bury is the
    known finding D9.  Returns a list of violation strings."""
    tables()
    ar = _CACHE["arity"]
    src = {n: (mn, imms) for n, mn, imms in source_instructions(text)}
    out = []
    for bid, rows in impl_ast.items():
        if not isinstance(rows, dict) or "err" in rows:
            continue
        stack = []
        for ln in sorted(int(k) for k in rows):
            if ln not in src:
                break
            mn, imms = src[ln]
            if mn == "#pragma":
                continue
            if mn not in ar or mn == "frame_bury":
                break
            pops, pushes = _arity(ar[mn][0], imms), _arity(ar[mn][1], imms)
            if pops is None or pushes is None:
                break
            known = stack[len(stack) - pops:] if pops <= len(stack) else stack[:]
            want = ["U"] * (pops - len(known)) + [[l, j] for l, j in known]
            got = [a if a == "U" else a[:2] for a in rows[str(ln)]]
            if got != want:
                shown = (mn + " " + " ".join(imms)).strip()
                out.append(f"block {bid}, line {ln} `{shown}`: the AVM passes operands {want} (producer line, output index; U = from before the block) but the tool reconstructs {got}")
                break
            del stack[len(stack) - len(known):]
            stack += [(ln, j) for j in range(pushes)]
            STATS["operand_rows_compared"] = STATS.get("operand_rows_compared", 0) + 1
    return out
