#!/venv/bin/python
"""Statement-by-statement translation of the ROW TEXTS of tealer's DOT exporters into Gallina (Gen/RowsGen.v).

Translated (read with `ast` only, never imported):
  utils/output.py : _instruction_to_dot                 -> instruction_to_dot_gen   (one table row per instruction)
                    _bb_to_dot, the LABEL part          -> bb_label_gen             (header cell, the rows, TABLE, node)
                    all_subroutines_to_dot              -> all_subroutines_files_gen (file names, in write order)
The hand-written counterpart is Model/Rows.v; Lemmas/RowsGenLemmas.v proves generated = hand-written.
(tools/translate_output.py reads the same functions for the STRUCTURE of the graph and treats the label as opaque.)

Reading.
  * Text BELOW the level of a table cell is a real Coq `string`: an f-string is the concatenation of its literal parts
    and its holes (a hole of type int is printed in decimal, no format spec / conversion allowed), `a + b`, `a += b`,
    `sep.join(l)`, `x.strip()` (str_strip of Gen/LineGen.v), `html.escape(x, quote=True)` (html_escape of Gen/OutputGen.v).
  * The three f-strings that build a cell / the table / the node must be EXACTLY the templates of CELL_TEMPLATES (holes
    numbered, hole types fixed); they are read as the constructors CRow / CHead / the record label of Model/Rows.v.
    `"".join(table_rows)` of a list of cells is the list of cells.
  * _bb_to_dot is cut: a top-level statement belongs to the EDGE part (translated by translate_output.py, skipped here)
    iff it is the nested def graph_edge_str or stores only to EDGE_NAMES and mentions no variable of the label part and
    does not call _instruction_to_dot; every other statement is translated.  The label part may mention an edge variable
    only in the last hole of the node template (`"".join(graph_edges)`), which is dropped.
  * all_subroutines_to_dot: `with open(dest / Path(NAME), "w", encoding="utf-8") as f: f.write(subroutine_to_dot(S, config))`
    (+ a print) is "file NAME holds the export of routine S": the function returns the list of (NAME, S) in write order.
  * Objects: an Instruction is its position in t_prog t, a BasicBlock its idx; attributes go through the fixed glue
    table of the prelude.  The Python text behind every glue entry is fingerprinted (FINGERPRINTS, parse_line's
    `source_code_line = line`, first_pass's `ins.line = idx`, the statements of parse_teal that write tealer_comments).
  * exception monad of Gen/KeysGen.v; sub-expressions are bound left to right; `if` without else = a join on the
    variables it re-assigns; `for` = fold over the list.
Fail-closed: any statement / expression / attribute / call / template outside the whitelist raises TranslateError.
"""
import ast
import os
import sys

from tcommon import TranslateError, fail, parse, strip_doc, T, coq_str
from translate_keys import same_text, check_no_subclasses
from translate_asserted import find_toplevel, find_class
from translate_graph import member, member_text
from translate_output import CONFIG_CLASS, class_text
from translate_cfg import ADD_COMMENTS_TEXT

OUT_REL = "utils/output.py"
BB_REL = "teal/basic_blocks.py"
INS_REL = "teal/instructions/instructions.py"
PI_REL = "teal/instructions/parse_instruction.py"
PT_REL = "teal/parse_teal.py"
TEAL_REL = "teal/teal.py"

# ----------------------------------------------------------------------------- types
TEXT, INT, BOOL, INS, BLK, CONFIG, CELL, SUB, TEAL, TABLE, LABEL, PATH, NONE = (
    "TEXT", "INT", "BOOL", "INS", "BLK", "CONFIG", "CELL", "SUB", "TEAL", "TABLE", "LABEL", "PATH", "NONE")


def tlist(x):
    return ("list", x)


COQTY = {TEXT: "string", INT: "nat", BOOL: "bool", INS: "nat", BLK: "nat", CONFIG: "dotrowconfig", CELL: "cell", SUB: "Cfg.subroutine"}


def coqty(ty):
    if isinstance(ty, tuple) and ty[0] == "list":
        return f"(list {coqty(ty[1])})"
    if isinstance(ty, tuple) and ty[0] == "prod":
        return f"({coqty(ty[1])} * {coqty(ty[2])})"
    return COQTY[ty]


# ----------------------------------------------------------------------------- the fixed tables
# cell-level templates: template -> (hole types, builder, result type)
CELL_TEMPLATES = {
    '<TR><TD ALIGN="LEFT" BALIGN="LEFT" COLOR="{0}">{1}{2}{3}. {4}</TD></TR>\n': (
        [TEXT, TEXT, TEXT, INT, TEXT], lambda a: f"(CRow {a[0]} {a[1]} {a[2]} {a[3]} {a[4]})", CELL),
    '<TR><TD COLOR="BLACK" ALIGN="LEFT" BALIGN="LEFT" PORT="{0}" BORDER="{1}"><B>{2}</B></TD></TR>\n': (
        [INT, INT, TEXT], lambda a: f"(CHead {a[0]} {a[1]} {a[2]})", CELL),
    '<<TABLE ALIGN="LEFT" COLOR="{0}">\n{1}</TABLE>> labelloc=top shape=plain\n': (
        [TEXT, tlist(CELL)], lambda a: f"({a[0]}, {a[1]})", TABLE),
    "{0}[label={1}] {2}": ([INT, TABLE, "EDGES"], lambda a: f"(mkLabel {a[0]} (fst {a[1]}) (snd {a[1]}))", LABEL),
}  # fmt: skip
EDGES_HOLE = "''.join(graph_edges)"
EDGE_NAMES = {"graph_edges", "default_branch", "jump_branch", "next_bb"}
CLASS_PATTERNS = {"Callsub": "ICallsub _", "Retsub": "IRetsub"}
INS_MODULE_IMPORT = "from tealer.teal.instructions.instructions import BZ, BNZ, Callsub, Retsub"

# (attribute, type of the object) -> (glue term taking the object, result type, pure)
ATTRS = {
    ("source_code", INS): ("attr_source_code", TEXT, False),
    ("tealer_comments", INS): ("attr_tealer_comments", tlist(TEXT), False),
    ("comments_before_ins", INS): ("attr_comments_before_ins", tlist(TEXT), False),
    ("line", INS): ("attr_line t", INT, False),
    ("tealer_comments", BLK): ("attr_bb_tealer_comments", tlist(TEXT), False),
    ("instructions", BLK): ("attr_instructions", tlist(INS), False),
    ("entry_instr", BLK): ("attr_entry_instr t", INS, False),
    ("idx", BLK): ("attr_block_idx", INT, True),
    ("comments_cell_border_size", CONFIG): ("rc_comments_cell_border_size", INT, True),
    ("main", TEAL): ("attr_main t", SUB, True),
}
CONFIG_CALLS = {
    "ins_additional_comments": ("rc_ins_additional_comments", [INS], tlist(TEXT)),
    "bb_additional_comments": ("rc_bb_additional_comments", [BLK], tlist(TEXT)),
    "bb_border_color": ("rc_bb_border_color", [BLK], TEXT),
}

FUNCS = {
    "_instruction_to_dot": ("instruction_to_dot_gen", [("ins", "'Instruction'", INS), ("config", "CFGDotConfig", CONFIG)], "str", CELL),
    "_bb_to_dot": ("bb_label_gen", [("bb", "'BasicBlock'", BLK), ("config", "CFGDotConfig", CONFIG)], "str", LABEL),
    "all_subroutines_to_dot": (
        "all_subroutines_files_gen",
        [("teal", "'Teal'", TEAL), ("dest", "Path", PATH), ("config", "Optional[CFGDotConfig]", "OPAQUE"), ("filename_prefix", "str", TEXT)],
        "None", "FILES",
    ),
}  # fmt: skip
ALL_SUBS_DEFAULTS = ["None", "''"]

FINGERPRINTS = [
    (INS_REL, "Instruction", "source_code", "@property\ndef source_code(self) -> str:\n    return self._source_code_line"),
    (INS_REL, "Instruction", "comments_before_ins", "@property\ndef comments_before_ins(self) -> List[str]:\n    return self._comments_before_ins"),
    (INS_REL, "Instruction", "tealer_comments", "@property\ndef tealer_comments(self) -> List[str]:\n    return self._tealer_comments"),
    (INS_REL, "Instruction", "line", "@property\ndef line(self) -> int:\n    return self._line_num"),
    (BB_REL, "BasicBlock", "tealer_comments", "@property\ndef tealer_comments(self) -> List[str]:\n    return self._tealer_comments"),
    (BB_REL, "BasicBlock", "instructions", "@property\ndef instructions(self) -> List[Instruction]:\n    return self._instructions"),
    (BB_REL, "BasicBlock", "entry_instr", "@property\ndef entry_instr(self) -> Instruction:\n    return self._instructions[0]"),
    (BB_REL, "BasicBlock", "idx", "@property\ndef idx(self) -> int:\n    return self._idx"),
    (TEAL_REL, "Teal", "main", "@property\ndef main(self) -> 'Subroutine':\n    return self._main"),
    (TEAL_REL, "Teal", "subroutines", "@property\ndef subroutines(self) -> Dict[str, 'Subroutine']:\n    return self._subroutines"),
]  # fmt: skip
SETTERS = [
    (INS_REL, "Instruction", "source_code", "@source_code.setter\ndef source_code(self, line: str) -> None:\n    self._source_code_line = line"),
    (INS_REL, "Instruction", "comments_before_ins", "@comments_before_ins.setter\ndef comments_before_ins(self, comments: List[str]) -> None:\n    self._comments_before_ins = comments"),
    (INS_REL, "Instruction", "line", "@line.setter\ndef line(self, l: int) -> None:\n    self._line_num = l"),
]  # fmt: skip
# every statement of tealer/ that WRITES one of the attributes read by the rows, outside the property definitions
# (file, enclosing function, statement text); the reading of the prelude (attr_source_code, attr_comments_before_ins,
# attr_tealer_comments, attr_bb_tealer_comments) is the meaning of exactly these statements
WRITERS = {
    "source_code": [
        (PI_REL, "parse_line", "ins.source_code = source_code_line"),
        (PI_REL, "parse_line", "ins.source_code = source_code_line"),
        (PI_REL, "parse_line", "ins.source_code = source_code_line"),
        ("teal/parse_functions.py", "construct_function", "err_instruction.source_code = 'TealerErr'"),
    ],
    "comments_before_ins": [(PT_REL, "first_pass", "ins.comments_before_ins = list(instruction_comments)")],
    "tealer_comments": [],
}
# statements that MENTION .tealer_comments (appends / inserts), outside the two property definitions and output.py
TEALER_COMMENT_USES = [
    (PT_REL, "_add_instruction_comments", "ins.tealer_comments.append('ApplicationID is 0 in Creation Txn')"),
    (PT_REL, "_add_instruction_comments", "ins.tealer_comments.append(f'method-selector: {method_selector}')"),
    (PT_REL, "parse_teal", "subroutine_entry_block.tealer_comments.append(f'Subroutine {subroutine_name}')"),
    (PT_REL, "parse_teal", "bb.tealer_comments.insert(0, f'block_id = {bb.idx}; cost = {bb.cost}')"),
    ("teal/parse_functions.py", "copy_main_cfg", "bb.tealer_comments.insert(0, f'block_id = {bb.idx}; cost = {bb.cost}')"),
    ("teal/parse_functions.py", "construct_function", "err_block.tealer_comments.insert(0, 'Tealer Custom Err Block')"),
]
PARSE_LINE_HEAD = ["if not line.strip():\n    return None", "source_code_line = line"]
FIRST_PASS_PARSE = (
    "try:\n    if line.strip().startswith('//'):\n        instruction_comments.append(line)\n        ins = None\n    else:\n"
    "        ins = parse_line(line)\n        if ins and instruction_comments:\n            ins.comments_before_ins = list(instruction_comments)\n"
    "            instruction_comments = []\nexcept ParseError as e:\n    print(f'Parse error at line {idx}: {e}')\n    sys.exit(1)"
)
FIRST_PASS_LOOP_HEAD = [FIRST_PASS_PARSE, "idx = idx + 1", "if not ins:\n    continue"]
FIRST_PASS_LINE = "ins.line = idx"
PARSE_TEAL_SUB_LOOP = (
    "for subroutine_name in subroutine_callsubs:",
    ["label_ins = labels[subroutine_name]", "subroutine_entry_block = label_ins.bb", "subroutine_entry_block.tealer_comments.append(f'Subroutine {subroutine_name}')"],
)
PARSE_TEAL_BB_LOOP = "for bb in teal.bbs:\n    bb.teal = teal\n    bb.tealer_comments.insert(0, f'block_id = {bb.idx}; cost = {bb.cost}')"

RESERVED = {
    "t", "src", "sel", "acc", "st", "elt", "files", "ret", "bind", "py", "fst", "snd", "map", "join", "cell", "label", "CRow", "CHead", "mkLabel",
    "html_escape", "str_strip", "py_str_int", "list_truth", "str_truth", "dict_get", "fun", "let", "in", "match", "end", "if", "then", "else",
    "with", "forall", "exists", "fix", "Type", "Prop", "Set", "string", "nat", "bool", "list", "option", "Some", "None", "true", "false",
}  # fmt: skip

PRELUDE = r"""
(* ====================================================================== *)
(* PRELUDE (fixed text).  The exception monad is the one of Gen/KeysGen.v;  *)
(* str_strip is Gen/LineGen.v's reading of str.strip(), html_escape and     *)
(* py_str_int are Gen/OutputGen.v's readings of html.escape(s, quote=True)  *)
(* and str(i); cell / label are the structured values of Model/Rows.v.      *)
(* ====================================================================== *)
(* how an f-string is read as a cell (CELL_TEMPLATES of tools/translate_rows.py; the template text is the fingerprint):
     '<TR><TD ALIGN="LEFT" BALIGN="LEFT" COLOR="{0}">{1}{2}{3}. {4}</TD></TR>\n'                              CRow {0} {1} {2} {3} {4}
     '<TR><TD COLOR="BLACK" ALIGN="LEFT" BALIGN="LEFT" PORT="{0}" BORDER="{1}"><B>{2}</B></TD></TR>\n'      CHead {0} {1} {2}
     '<<TABLE ALIGN="LEFT" COLOR="{0}">\n{1}</TABLE>> labelloc=top shape=plain\n'                             ({0}, {1})    {1}: the cells
     '{0}[label={1}] {2}'                                                                                     mkLabel {0} (fst {1}) (snd {1})   {2}: the edges, dropped
   every other f-string is the concatenation of its parts. *)
(* CFGDotConfig: the fields the label depends on; the callables may raise *)
Record dotrowconfig := mkRowConfig {
  rc_ins_additional_comments : nat -> py (list string);
  rc_bb_additional_comments : nat -> py (list string);
  rc_comments_cell_border_size : nat;
  rc_bb_border_color : nat -> py string;
  rc_custom_background_color : nat -> option string }.      (* the dict, as its lookup function *)
(* CFGDotConfig() *)
Definition default_rowconfig : dotrowconfig :=
  mkRowConfig (fun _ => ret []) (fun _ => ret []) 2 (fun _ => ret "BLACK") (fun _ => None).
(* d.get(k, default) *)
Definition dict_get (d : nat -> option string) (k : nat) (default : string) : string :=
  match d k with Some v => v | None => default end.
(* truth value of a list / of a str *)
Definition list_truth {A : Type} (l : list A) : bool := match l with [] => false | _ => true end.
Definition str_truth (s : string) : bool := negb (String.eqb s "").

Section RowsGen.
  (* the contract; source_code.splitlines() of the text it was parsed from; get_method_selector (sha512/256) *)
  Variable t : Cfg.teal.
  Variable src : list string.
  Variable sel : string -> string.

  (* ---- GLUE TABLE.  Instruction = its position in t_prog t, BasicBlock = its idx (as in Gen/OutputGen.v, whose
     attr_line / attr_entry_instr / attr_block_idx / attr_main / attr_subroutines_items are re-used). *)
  (* ins.source_code: parse_line stores the line it was given (source_code_line = line, before any re-binding), first_pass
     gives it line number idx (1-based) of source_code.splitlines() *)
  Definition attr_source_code (i : nat) : py string := bind (attr_line t i) (fun n => Rows.source_line src n).
  (* ins.tealer_comments: _add_instruction_comments is the only writer *)
  Definition attr_tealer_comments (i : nat) : py (list string) :=
    option_map (Rows.ins_tealer_comments sel) (ins_op t i).
  (* ins.comments_before_ins: first_pass collects the lines whose strip() starts with // since the last instruction *)
  Definition attr_comments_before_ins (i : nat) : py (list string) := Rows.comments_before src (t_prog t) i.
  (* bb.tealer_comments of a block of teal.bbs: parse_teal appends "Subroutine <name>" to the entry block of every
     subroutine (dict order) and finally inserts "block_id = ..; cost = .." at the front *)
  Definition attr_bb_tealer_comments (bb : nat) : py (list string) := option_map (Rows.block_tealer_comments t) (tblock t bb).
  (* bb.instructions *)
  Definition attr_instructions (bb : nat) : py (list nat) := option_map b_ins (tblock t bb).

  (* ====================================================================== *)
  (* TRANSLATED functions                                                     *)
  (* ====================================================================== *)
"""


# ----------------------------------------------------------------------------- environment / expression results
class Env:
    def __init__(self, path, fname):
        self.path = path
        self.fname = fname
        self.vars = {}  # python name -> type
        self.n = 0
        self.label_vars = set()

    def fresh(self):
        self.n += 1
        return f"tmp{self.n}"


class R:
    """translated expression: binds to perform first (left to right), pure term, type"""

    def __init__(self, pre, term, ty):
        self.pre, self.term, self.ty = pre, term, ty


def wrap(pre, body):
    """bind the monadic terms of [pre] around [body] (a term of type py _)"""
    for name, m in reversed(pre):
        body = f"(bind {m} (fun {name} =>\n{body}))"
    return body


def monadic(env, m, ty, pre=()):
    v = env.fresh()
    return R(list(pre) + [(v, m)], v, ty)


def is_name(e, n=None):
    return isinstance(e, ast.Name) and (n is None or e.id == n)


def check_name(env, name, node):
    if name in RESERVED or name.startswith("tmp") or name.startswith("attr_") or name.startswith("rc_") or name.endswith("_gen"):
        fail(env.path, node, f"variable name {name} clashes with a name of the generated file")


def fstring_parts(env, e):
    """-> (template with numbered holes, [hole expressions])"""
    tpl, holes = "", []
    for v in e.values:
        if isinstance(v, ast.Constant) and isinstance(v.value, str):
            tpl += v.value.replace("{", "{{").replace("}", "}}")
        elif isinstance(v, ast.FormattedValue):
            if v.conversion != -1 or v.format_spec is not None:
                fail(env.path, v, "f-string conversion / format spec")
            tpl += "{" + str(len(holes)) + "}"
            holes.append(v.value)
        else:
            fail(env.path, v, "f-string part")
    return tpl, holes


def as_text(env, node, r):
    if r.ty == TEXT:
        return r.term
    if r.ty == INT:
        return f"(py_str_int {r.term})"
    fail(env.path, node, f"a value of type {r.ty} inside a string")


def concat(parts):
    parts = [p for p in parts if p != '""']
    if not parts:
        return '""'
    out = parts[-1]
    for p in reversed(parts[:-1]):
        out = f"(String.append {p} {out})"
    return out


def fstring(env, e):
    tpl, holes = fstring_parts(env, e)
    if tpl in CELL_TEMPLATES:
        tys, build, rty = CELL_TEMPLATES[tpl]
        pre, args = [], []
        for h, want in zip(holes, tys):
            if want == "EDGES":
                if ast.unparse(h) != EDGES_HOLE:
                    fail(env.path, h, f"the edges hole of the node template must be {EDGES_HOLE}")
                args.append(None)
                continue
            r = expr(env, h)
            if r.ty != want:
                fail(env.path, h, f"hole of type {r.ty}, template wants {want}")
            pre += r.pre
            args.append(r.term)
        return R(pre, build(args), rty)
    if any(m in tpl for m in ("<TR", "<TD", "<TABLE", "[label=")):
        fail(env.path, e, "cell / table / node f-string that is not one of CELL_TEMPLATES: " + repr(tpl))
    # a real string: literal parts and holes, left to right
    pre, parts = [], []
    for v in e.values:
        if isinstance(v, ast.Constant):
            parts.append(coq_str(v.value))
        else:
            r = expr(env, v.value)
            pre += r.pre
            parts.append(as_text(env, v, r))
    return R(pre, concat(parts), TEXT)


def comprehension(env, e):
    """[f(x) for x in l] / (f(x) for x in l): map; the element expression must be pure"""
    if len(e.generators) != 1:
        fail(env.path, e, "comprehension with several generators")
    g = e.generators[0]
    if g.ifs or g.is_async or not is_name(g.target):
        fail(env.path, e, "comprehension with a condition / a pattern target")
    src = expr(env, g.iter)
    if not (isinstance(src.ty, tuple) and src.ty[0] == "list"):
        fail(env.path, g.iter, "comprehension over a non-list")
    x = g.target.id
    check_name(env, x, g.target)
    if x in env.vars:
        fail(env.path, g.target, f"comprehension variable {x} shadows a local variable")
    env.vars[x] = src.ty[1]
    try:
        el = expr(env, e.elt)
    finally:
        del env.vars[x]
    if el.pre:
        fail(env.path, e.elt, "comprehension element that may raise")
    return R(src.pre, f"(map (fun ({x} : {coqty(src.ty[1])}) => {el.term}) {src.term})", tlist(el.ty))


def call(env, e):
    f = e.func
    txt = ast.unparse(f)
    # html.escape(x, quote=True)
    if txt == "html.escape":
        if len(e.args) != 1 or [(k.arg, ast.unparse(k.value)) for k in e.keywords] != [("quote", "True")]:
            fail(env.path, e, "html.escape must be called as html.escape(x, quote=True)")
        r = expr(env, e.args[0])
        if r.ty != TEXT:
            fail(env.path, e, "html.escape of a non-string")
        return R(r.pre, f"(html_escape {r.term})", TEXT)
    # isinstance(ins, (A, B))
    if txt == "isinstance":
        if len(e.args) != 2 or e.keywords or not is_name(e.args[0]) or env.vars.get(e.args[0].id) != INS:
            fail(env.path, e, "isinstance")
        cl = e.args[1].elts if isinstance(e.args[1], ast.Tuple) else [e.args[1]]
        pats = []
        for c in cl:
            if not is_name(c) or c.id not in CLASS_PATTERNS:
                fail(env.path, c, "isinstance class")
            pats.append(CLASS_PATTERNS[c.id])
        v = env.fresh()
        w = env.fresh()
        return R([(w, f"(bind (ins_op t {e.args[0].id}) (fun {v} => (ret (match {v} with {' | '.join(pats)} => true | _ => false end))))")], w, BOOL)
    # _instruction_to_dot(ins, config)
    if txt == "_instruction_to_dot":
        if len(e.args) != 2 or e.keywords:
            fail(env.path, e, "_instruction_to_dot arguments")
        a, b = expr(env, e.args[0]), expr(env, e.args[1])
        if a.ty != INS or b.ty != CONFIG:
            fail(env.path, e, "_instruction_to_dot argument types")
        return monadic(env, f"(instruction_to_dot_gen {a.term} {b.term})", CELL, a.pre + b.pre)
    if isinstance(f, ast.Attribute):
        # x.strip()
        if f.attr == "strip":
            if e.args or e.keywords:
                fail(env.path, e, "strip with arguments")
            r = expr(env, f.value)
            if r.ty != TEXT:
                fail(env.path, e, "strip of a non-string")
            return R(r.pre, f"(str_strip {r.term})", TEXT)
        # sep.join(..)
        if f.attr == "join":
            if not (isinstance(f.value, ast.Constant) and isinstance(f.value.value, str)) or len(e.args) != 1 or e.keywords:
                fail(env.path, e, "join")
            sep = f.value.value
            r = expr(env, e.args[0])
            if r.ty == tlist(TEXT):
                return R(r.pre, f"(join {coq_str(sep)} {r.term})", TEXT)
            if r.ty == tlist(CELL) and sep == "":
                return R(r.pre, r.term, tlist(CELL))
            fail(env.path, e, f"join of {r.ty} with separator {sep!r}")
        # config.custom_background_color.get(ins, "BLACK")
        if txt == "config.custom_background_color.get" and env.vars.get("config") == CONFIG:
            if len(e.args) != 2 or e.keywords:
                fail(env.path, e, "dict.get arguments")
            a, b = expr(env, e.args[0]), expr(env, e.args[1])
            if a.ty != INS or b.ty != TEXT:
                fail(env.path, e, "dict.get argument types")
            return R(a.pre + b.pre, f"(dict_get (rc_custom_background_color config) {a.term} {b.term})", TEXT)
        # config.<callable>(x)
        if is_name(f.value, "config") and env.vars.get("config") == CONFIG and f.attr in CONFIG_CALLS:
            g, atys, rty = CONFIG_CALLS[f.attr]
            if len(e.args) != len(atys) or e.keywords:
                fail(env.path, e, "config callable arguments")
            pre, args = [], []
            for a, want in zip(e.args, atys):
                r = expr(env, a)
                if r.ty != want:
                    fail(env.path, a, f"argument of type {r.ty}, wanted {want}")
                pre += r.pre
                args.append(r.term)
            return monadic(env, f"({g} config {' '.join(args)})", rty, pre)
    fail(env.path, e, "call not in the whitelist: " + txt)


def expr(env, e):
    if isinstance(e, ast.Constant):
        if isinstance(e.value, str):
            return R([], coq_str(e.value), TEXT)
        fail(env.path, e, "constant")
    if isinstance(e, ast.Name):
        if e.id in RESERVED:
            fail(env.path, e, f"name {e.id} clashes with a name of the generated file")
        if e.id not in env.vars:
            fail(env.path, e, f"variable {e.id} is not bound here")
        if env.vars[e.id] in ("OPAQUE", PATH, "EDGE"):
            fail(env.path, e, f"variable {e.id} ({env.vars[e.id]}) may not be used here")
        return R([], e.id, env.vars[e.id])
    if isinstance(e, ast.JoinedStr):
        return fstring(env, e)
    if isinstance(e, ast.Attribute):
        o = expr(env, e.value)
        key = (e.attr, o.ty)
        if key not in ATTRS:
            fail(env.path, e, f"attribute {e.attr} of a {o.ty}")
        g, ty, pure = ATTRS[key]
        if o.ty == TEAL:  # every expression of type Teal is the contract t
            return R(o.pre, f"({g})", ty)
        if pure:
            return R(o.pre, f"({g} {o.term})", ty)
        return monadic(env, f"({g} {o.term})", ty, o.pre)
    if isinstance(e, ast.BinOp) and isinstance(e.op, ast.Add):
        a, b = expr(env, e.left), expr(env, e.right)
        if a.ty == b.ty == TEXT:
            return R(a.pre + b.pre, f"(String.append {a.term} {b.term})", TEXT)
        if a.ty == b.ty and isinstance(a.ty, tuple):
            return R(a.pre + b.pre, f"({a.term} ++ {b.term})", a.ty)
        fail(env.path, e, f"+ on {a.ty} and {b.ty}")
    if isinstance(e, (ast.ListComp, ast.GeneratorExp)):
        return comprehension(env, e)
    if isinstance(e, ast.Call):
        return call(env, e)
    fail(env.path, e, "expression kind " + type(e).__name__)


# ----------------------------------------------------------------------------- statements
def stored_names(stmts):
    out = []
    for st in stmts:
        for n in ast.walk(st):
            if isinstance(n, ast.Name) and isinstance(n.ctx, ast.Store) and n.id not in out:
                out.append(n.id)
            if isinstance(n, ast.Call) and isinstance(n.func, ast.Attribute) and n.func.attr == "append" and is_name(n.func.value):
                if n.func.value.id not in out:
                    out.append(n.func.value.id)
    return out


def state_of(env, body, extra=()):
    """the variables re-assigned in [body] that are bound before it"""
    return [v for v in stored_names(body) if v in env.vars] + [v for v in extra if v in env.vars and v not in stored_names(body)]


def tuple_term(names):
    return names[0] if len(names) == 1 else "(" + ", ".join(names) + ")"


def unpack(names, st, rest):
    if len(names) == 1:
        return f"(let {names[0]} := {st} in\n{rest})"
    out = rest
    proj = st
    lets = []
    for i, n in enumerate(names):
        if i < len(names) - 1:
            lets.append((n, f"(fst {proj})"))
            proj = f"(snd {proj})"
        else:
            lets.append((n, proj))
    for n, tm in reversed(lets):
        out = f"(let {n} := {tm} in\n{out})"
    return out


def truth(env, node, r):
    if r.ty == BOOL:
        return r.term
    if r.ty == TEXT:
        return f"(str_truth {r.term})"
    if isinstance(r.ty, tuple) and r.ty[0] == "list":
        return f"(list_truth {r.term})"
    fail(env.path, node, f"truth value of a {r.ty}")


def bind_var(env, name, node, ty):
    check_name(env, name, node)
    if name in env.vars and env.vars[name] != ty:
        fail(env.path, node, f"variable {name} changes its type from {env.vars[name]} to {ty}")
    env.vars[name] = ty


def block(env, stmts, final):
    """translate the statement list; [final] () -> the term that ends the block when no return was met"""
    if not stmts:
        return final()
    st, rest = stmts[0], stmts[1:]

    def go():
        return block(env, rest, final)

    if isinstance(st, ast.Return):
        if rest:
            fail(env.path, st, "statements after return")
        if env.result == "FILES":
            fail(env.path, st, "return in a function that writes files")
        if st.value is None:
            fail(env.path, st, "return without value")
        r = expr(env, st.value)
        if r.ty != env.result:
            fail(env.path, st, f"return of a {r.ty}, the function returns {env.result}")
        env.returned = True
        return wrap(r.pre, f"(ret {r.term})")
    if isinstance(st, ast.AnnAssign):
        if not is_name(st.target) or st.value is None or ast.unparse(st.annotation) != "List[str]" or ast.unparse(st.value) != "[]":
            fail(env.path, st, "annotated assignment other than `x: List[str] = []`")
        if st.target.id != "table_rows":
            fail(env.path, st, "list of strings that is not table_rows")
        bind_var(env, st.target.id, st, tlist(CELL))
        return f"(let {st.target.id} := (@nil cell) in\n{go()})"
    if isinstance(st, ast.Assign):
        if len(st.targets) != 1 or not is_name(st.targets[0]):
            fail(env.path, st, "assignment target")
        name = st.targets[0].id
        r = expr(env, st.value)
        if r.ty in (TABLE, LABEL) and name not in ("table_str",):
            fail(env.path, st, f"a {r.ty} stored in {name}")
        bind_var(env, name, st, r.ty)
        return wrap(r.pre, f"(let {name} := {r.term} in\n{go()})")
    if isinstance(st, ast.AugAssign):
        if not is_name(st.target) or not isinstance(st.op, ast.Add) or env.vars.get(st.target.id) != TEXT:
            fail(env.path, st, "augmented assignment other than text += text")
        r = expr(env, st.value)
        if r.ty != TEXT:
            fail(env.path, st, "+= of a non-string")
        return wrap(r.pre, f"(let {st.target.id} := (String.append {st.target.id} {r.term}) in\n{go()})")
    if isinstance(st, ast.Expr) and isinstance(st.value, ast.Call):
        c = st.value
        # l.append(x)
        if isinstance(c.func, ast.Attribute) and c.func.attr == "append" and is_name(c.func.value) and len(c.args) == 1 and not c.keywords:
            l = c.func.value.id
            lty = env.vars.get(l)
            if not (isinstance(lty, tuple) and lty[0] == "list"):
                fail(env.path, st, f"append to {l}, which is not a bound list")
            r = expr(env, c.args[0])
            if r.ty != lty[1]:
                fail(env.path, st, f"append of a {r.ty} to a list of {lty[1]}")
            return wrap(r.pre, f"(let {l} := ({l} ++ [{r.term}]) in\n{go()})")
        if is_name(c.func, "print") and env.result == "FILES":
            fail(env.path, st, "print outside a `with open` block")
        fail(env.path, st, "expression statement")
    if isinstance(st, ast.If):
        if st.orelse:
            fail(env.path, st, "if with else")
        for n in ast.walk(st):
            if isinstance(n, (ast.Return, ast.Break, ast.Continue, ast.Raise)):
                fail(env.path, n, "return / break / continue / raise inside an if")
        c = expr(env, st.test)
        cond = truth(env, st.test, c)
        state = state_of(env, st.body)
        if not state:
            fail(env.path, st, "if that assigns no variable bound before it")
        saved = dict(env.vars)
        body = block(env, st.body, lambda: f"(ret {tuple_term(state)})")
        env.vars = saved  # variables first bound inside the body are local to it
        v = env.fresh()
        return wrap(c.pre, f"(bind (if {cond}\n then {body}\n else (ret {tuple_term(state)})) (fun {v} =>\n{unpack(state, v, go())}))")
    if isinstance(st, ast.For):
        if st.orelse or getattr(st, "type_comment", None):
            fail(env.path, st, "for-else")
        for n in ast.walk(st):
            if isinstance(n, (ast.Return, ast.Break, ast.Continue, ast.Raise)):
                fail(env.path, n, "return / break / continue / raise inside a for")
        if ast.unparse(st.iter) == "teal.subroutines.items()" and env.vars.get("teal") == TEAL:
            it = R([], "(attr_subroutines_items t)", tlist(("prod", TEXT, SUB)))
        else:
            it = expr(env, st.iter)
        if not (isinstance(it.ty, tuple) and it.ty[0] == "list"):
            fail(env.path, st.iter, "for over a non-list")
        ety = it.ty[1]
        state = state_of(env, st.body, ["files"] if env.result == "FILES" else [])
        if not state:
            fail(env.path, st, "for loop that changes no variable bound before it")
        saved = dict(env.vars)
        if is_name(st.target):
            targets = [(st.target.id, "elt", ety)]
        elif isinstance(st.target, ast.Tuple) and isinstance(ety, tuple) and ety[0] == "prod" and len(st.target.elts) == 2 and all(is_name(x) for x in st.target.elts):
            targets = [(st.target.elts[0].id, "(fst elt)", ety[1]), (st.target.elts[1].id, "(snd elt)", ety[2])]
        else:
            fail(env.path, st.target, "for target")
        for n, _, ty in targets:
            if n in env.vars:
                fail(env.path, st.target, f"loop variable {n} shadows a local variable")
            bind_var(env, n, st.target, ty)
        body = block(env, st.body, lambda: f"(ret {tuple_term(state)})")
        env.vars = saved
        for n, tm, _ in reversed(targets):
            body = f"(let {n} := {tm} in\n{body})"
        v = env.fresh()
        fold = f"(fold_left (fun acc elt => (bind acc (fun st =>\n{unpack(state, 'st', body)})))\n {it.term} (ret {tuple_term(state)}))"
        return wrap(it.pre, f"(bind {fold} (fun {v} =>\n{unpack(state, v, go())}))")
    if isinstance(st, ast.With) and env.result == "FILES":
        return with_open(env, st, go)
    fail(env.path, st, "statement kind " + type(st).__name__)


def with_open(env, st, go):
    """with open(dest / Path(NAME), "w", encoding="utf-8") as f: f.write(subroutine_to_dot(S, config)); print(..)"""
    if len(st.items) != 1 or not is_name(st.items[0].optional_vars, "f"):
        fail(env.path, st, "with statement")
    c = st.items[0].context_expr
    ok = (
        isinstance(c, ast.Call) and is_name(c.func, "open") and len(c.args) == 2 and ast.unparse(c.args[1]) == "'w'"
        and [(k.arg, ast.unparse(k.value)) for k in c.keywords] == [("encoding", "'utf-8'")]
        and isinstance(c.args[0], ast.BinOp) and isinstance(c.args[0].op, ast.Div) and is_name(c.args[0].left, "dest")
        and isinstance(c.args[0].right, ast.Call) and is_name(c.args[0].right.func, "Path") and len(c.args[0].right.args) == 1
        and not c.args[0].right.keywords
    )  # fmt: skip
    if not ok:
        fail(env.path, st, 'expected `with open(dest / Path(NAME), "w", encoding="utf-8") as f`')
    name = expr(env, c.args[0].right.args[0])
    if name.ty != TEXT:
        fail(env.path, st, "file name that is not a string")
    if len(st.body) != 2:
        fail(env.path, st, "body of the with statement: expected f.write(..) and a print")
    w, p = st.body
    okw = (
        isinstance(w, ast.Expr) and isinstance(w.value, ast.Call) and ast.unparse(w.value.func) == "f.write" and len(w.value.args) == 1
        and not w.value.keywords and isinstance(w.value.args[0], ast.Call) and is_name(w.value.args[0].func, "subroutine_to_dot")
        and len(w.value.args[0].args) == 2 and not w.value.args[0].keywords and is_name(w.value.args[0].args[1], "config")
    )  # fmt: skip
    if not okw:
        fail(env.path, w, "expected f.write(subroutine_to_dot(S, config))")
    s = expr(env, w.value.args[0].args[0])
    if s.ty != SUB:
        fail(env.path, w, "subroutine_to_dot of a non-subroutine")
    if not (isinstance(p, ast.Expr) and isinstance(p.value, ast.Call) and is_name(p.value.func, "print")):
        fail(env.path, p, "expected a print")
    for n in ast.walk(p):
        if isinstance(n, (ast.NamedExpr, ast.Await, ast.Yield)) or (isinstance(n, ast.Call) and n is not p.value and not is_name(n.func, "Path")):
            fail(env.path, n, "print with an effect")
    return wrap(name.pre + s.pre, f"(let files := (files ++ [({name.term}, {s.term})]) in\n{go()})")


# ----------------------------------------------------------------------------- the cut of _bb_to_dot
def mentions(st, names):
    return any(isinstance(n, ast.Name) and n.id in names for n in ast.walk(st))


def cut_bb_to_dot(path, fn):
    body = strip_doc(fn.body)
    label, edge = [], []
    for st in body:
        if isinstance(st, ast.FunctionDef):
            if st.name != "graph_edge_str":
                fail(path, st, "nested function other than graph_edge_str")
            edge.append(st)
            continue
        stores = stored_names([st])
        calls_rows = any(isinstance(n, ast.Call) and is_name(n.func, "_instruction_to_dot") for n in ast.walk(st))
        has_ret = any(isinstance(n, ast.Return) for n in ast.walk(st))
        if stores and set(stores) <= EDGE_NAMES and not calls_rows and not has_ret:
            edge.append(st)
        else:
            label.append(st)
    label_vars = set(stored_names(label))
    if label_vars & EDGE_NAMES:
        fail(path, fn, "the label part stores to an edge variable")
    for st in edge:
        if mentions(st, label_vars):
            fail(path, st, "a statement of the edge part mentions a variable of the label part")
    for st in label:
        for n in ast.walk(st):
            if isinstance(n, ast.Name) and n.id in EDGE_NAMES | {"graph_edge_str"}:
                # allowed only as the edges hole of the node template
                ok = isinstance(st, ast.Return) and isinstance(st.value, ast.JoinedStr) and ast.unparse(st.value.values[-1].value if isinstance(st.value.values[-1], ast.FormattedValue) else st.value) == EDGES_HOLE
                inside = ok and any(n is m for m in ast.walk(st.value.values[-1]))
                if not inside:
                    fail(path, n, "the label part mentions a variable of the edge part")
    # the label statements keep their relative order; the return must be the last statement of the function
    if not label or not isinstance(label[-1], ast.Return) or body[-1] is not label[-1]:
        fail(path, fn, "_bb_to_dot must end with the return of the node")
    return label


# ----------------------------------------------------------------------------- fingerprints
def enclosing_functions(tree):
    """statement -> name of the enclosing top-level function / Class.method"""
    out = {}
    for top in tree.body:
        if isinstance(top, ast.FunctionDef):
            for n in ast.walk(top):
                out[id(n)] = top.name
        elif isinstance(top, ast.ClassDef):
            for m in top.body:
                for n in ast.walk(m):
                    out[id(n)] = f"{top.name}.{getattr(m, 'name', '?')}"
    return out


def check_fingerprints():
    trees = {}

    def tree_of(rel):
        if rel not in trees:
            trees[rel] = parse(os.path.join(T, rel))
        return trees[rel]

    for rel, cname, mname, text in FINGERPRINTS:
        path = os.path.join(T, rel)
        cls = find_class(tree_of(rel), cname, path)
        m = member(path, cls, mname)
        if not same_text(ast.parse(member_text(m)), text):
            fail(path, m, f"{cname}.{mname} changed (glue table of Gen/RowsGen.v):\n{member_text(m)}")
    for rel, cname, mname, text in SETTERS:
        path = os.path.join(T, rel)
        cls = find_class(tree_of(rel), cname, path)
        found = [n for n in cls.body if isinstance(n, ast.FunctionDef) and n.name == mname and [ast.unparse(d) for d in n.decorator_list] == [f"{mname}.setter"]]
        if len(found) != 1 or not same_text(ast.parse(member_text(found[0])), text):
            fail(path, cls, f"setter of {cname}.{mname} changed")
    # CFGDotConfig
    opath = os.path.join(T, OUT_REL)
    otree = tree_of(OUT_REL)
    cls = find_class(otree, "CFGDotConfig", opath)
    if not same_text(ast.parse(class_text(cls)), CONFIG_CLASS):
        fail(opath, cls, "class CFGDotConfig changed (record dotrowconfig / default_rowconfig of the prelude)")
    # html is the standard module, Callsub / Retsub are the instruction classes
    imports = [ast.unparse(n) for n in otree.body if isinstance(n, (ast.Import, ast.ImportFrom))]
    if "import html" not in imports or INS_MODULE_IMPORT not in imports:
        raise TranslateError(f"translator: {opath}: expected `import html` and `{INS_MODULE_IMPORT}`")
    for n in ast.walk(otree):
        if isinstance(n, ast.Name) and isinstance(n.ctx, (ast.Store, ast.Del)) and n.id in ("html", "Callsub", "Retsub", "isinstance", "str", "open", "Path"):
            fail(opath, n, f"{n.id} is re-bound in utils/output.py")
        if isinstance(n, (ast.FunctionDef, ast.ClassDef)) and n.name in ("html", "Callsub", "Retsub", "isinstance", "str", "open", "Path"):
            fail(opath, n, f"{n.name} is re-defined in utils/output.py")
    check_no_subclasses(os.path.join(T, INS_REL), list(CLASS_PATTERNS))
    # writers of the attributes, over the whole package
    seen = {k: [] for k in WRITERS}
    uses = []
    for root, _, files in os.walk(T):
        for fn in sorted(files):
            if not fn.endswith(".py"):
                continue
            fp = os.path.join(root, fn)
            rel = os.path.relpath(fp, T)
            tree = parse(fp)
            encl = enclosing_functions(tree)
            for st in ast.walk(tree):
                if not isinstance(st, ast.stmt) or isinstance(st, (ast.FunctionDef, ast.ClassDef, ast.If, ast.For, ast.While, ast.With, ast.Try)):
                    continue
                for n in ast.walk(st):
                    if isinstance(n, ast.Attribute) and isinstance(n.ctx, (ast.Store, ast.Del)) and n.attr in WRITERS:
                        seen[n.attr].append((rel, encl.get(id(st), "?"), ast.unparse(st)))
                    if isinstance(n, ast.Attribute) and n.attr in ("_source_code_line", "_comments_before_ins", "_tealer_comments", "_line_num"):
                        where = encl.get(id(st), "?")
                        if not (rel in (INS_REL, BB_REL) and where.split(".")[-1] in ("__init__", "source_code", "comments_before_ins", "tealer_comments", "line")):
                            fail(fp, n, f"private attribute {n.attr} used outside its property")
                    if isinstance(n, ast.Attribute) and n.attr == "tealer_comments" and rel != OUT_REL:
                        if not (rel in (INS_REL, BB_REL) and encl.get(id(st), "?").endswith(".tealer_comments")):
                            uses.append((rel, encl.get(id(st), "?"), ast.unparse(st)))
                    if isinstance(n, ast.Call) and is_name(n.func) and n.func.id in ("setattr", "delattr") and rel == OUT_REL:
                        fail(fp, n, "setattr / delattr in utils/output.py")
    for k, want in WRITERS.items():
        norm = lambda l: sorted((a, b, ast.unparse(ast.parse(c))) for a, b, c in l)  # noqa: E731
        if norm(seen[k]) != norm(want):
            raise TranslateError(f"translator: the statements that assign .{k} changed (glue table of Gen/RowsGen.v): {sorted(seen[k])}")
    norm = lambda l: sorted(set((a, b, ast.unparse(ast.parse(c))) for a, b, c in l))  # noqa: E731
    if norm(uses) != norm(TEALER_COMMENT_USES):
        raise TranslateError(f"translator: the statements that use .tealer_comments changed (glue table of Gen/RowsGen.v): {sorted(set(uses))}")
    # parse_line: source_code_line is the line as given
    ppath = os.path.join(T, PI_REL)
    pl = find_toplevel(tree_of(PI_REL), "parse_line", ppath)
    body = strip_doc(pl.body)
    if [ast.unparse(s) for s in body[:2]] != [ast.unparse(ast.parse(x)) for x in PARSE_LINE_HEAD]:
        fail(ppath, pl, "parse_line no longer starts with the blank test and `source_code_line = line`")
    if sum(1 for n in ast.walk(pl) if isinstance(n, ast.Name) and n.id == "source_code_line" and isinstance(n.ctx, ast.Store)) != 1:
        fail(ppath, pl, "source_code_line is assigned more than once")
    if [a.arg for a in pl.args.args] != ["line"]:
        fail(ppath, pl, "signature of parse_line")
    # first_pass: the loop over the lines, ins.line = idx
    tpath = os.path.join(T, PT_REL)
    ttree = tree_of(PT_REL)
    fp_ = find_toplevel(ttree, "first_pass", tpath)
    loops = [s for s in strip_doc(fp_.body) if isinstance(s, ast.For)]
    if len(loops) != 1 or ast.unparse(loops[0].target) != "line" or ast.unparse(loops[0].iter) != "lines":
        fail(tpath, fp_, "first_pass: expected one loop `for line in lines`")
    lb = loops[0].body
    if [ast.unparse(s) for s in lb[:3]] != [ast.unparse(ast.parse(x)) for x in FIRST_PASS_LOOP_HEAD]:
        fail(tpath, loops[0], "first_pass: the parsing head of the loop changed (ins.line / comments_before_ins reading)")
    if [ast.unparse(s) for s in lb].count(FIRST_PASS_LINE) != 1:
        fail(tpath, loops[0], "first_pass: expected exactly one `ins.line = idx`")
    pre = [ast.unparse(s) for s in strip_doc(fp_.body)[: strip_doc(fp_.body).index(loops[0])]]
    if pre.count("idx = 0") != 1 or pre.count("instruction_comments: List[str] = []") != 1:
        fail(tpath, fp_, "first_pass: idx / instruction_comments initialisation changed")
    for n in ast.walk(loops[0]):
        if isinstance(n, ast.Name) and isinstance(n.ctx, ast.Store) and n.id in ("idx", "instruction_comments", "line"):
            st_txt = [ast.unparse(s) for s in ast.walk(loops[0]) if isinstance(s, ast.stmt) and any(m is n for m in ast.walk(s)) and not isinstance(s, (ast.For, ast.Try, ast.If))]
            if not all(x in ("idx = idx + 1", "instruction_comments = []") for x in st_txt):
                fail(tpath, n, f"first_pass: {n.id} is re-assigned")
    ac = find_toplevel(ttree, "_add_instruction_comments", tpath)
    if not same_text(ast.parse(member_text(ac)), ADD_COMMENTS_TEXT):
        fail(tpath, ac, "_add_instruction_comments changed (attr_tealer_comments of the prelude)")
    calls = [n for n in ast.walk(ttree) if isinstance(n, ast.Call) and is_name(n.func, "_add_instruction_comments")]
    if len(calls) != 1 or not any(ast.unparse(s) == "_add_instruction_comments(ins)" for s in lb):
        fail(tpath, fp_, "_add_instruction_comments must be called exactly once, in the loop of first_pass")
    # parse_teal: the two writers of bb.tealer_comments
    pt = find_toplevel(ttree, "parse_teal", tpath)
    subloops = [s for s in pt.body if isinstance(s, ast.For) and any(isinstance(n, ast.Attribute) and n.attr == "tealer_comments" for n in ast.walk(s))]
    if len(subloops) != 2:
        fail(tpath, pt, "parse_teal: expected two loops writing tealer_comments")
    head, first = PARSE_TEAL_SUB_LOOP
    if ast.unparse(subloops[0]).split("\n")[0] != head or [ast.unparse(s) for s in subloops[0].body[:3]] != first:
        fail(tpath, subloops[0], "parse_teal: the loop that registers the subroutines changed (Subroutine <name> comment)")
    if ast.unparse(subloops[1]) != ast.unparse(ast.parse(PARSE_TEAL_BB_LOOP)):
        fail(tpath, subloops[1], "parse_teal: the loop that sets bb.teal / the block_id comment changed")


def check_signature(path, fn, params, rann):
    a = fn.args
    if a.vararg or a.kwarg or a.kwonlyargs or a.posonlyargs or fn.decorator_list:
        fail(path, fn, "signature")
    got = [(x.arg, ast.unparse(x.annotation) if x.annotation else None) for x in a.args]
    if got != [(n, ann) for n, ann, _ in params] or (ast.unparse(fn.returns) if fn.returns else None) != rann:
        fail(path, fn, f"signature of {fn.name} changed: {got}")


# ----------------------------------------------------------------------------- emission
def emit_function(w, path, fn, stmts=None):
    gname, params, rann, result = FUNCS[fn.name]
    check_signature(path, fn, params, rann)
    env = Env(path, fn.name)
    env.result = result
    env.returned = False
    for n, _, ty in params:
        env.vars[n] = ty
    body = strip_doc(fn.body) if stmts is None else stmts
    for n in ast.walk(ast.Module(body=body, type_ignores=[])):
        if isinstance(n, (ast.Global, ast.Nonlocal, ast.Lambda, ast.While, ast.Try, ast.Delete, ast.Assert, ast.NamedExpr, ast.Yield, ast.YieldFrom, ast.Await, ast.Starred)):
            fail(path, n, "statement / expression kind " + type(n).__name__)
    if result == "FILES":
        defaults = [ast.unparse(d) for d in fn.args.defaults]
        if defaults != ALL_SUBS_DEFAULTS:
            fail(path, fn, "defaults of all_subroutines_to_dot")
        env.vars["files"] = tlist(("prod", TEXT, SUB))
        term = "(let files := (@nil (string * Cfg.subroutine)) in\n" + block(env, body, lambda: "(ret files)") + ")"
        sig = "(filename_prefix : string) : py (list (string * Cfg.subroutine))"
    else:
        if fn.args.defaults:
            fail(path, fn, "default arguments")

        def no_return():
            fail(path, fn, "the function can end without return")

        term = block(env, body, no_return)
        sig = " ".join(f"({n} : {coqty(ty)})" for n, _, ty in params) + f" : py {'cell' if result == CELL else 'label'}"
    w(f"  (* {OUT_REL}: {fn.name} (line {fn.lineno}) *)")
    w(f"  Definition {gname} {sig} :=")
    w("    " + term.replace("\n", "\n    ") + ".")
    w("")


def emit_rows(outdir):
    check_fingerprints()
    path = os.path.join(T, OUT_REL)
    tree = parse(path)
    lines = []
    w = lines.append
    w("(* GENERATED by tools/translate.py (translate_rows) from /repo/tealer -- do not edit *)")
    w("(* utils/output.py: _instruction_to_dot, the label part of _bb_to_dot, all_subroutines_to_dot: the TEXT of the rows")
    w("   of a node label as structured cells, statement by statement.  See tools/translate_rows.py for the reading. *)")
    w("From Coq Require Import String List NArith Bool Arith Ascii.")
    w("From Tealer Require Import Syntax Parse Cfg Analysis KeysGen LineGen Output OutputGen Rows.")
    w("Import ListNotations.")
    w("Open Scope string_scope.")
    w("Open Scope list_scope.")
    w(PRELUDE.rstrip("\n"))
    ins_fn = find_toplevel(tree, "_instruction_to_dot", path)
    emit_function(w, path, ins_fn)
    bb_fn = find_toplevel(tree, "_bb_to_dot", path)
    emit_function(w, path, bb_fn, cut_bb_to_dot(path, bb_fn))
    all_fn = find_toplevel(tree, "all_subroutines_to_dot", path)
    emit_function(w, path, all_fn)
    # _instruction_to_dot is called from _bb_to_dot only
    for root, _, files in os.walk(T):
        for fnm in sorted(files):
            if fnm.endswith(".py"):
                fp = os.path.join(root, fnm)
                for n in ast.walk(parse(fp)):
                    if isinstance(n, ast.Name) and n.id == "_instruction_to_dot" and not fp.endswith(OUT_REL):
                        fail(fp, n, "_instruction_to_dot is used outside utils/output.py")
    w("End RowsGen.")
    os.makedirs(outdir, exist_ok=True)
    with open(os.path.join(outdir, "RowsGen.v"), "w", encoding="utf-8") as f:
        f.write("\n".join(lines) + "\n")
    return 3


def main():
    outdir = sys.argv[1] if len(sys.argv) > 1 else os.path.join(os.path.dirname(os.path.abspath(__file__)), "..", "coq", "Gen")
    try:
        n = emit_rows(outdir)
    except TranslateError as e:
        print(str(e))
        sys.exit(2)
    print(f"translate_rows: {n} row-text functions -> {outdir}/RowsGen.v")


if __name__ == "__main__":
    main()
