#!/venv/bin/python
"""Self-test of tools/translate_consts.py (the regenerated integer-constant resolution and result storing, Gen/ConstsGen.v).

(a) runs the translator on the clean source ($VERIF_REPO, default /tmp/cleanrepo) and checks that the output
    compiles, equals coq/Gen/ConstsGen.v when that exists, and that Lemmas/ConstsGenLemmas.v compiles against it
    (positive control);
(b) applies small mutations to a scratch copy of the Python sources and shows that, for each, either the translator
    stops (TranslateError) or the generated Gallina differs AND Lemmas/ConstsGenLemmas.v no longer compiles against it.

Precondition: coq/ has been built (`make`): the .vo files of Model/, Gen/, Spec/, Lemmas/ are used.
Every coqc runs under `timeout`.  Exit status 0 iff every row has the expected verdict.
"""
import ast
import os
import shutil
import subprocess
import sys
import tempfile

HERE = os.path.dirname(os.path.abspath(__file__))
ROOT = os.path.dirname(HERE)
COQ = os.path.join(ROOT, "coq")
PY = "/venv/bin/python"
REPO = os.environ.get("VERIF_REPO", "/tmp/cleanrepo")

AN = "tealer/utils/analyses.py"
TL = "tealer/teal/teal.py"
PT = "tealer/teal/parse_teal.py"
BB = "tealer/teal/basic_blocks.py"
INS = "tealer/teal/instructions/instructions.py"
IF = "tealer/analyses/dataflow/transaction_context/int_fields.py"
NEEDED = [AN, TL, PT, BB, INS, IF, "tealer/teal/subroutine.py", "tealer/teal/functions.py"]


def sh(cmd, cwd=None, env=None):
    e = dict(os.environ)
    if env:
        e.update(env)
    p = subprocess.run(cmd, shell=True, cwd=cwd, stdout=subprocess.PIPE, stderr=subprocess.STDOUT, env=e, check=False)
    return p.returncode, p.stdout.decode(errors="replace")


# ----------------------------------------------------------------------------- mutations (text -> text)
def replace_n(src, old, new, n=1):
    if src.count(old) != n:
        raise RuntimeError(f"mutation anchor found {src.count(old)} times, expected {n}: {old[:60]}")
    return src.replace(old, new)


def in_class(src, cls, old, new):
    """replace `old` once inside the text of class `cls`"""
    i = src.index(f"\nclass {cls}(")
    j = src.index("\nclass ", i + 1)
    body = src[i:j]
    if body.count(old) != 1:
        raise RuntimeError(f"mutation anchor found {body.count(old)} times in class {cls}: {old[:60]}")
    return src[:i] + body.replace(old, new) + src[j:]


def in_function(src, name, old, new):
    """replace `old` once inside the text of the top-level function `name`"""
    i = src.index(f"\ndef {name}(")
    j = src.find("\ndef ", i + 1)
    j = len(src) if j < 0 else j
    body = src[i:j]
    if body.count(old) != 1:
        raise RuntimeError(f"mutation anchor found {body.count(old)} times in function {name}: {old[:60]}")
    return src[:i] + body.replace(old, new) + src[j:]


def m_intc1_index0(src):
    """(1) intc_1 reads constant 0"""
    return in_class(src, "Intc1", "self._idx = 1", "self._idx = 0")


def m_new_intc_class(src):
    """(1) a further subclass of IntcInstruction"""
    return replace_n(src, "\nclass BytecInstruction(Instruction):", "\nclass Intc4(IntcInstruction):\n    def __init__(self) -> None:\n        super().__init__()\n        self._idx = 4\n\n\nclass BytecInstruction(Instruction):")


def m_get_lt(src):
    """(1) Teal.get_int_constant: `<=` replaced by `<` (index = len reads past the end)"""
    return replace_n(src, "if len(self._int_constants) <= index:", "if len(self._int_constants) < index:")


def m_known_flag(src):
    """(1) is_int_push_ins ignores is_known (an intc beyond the block is the number 0)"""
    return in_function(src, "is_int_push_ins", "        if is_known:\n            return True, value\n        return True, None\n", "        return True, value\n")


def m_named_resolved_ifexp(src):
    """(1) a named constant is resolved to a number (conditional expression)"""
    return in_function(src, "is_int_push_ins", "        return True, ins.value\n", "        return True, (ins.value if isinstance(ins.value, int) else 0)\n")


def m_named_resolved_zero(src):
    """(1) int / pushint always answer the number 0"""
    return in_function(src, "is_int_push_ins", "        return True, ins.value\n", "        return True, 0\n")


def m_pushint_dropped(src):
    """(1) pushint is no longer an integer push"""
    return replace_n(
        src,
        "    if isinstance(ins, Int) or isinstance(  # pylint: disable=consider-merging-isinstance\n        ins, PushInt\n    ):\n",
        "    if isinstance(ins, Int):\n",
    )


def m_false_with_value(src):
    """(1) `return False, <value>`"""
    return in_function(src, "is_int_push_ins", "        return True, None\n    return False, None\n", "        return True, None\n    return False, 0\n")


def m_two_blocks(src):
    """(2) the constant block is used although there are two intcblocks"""
    return replace_n(src, "if len(intcblock_ins) == 1 and intcblock_ins[0].bb == entry_block:", "if len(intcblock_ins) >= 1 and intcblock_ins[0].bb == entry_block:")


def m_entry_test_dropped(src):
    """(2) the intcblock need not be in the entry block"""
    return replace_n(src, "if len(intcblock_ins) == 1 and intcblock_ins[0].bb == entry_block:", "if len(intcblock_ins) == 1:")


def m_entry_other(src):
    """(2) parse_teal passes another block as entry block"""
    return replace_n(src, "_fill_intc_bytec_info(intcblock_ins, bytecblock_ins, teal.main.entry, teal)", "_fill_intc_bytec_info(intcblock_ins, bytecblock_ins, all_bbs[-1], teal)")


def m_collect_both(src):
    """(2) first_pass also lists bytecblock instructions as intcblocks"""
    return replace_n(src, "        if isinstance(ins, Intcblock):\n            intcblock_ins.append(ins)\n", "        if isinstance(ins, (Intcblock, Bytecblock)):\n            intcblock_ins.append(ins)\n")


def m_teal_init(src):
    """(2) a fresh Teal object starts with a constant"""
    return replace_n(src, "self._int_constants: List[int] = []", "self._int_constants: List[int] = [0]")


def m_setter_swapped(src):
    """(2) set_int_constants stores into _byte_constants"""
    return replace_n(src, "        self._int_constants = int_constants\n", "        self._byte_constants = int_constants\n")


def m_bb_bool(src):
    """(1) BasicBlock gets a __bool__ (`not ins.bb` is no longer False)"""
    return replace_n(src, "    def __repr__(self) -> str:\n        return f\"B{self.idx}\"", "    def __repr__(self) -> str:\n        return f\"B{self.idx}\"\n\n    def __bool__(self) -> bool:\n        return len(self._instructions) > 0")


def m_range_plus_one(src):
    """(3) off by one: index <= size (range end + 1)"""
    return replace_n(src, "range(0, max(group_sizes_context[bi], default=0))", "range(0, max(group_sizes_context[bi], default=0) + 1)")


def m_range_from_one(src):
    """(3) off by one: the indices start at 1"""
    return replace_n(src, "range(0, max(group_sizes_context[bi], default=0))", "range(1, max(group_sizes_context[bi], default=0))")


def m_max_default(src):
    """(3) max(.., default=1): index 0 survives an empty size set"""
    return replace_n(src, "range(0, max(group_sizes_context[bi], default=0))", "range(0, max(group_sizes_context[bi], default=1))")


def m_union(src):
    """(3) `&` replaced by `|`"""
    return replace_n(src, "group_indices_context[bi] = group_indices_context[bi] & set(", "group_indices_context[bi] = group_indices_context[bi] | set(")


def m_store_swapped(src):
    """(3) the group sizes are stored as group_indices"""
    return replace_n(src, "        group_index_block_context = self._block_contexts[self.GROUP_INDEX_KEY]\n", "        group_index_block_context = self._block_contexts[self.GROUP_SIZE_KEY]\n")


def m_couple_sizes(src):
    """(3) the coupling bounds the indices by the indices themselves"""
    return replace_n(src, "        group_sizes_context = self._block_contexts[self.GROUP_SIZE_KEY]\n", "        group_sizes_context = self._block_contexts[self.GROUP_INDEX_KEY]\n")


ST, GEN = "STOPPED", "ok"
MUTATIONS = [
    ("(1a) intc_1 reads constant 0", INS, m_intc1_index0, GEN),
    ("(1b) new subclass Intc4 of IntcInstruction", INS, m_new_intc_class, ST),
    ("(1c) get_int_constant: <= replaced by <", TL, m_get_lt, GEN),
    ("(1d) is_known ignored", AN, m_known_flag, GEN),
    ("(1e) named constant resolved (conditional expr)", AN, m_named_resolved_ifexp, ST),
    ("(1f) int / pushint answer the number 0", AN, m_named_resolved_zero, GEN),
    ("(1g) pushint no longer an integer push", AN, m_pushint_dropped, GEN),
    ("(1h) return False, 0", AN, m_false_with_value, ST),
    ("(1i) BasicBlock.__bool__ added", BB, m_bb_bool, ST),
    ("(2a) block used with two intcblocks (>= 1)", PT, m_two_blocks, GEN),
    ("(2b) entry-block test dropped", PT, m_entry_test_dropped, GEN),
    ("(2c) parse_teal passes all_bbs[-1] as entry", PT, m_entry_other, ST),
    ("(2d) first_pass lists bytecblocks as intcblocks", PT, m_collect_both, ST),
    ("(2e) Teal.__init__: _int_constants = [0]", TL, m_teal_init, ST),
    ("(2f) set_int_constants stores _byte_constants", TL, m_setter_swapped, ST),
    ("(3a) range end + 1 (index <= size)", IF, m_range_plus_one, ST),
    ("(3b) range starts at 1", IF, m_range_from_one, GEN),
    ("(3c) max(.., default=1)", IF, m_max_default, GEN),
    ("(3d) & replaced by |", IF, m_union, ST),
    ("(3e) group sizes stored as group_indices", IF, m_store_swapped, GEN),
    ("(3f) indices bounded by the indices", IF, m_couple_sizes, GEN),
]


# ----------------------------------------------------------------------------- one run
def prepare_repo(dst, rel=None, mutate=None):
    for f in NEEDED:
        os.makedirs(os.path.dirname(os.path.join(dst, f)), exist_ok=True)
        shutil.copy(os.path.join(REPO, f), os.path.join(dst, f))
    if mutate:
        path = os.path.join(dst, rel)
        with open(path, encoding="utf-8") as fh:
            src = fh.read()
        new = mutate(src)
        if new == src:
            raise RuntimeError("mutation did not change the source")
        ast.parse(new)  # the mutant is valid Python
        with open(path, "w", encoding="utf-8") as fh:
            fh.write(new)


def run_case(work, rel=None, mutate=None):
    repo, gen, lem = os.path.join(work, "repo"), os.path.join(work, "Gen"), os.path.join(work, "Lemmas")
    os.makedirs(gen)
    os.makedirs(lem)
    prepare_repo(repo, rel, mutate)
    rc, out = sh(f"{PY} {HERE}/translate_consts.py {gen}", env={"VERIF_REPO": repo})
    res = {"translator": "ok" if rc == 0 else "STOPPED", "log": out.strip(), "text": None, "gen_ok": None, "lemmas_ok": None}
    if rc != 0:
        if rc != 2 or "translator:" not in out:
            res["translator"] = "CRASHED"
        return res
    with open(os.path.join(gen, "ConstsGen.v"), encoding="utf-8") as fh:
        res["text"] = fh.read()
    # every other generated file is taken (compiled) from the built tree
    for f in os.listdir(os.path.join(COQ, "Gen")):
        if f.endswith(".vo") and f != "ConstsGen.vo":
            os.symlink(os.path.join(COQ, "Gen", f), os.path.join(gen, f))
    shutil.copy(os.path.join(COQ, "Lemmas", "ConstsGenLemmas.v"), os.path.join(lem, "ConstsGenLemmas.v"))
    # the scratch Lemmas directory comes first: ConstsGenLemmas is taken from there, everything else from the built tree
    q = f"-Q {COQ}/Model Tealer -Q {gen} Tealer -Q {COQ}/Spec Tealer -Q {COQ}/Lemmas Tealer"
    rc, out = sh(f"timeout 300 coqc {q} {gen}/ConstsGen.v 2>&1")
    res["gen_ok"] = rc == 0
    res["log"] += "\n" + out[-1500:]
    if rc == 0:
        rc, out = sh(f"timeout 900 coqc {q} -Q {lem} Scratch {lem}/ConstsGenLemmas.v 2>&1")
        res["lemmas_ok"] = rc == 0
        res["log"] += "\n" + out[-1500:]
    return res


def main():
    verbose = "-v" in sys.argv
    for f in ("Model/Keys.vo", "Gen/CfgGen.vo", "Gen/SolverGen.vo", "Lemmas/CfgGenLemmas.vo", "Lemmas/ExactInstances.vo", "Lemmas/SolverGenLemmas.vo", "Lemmas/RewriteLemmas.vo"):
        if not os.path.exists(os.path.join(COQ, f)):
            print(f"precondition: {COQ}/{f} missing -- build coq/ first (make)")
            sys.exit(3)
    top = tempfile.mkdtemp(prefix="tconsts_")
    rows = []
    ok = True
    try:
        base = run_case(os.path.join(top, "base"))
        same = None
        cur = os.path.join(COQ, "Gen", "ConstsGen.v")
        if base["text"] is not None and os.path.exists(cur):
            with open(cur, encoding="utf-8") as fh:
                same = fh.read() == base["text"]
        good = base["translator"] == "ok" and base["gen_ok"] and base["lemmas_ok"] and same is not False
        ok &= bool(good)
        rows.append(("(a) clean source", base["translator"], "= coq/Gen/ConstsGen.v" if same else ("DIFFERS from coq/Gen" if same is False else "-"), base["gen_ok"], base["lemmas_ok"], "PASS" if good else "FAIL"))
        if verbose or not good:
            print(base["log"])
        for i, (name, rel, fn, expect) in enumerate(MUTATIONS):
            r = run_case(os.path.join(top, f"m{i}"), rel, fn)
            if r["translator"] == "STOPPED":
                verdict, good, diff = "caught: translator stops", True, "-"
            elif r["translator"] == "CRASHED":
                verdict, good, diff = "FAIL: translator crashed", False, "-"
            else:
                differs = r["text"] != base["text"]
                diff = "differs" if differs else "IDENTICAL"
                if differs and r["gen_ok"] and r["lemmas_ok"] is False:
                    verdict, good = "caught: Gallina differs, lemmas break", True
                elif differs and not r["gen_ok"]:
                    verdict, good = "caught: Gallina differs, ConstsGen.v ill-typed", True
                else:
                    verdict, good = "FAIL: NOT DETECTED", False
            if good and r["translator"] != expect:
                verdict += f" (expected translator: {expect})"
            ok &= good
            rows.append((name, r["translator"], diff, r["gen_ok"], r["lemmas_ok"], verdict))
            if verbose or not good:
                print(f"--- {name}\n{r['log']}\n")
            elif r["translator"] == "STOPPED":
                print(f"--- {name}: {r['log'].splitlines()[0][:230]}")
            elif r["lemmas_ok"] is False:
                err = [l for l in r["log"].splitlines() if l.startswith("File ") and "ConstsGenLemmas" in l]
                print(f"--- {name}: coqc ConstsGenLemmas.v fails at {err[-1] if err else '?'}")
    finally:
        shutil.rmtree(top, ignore_errors=True)
    hdr = ("case", "translator", "generated Gallina", "ConstsGen.v compiles", "ConstsGenLemmas.v compiles", "verdict")
    fmt = lambda x: "-" if x is None else ("yes" if x is True else ("NO" if x is False else str(x)))  # noqa: E731
    table = [hdr] + [tuple(fmt(c) for c in r) for r in rows]
    widths = [max(len(r[i]) for r in table) for i in range(len(hdr))]
    print()
    for k, r in enumerate(table):
        print(" | ".join(c.ljust(w) for c, w in zip(r, widths)))
        if k == 0:
            print("-+-".join("-" * w for w in widths))
    print("\nRESULT:", "all mutations caught, clean source accepted" if ok else "FAILURE")
    sys.exit(0 if ok else 1)


if __name__ == "__main__":
    main()
