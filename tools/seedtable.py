"""Rewrites the seeded-change table of DESIGN.md (between the SEEDS-TABLE markers) from seeded/*/meta.json + matrix.txt."""
import json, os, re
ROOT = os.path.dirname(os.path.dirname(os.path.abspath(__file__)))
rows = []
for name in sorted(os.listdir(os.path.join(ROOT, "seeded"))):
    d = os.path.join(ROOT, "seeded", name)
    mp = os.path.join(d, "meta.json")
    if not os.path.exists(mp):
        continue
    meta = json.load(open(mp))
    caught, how = [], ""
    mx = os.path.join(d, "matrix.txt")
    if os.path.exists(mx):
        for line in open(mx):
            m = re.match(r"(C\d+) exit=(\d+) ?(.*)", line.strip())
            if m and m.group(2) != "0":
                caught.append(m.group(1) + ("*" if "no-failing-input-found" in m.group(3) else ""))
    own = meta["breaks_property"]
    own_hit = any(c.rstrip("*") == own for c in caught)
    rows.append(f"| `{name}` | {own} | {meta['change']} | {meta['needs_to_manifest']} | {'yes' if own_hit else ('NO' if os.path.exists(mx) else 'pending')} | {' '.join(caught) if caught else '-'} |")
table = ("| seed | property | change | needs | own check catches | all checks that fail (`*` = correspondence/proof break without concrete replay) |\n|---|---|---|---|---|---|\n"
         + "\n".join(rows))
p = os.path.join(ROOT, "DESIGN.md")
s = open(p).read()
s = re.sub(r"<!-- SEEDS-TABLE -->.*?(?=\n-{20,})", "<!-- SEEDS-TABLE -->\n" + table + "\n", s, flags=re.S)
open(p, "w").write(s)
print(len(rows), "rows")
