#!/venv/bin/python
"""Statement-by-statement translation of the constraint initialisation of tealer's dataflow analysis into Gallina
(Gen/ConstraintsGen.v).

Translated (read with `ast` only, never imported), both from analyses/dataflow/transaction_context/generic.py:
  DataflowTransactionContext._block_level_constraints -> block_level_constraints_gen
  DataflowTransactionContext._path_level_constraints  -> path_level_constraints_gen
The hand-written counterparts are Model/Analysis.v (Section Domain): block_constraint and edge_constraint;
Lemmas/ConstraintsGenLemmas.v proves generated = hand-written.

Reading of Python in Gallina.  The exception monad (`py A := option A`, ret, bind, ifE, andE, notE), the reads
`v.instruction`, `v.args[k]`, isinstance(v, UnknownStackValue) and the pair returned by is_int_push_ins are those of the
fixed prelude of Gen/KeysGen.v; the block graph (block.next, next_blocks_global) is read through the glue table of
Gen/GraphGen.v; self._get_asserted(key, v) is the regenerated get_asserted_gen of Gen/AssertedGen.v (with the recursion
budget `fuel`); all imported, not repeated.  In addition:
  * ONE KEY.  The two Python functions loop over `analysis_keys` and write into the dictionaries
    self._block_contexts[key][block] / self._path_contexts[key][succ][block]; the model has one domain instance per key.
    `for key in analysis_keys: body` is read as `body`, executed once for the key of the domain instance (the own key:
    the `key` argument of every self._xxx(key, ..) call and the first subscript of the two dictionaries must be that
    very `key`; the variables bound in the body are not visible after the loop).  This is the slice of the loop for a
    key that occurs exactly once in analysis_keys (run_analysis passes pairwise distinct keys); an exception raised
    by the iteration of ANOTHER key is not part of the slice.
  * STATE.  _block_level_constraints: the dictionary cell self._block_contexts[key][block] is the state variable `cell`
    (a read before the first write in the call is refused by the translator: KeyError); the translated function RETURNS
    the final value of the cell.  _path_level_constraints: the entries self._path_contexts[key][..][block] written for
    the predecessor `block` are the state variable `paths : pstate` = (first-level entries created in this call, list
    of (successor, value) in ASSIGNMENT ORDER); `path_context = self._path_contexts[key]` is an alias of the same
    dictionary object (no Gallina binding); `if b not in path_context: path_context[b] = {}` (accepted in this exact
    form only: an unguarded `path_context[b] = {}` would erase the entries of the other predecessors) is path_ensure;
    `path_context[b][block] = v` and `self._path_contexts[key][b][block] = v` are path_set (KeyError = None when the
    first-level entry was not created in this call: conservative, an entry created by the call for another predecessor
    is not visible in the per-call reading).  The translated function RETURNS the list of writes (path_writes); a later
    write to the same successor overwrites an earlier one: the dictionary read path_context[succ][block] is
    last_write (KeyError = None when nothing was written: self._path_contexts is a defaultdict(dict), its second and
    third levels are plain dicts).
  * an Instruction object is the pair (id of its block = Instruction.bb, position in fn_prog f); block.instructions,
    block.exit_instr, isinstance(ins, C), ins.next, get_stack_value_for_ins(ins), is_int_push_ins(i) go through the
    fixed, fingerprinted glue table of the prelude below.
  * `for x in e: body` over a list is a fold whose state is the state variable; `continue` ends the iteration (in the
    body of a key loop: goes to what follows the loop); a bare `return` returns the state.
  * what follows an `if` is duplicated into the branches that fall through (as in translate_keys.py / translate_graph.py).
  * a variable that is assigned None somewhere (`default_branch`) has type Optional[BasicBlock] = option nat: a block
    assigned to it is wrapped in Some; `if x is not None:` narrows it (a match).
  * the abstract methods of DataflowTransactionContext are the Section parameters univ, null, union, inter, single (as
    in translate_asserted.py); a function that uses one member of a group of same-typed parameters (univ / null,
    union / inter) takes the whole group (a dead `let`, tcommon.pin_twins), so that writing one for the other cannot
    become a mere renaming of a parameter of the discharged function.

Fail-closed: every statement kind, expression kind, attribute name, call name and variable type that is not whitelisted
below raises TranslateError; the helper functions / properties the glue table stands for are fingerprinted.
"""
import ast
import hashlib
import os
import sys

from tcommon import TranslateError, fail, parse, strip_doc, pin_twins, T
from translate_keys import check_imports, check_no_subclasses, indent, same_text
from translate_asserted import (
    seq,
    as_monadic,
    find_class,
    bound_names,
    is_self_call,
    need_origin,
    check_methods,
    check_no_override,
    DOMAIN_METHODS,
)

GEN_REL = "analyses/dataflow/transaction_context/generic.py"
TC_DIR = "analyses/dataflow/transaction_context"
BB_REL = "teal/basic_blocks.py"
INS_REL = "teal/instructions/instructions.py"
SB_REL = "analyses/utils/stack_ast_builder.py"
UA_REL = "utils/analyses.py"
PT_REL = "teal/parse_teal.py"
PF_REL = "teal/parse_functions.py"
INS_MODULE = "tealer.teal.instructions.instructions"
SB_MODULE = "tealer.analyses.utils.stack_ast_builder"
UA_MODULE = "tealer.utils.analyses"

# ----------------------------------------------------------------------------- types of the little typed language
BLK, OPTBLK, LBLK, INSN, LINSN, LPOS, VAL, OP, BOOL, DOM, PAIR, INTVAL, INT, PCTX, FUNC = (
    "block", "optblock", "list block", "insn", "list insn", "list pos", "sval", "instr", "bool", "T", "(T * T)", "intres", "int",
    "pathctx", "func",
)  # fmt: skip
ELEM = {LBLK: BLK, LINSN: INSN}

# python instruction class -> constructor pattern of Model/Syntax.instr
CLASS_PATTERNS = {
    "Assert": "IAssert",
    "Return": "IReturn",
    "BZ": "IBZ _",
    "BNZ": "IBNZ _",
    "Err": "IErr",
    "TealerCustomErrInstruction": "ICustomErr",
}
# (attribute, type of the object) -> (glue function, type of the result); every glue function takes `f` first
ATTRS = {
    ("instructions", BLK): ("attr_instructions", LINSN),
    ("exit_instr", BLK): ("attr_exit_instr", INSN),
    ("next", BLK): ("attr_next", LBLK),  # Gen/GraphGen.v
    ("next", INSN): ("attr_ins_next", LPOS),
}
STATE = {"block": "cell", "path": "paths"}
GEN_NAME = {"block": "block_level_constraints_gen", "path": "path_level_constraints_gen"}

# Python text (docstrings stripped, layout normalised) of everything the glue table stands for; long functions by the
# sha256 of that text
FINGERPRINTS = [
    (BB_REL, "BasicBlock", "instructions", "@property\ndef instructions(self) -> List[Instruction]:\n    return self._instructions"),
    (BB_REL, "BasicBlock", "exit_instr", "@property\ndef exit_instr(self) -> Instruction:\n    return self._instructions[-1]"),
    (BB_REL, "BasicBlock", "next", "@property\ndef next(self) -> List['BasicBlock']:\n    return self._next"),
    (BB_REL, "BasicBlock", "add_instruction", "def add_instruction(self, instruction: Instruction) -> None:\n    self._instructions.append(instruction)"),
    (INS_REL, "Instruction", "next", "@property\ndef next(self) -> List['Instruction']:\n    return self._next"),
    (INS_REL, "Instruction", "add_next", "def add_next(self, next_ins: 'Instruction') -> None:\n    self._next.append(next_ins)"),
    (
        INS_REL, "Instruction", "bb",
        "@property\ndef bb(self) -> 'BasicBlock':\n    if self._bb is None:\n"
        "        raise TealerException(f'Instruction.bb is not initialized: {str(self)}')\n    return self._bb",
    ),
    (SB_REL, None, "get_stack_value_for_ins", "def get_stack_value_for_ins(ins: 'Instruction') -> KnownStackValue:\n    return construct_stack_ast(ins.bb)[ins]"),
    (
        SB_REL, "KnownStackValue", "__init__",
        "def __init__(self, ins: Instruction, args: List, ins_out_values_index: int=0) -> None:\n    self._ins = ins\n"
        "    self._args: List[Union[KnownStackValue, UnknownStackValue]] = args\n    self._ins_out_values_index = ins_out_values_index",
    ),
    (SB_REL, "KnownStackValue", "instruction", "@property\ndef instruction(self) -> Instruction:\n    return self._ins"),
    (SB_REL, "KnownStackValue", "args", "@property\ndef args(self) -> List[Union['KnownStackValue', UnknownStackValue]]:\n    return self._args"),
    (SB_REL, None, "construct_stack_ast", "sha256:9ebe87a2ca71ada220f97d5ed2d41fbfd9728be856580c15a74b92461f370562"),
    (UA_REL, None, "is_int_push_ins", "sha256:b7382bd4a2f37dcaa3ecd33c9d93f7403327e6473aa81f26fde9c15074973717"),
    (PT_REL, None, "first_pass", "sha256:bf4fdfb6436645a658cabd1758137e351291274b9ca3d916d35dafa33b1cc99a"),
    (
        PT_REL, None, "second_pass",
        "def second_pass(instructions: List[Instruction], labels: Dict[str, Label]) -> None:\n    logger_parsing.debug('Second Pass')\n"
        "    for ins in instructions:\n        if isinstance(ins, (B, BZ, BNZ)):\n            ins.add_next(labels[ins.label])\n"
        "            labels[ins.label].add_prev(ins)\n        if isinstance(ins, (Switch, Match)):\n            for ins_label in ins.labels:\n"
        "                ins.add_next(labels[ins_label])\n                labels[ins_label].add_prev(ins)",
    ),
    (PT_REL, None, "create_bb", "sha256:f7140e4ba1ed62cc6196aaaaee6552638661046c67cf77099d8504251c69f657"),
    (PF_REL, None, "construct_function", "sha256:d3ea9a0257d201f7b556ad194ce7cbcc9117a217fd28c2cffc52ade45aca8321"),
    (PF_REL, None, "copy_main_cfg", "sha256:8f81c84419eeeff8a61c8efb74c12626e8e04c620f6b0c1b459e28f0c4741ef7"),
]
# statements of DataflowTransactionContext.__init__ behind the two dictionaries and self._function
INIT_STATEMENTS = [
    "self._function: 'Function' = function",
    "self._block_contexts: Dict[str, Dict['BasicBlock', Any]] = defaultdict(dict)",
    "self._path_contexts: Dict[str, Dict['BasicBlock', Dict['BasicBlock', Any]]] = defaultdict(dict)",
]

RESERVED = {
    "f", "fuel", "acc", "st", "l", "k", "T", "univ", "null", "union", "inter", "single", "ret", "bind", "py", "ifE", "notE", "andE", "orE",
    "assertE", "subscript", "subscript_last", "opt_is_some", "cell", "paths", "pstate", "path_init", "path_ensure", "path_set",
    "path_writes", "last_write", "insn", "ins_op", "src_line", "attr_instructions", "attr_exit_instr", "attr_next", "attr_ins_next",
    "attr_instruction", "attr_args", "isinstance_UnknownStackValue", "call_get_stack_value_for_ins", "call_is_int_push_ins",
    "intres_pushes", "intval_eq", "get_asserted_gen", "next_blocks_global_gen", "block_level_constraints_gen",
    "path_level_constraints_gen", "fold_left", "fst", "snd", "negb", "andb", "orb", "true", "false", "nil", "cons", "app", "length",
    "Some", "None", "O", "S", "func", "nat", "bool", "string", "list", "option", "fblock", "pair", "map",
    "in", "at", "as", "fun", "let", "match", "end", "if", "then", "else", "return", "with", "forall", "exists", "fix", "cofix", "for",
    "where", "using", "Type", "Prop", "Set", "SProp", "struct", "key", "self", "block", "analysis_keys",
}  # fmt: skip

PRELUDE = r"""
(* ====================================================================== *)
(* PRELUDE (fixed text): the glue table.  The exception monad and the stack-value reads are those of          *)
(* Gen/KeysGen.v, the block graph is read through Gen/GraphGen.v, _get_asserted is Gen/AssertedGen.v.          *)
(* ====================================================================== *)
(* How the instructions are read.  The model represents the Function under analysis by f : Analysis.func; the program
   text of the function is fn_prog f: the contract's source lines followed by the TealerCustomErr instructions
   construct_function created for the err blocks of the function (Model/Group.v).
     - an Instruction object is the pair (id of the block it belongs to, position in fn_prog f).  Instruction.bb is set
       by create_bb / add_instruction when the instruction is added to its block, and block.instructions lists the
       instructions added to the block, in order: the positions Cfg.b_ins of the block.
     - the class of the object is the constructor of the instruction at that position (op_at); a position outside
       fn_prog f is a dangling reference: None.
   The Python text of every property / function named below is fingerprinted by tools/translate_constraints.py. *)
Definition insn : Type := (nat * nat)%type.

(* block.instructions = self._instructions *)
Definition attr_instructions (f : func) (b : nat) : py (list insn) :=
  option_map (fun x => map (pair b) (b_ins x)) (fblock f b).
(* block.exit_instr = self._instructions[-1]: IndexError on a block without instructions (Analysis.fexit_op reads the
   same position) *)
Definition attr_exit_instr (f : func) (b : nat) : py insn :=
  bind (fblock f b) (fun x => match b_ins x with [] => None | l => Some (b, List.last l 0) end).
(* the class of an Instruction object, for isinstance(ins, C); the classes have no subclasses (checked) *)
Definition ins_op (f : func) (i : insn) : py instr := op_at (fn_prog f) (snd i).
(* ins.next (Instruction.next), as positions.  first_pass links every line that is not b / err / return / retsub to
   the next SOURCE line, second_pass appends the label targets (labels[ins.label], KeyError for an undefined label):
   Cfg.ins_next on the source text.  The TealerCustomErr instructions construct_function appends to the text of a
   function are not source lines ("instruction edges are not changed here"): the next position is a successor only when
   it holds a source line. *)
Definition src_line (p : prog) (k : nat) : bool :=
  match op_at p k with Some ICustomErr => false | Some _ => true | None => false end.
Definition attr_ins_next (f : func) (i : insn) : py (list nat) :=
  let p := fn_prog f in
  let k := snd i in
  bind (op_at p k) (fun o =>
  bind (map_opt (find_label p) (jump_labels o)) (fun js =>
  ret ((if negb (no_fallthrough o) && src_line p (S k) then [S k] else []) ++ js))).
(* get_stack_value_for_ins(ins) = construct_stack_ast(ins.bb)[ins]: the stack emulation of the block of the
   instruction (StackAst.emulate over its positions, from the empty known stack; an exception of the emulation is an
   exception of the call), a dictionary keyed by the instruction objects -- a later entry of the same key replaces
   an earlier one: the LAST entry of the position; KeyError when there is none.  The value stored is
   KnownStackValue(ins, ins_in_values) (ins_out_values_index = 0). *)
Definition call_get_stack_value_for_ins (f : func) (i : insn) : py sval :=
  bind (fblock f (fst i)) (fun x =>
  bind (emulate (fn_prog f) (b_ins x) []) (fun ast =>
  match find (fun e => Nat.eqb (fst (fst e)) (snd i)) (rev ast) with
  | Some (k, o, args) => Some (SKnown o k args 0)
  | None => None
  end)).
(* is_int_push_ins(i) stays hand-written (Model/Keys.v, as in Gen/KeysGen.v); ins.bb.teal.get_int_constant reads the
   contract's intcblock: fn_intcs f *)
Definition call_is_int_push_ins (f : func) (i : instr) : intres := is_int_push_ins (fn_intcs f) i.
(* `value == n` on the second component of is_int_push_ins (None, an int or a str): True only for the int n *)
Definition intval_eq (r : intres) (n : N) : bool := match r with IntNum m => N.eqb m n | _ => false end.
(* l[-1]: IndexError on the empty list *)
Fixpoint subscript_last {A : Type} (l : list A) : py A :=
  match l with [] => None | [x] => Some x | _ :: t => subscript_last t end.
"""

SECTION_HEAD = r"""
(* the abstract methods of DataflowTransactionContext for one analysis key and the function under analysis (same
   parameters as Model/Analysis.v, Section Domain) *)
Section ConstraintsGen.
  Variable T : Type.
  Variable univ null : T.
  Variable union inter : T -> T -> T.
  Variable single : instr -> nat -> list sval -> T * T.
  Variable f : func.

  (* self._path_contexts[key] as far as ONE call of _path_level_constraints(.., block) touches it: the first-level
     entries path_context[b] the call created, and the values it stored in path_context[b][block], in assignment order *)
  Definition pstate : Type := (list nat * list (nat * T))%type.
  Definition path_init : pstate := ([], []).
  (* if b not in path_context: path_context[b] = {} *)
  Definition path_ensure (s : pstate) (b : nat) : pstate := if nat_mem b (fst s) then s else (fst s ++ [b], snd s).
  (* path_context[b][block] = v: KeyError unless path_context[b] exists *)
  Definition path_set (s : pstate) (b : nat) (v : T) : py pstate :=
    if nat_mem b (fst s) then Some (fst s, snd s ++ [(b, v)]) else None.
  Definition path_writes (s : pstate) : list (nat * T) := snd s.
  (* the read path_context[succ][block] after the call: the LAST value written for succ, KeyError when none was *)
  Definition last_write (w : list (nat * T)) (succ : nat) : py T :=
    fold_left (fun acc e => if Nat.eqb (fst e) succ then Some (snd e) else acc) w None.
"""


# ----------------------------------------------------------------------------- environment
class Env:
    def __init__(self, path, kind, imports, optvars):
        self.path = path
        self.kind = kind  # "block" | "path"
        self.imports = imports
        self.optvars = optvars
        self.vars = {"block": BLK}  # python name -> type (the Coq name is the Python name)
        self.counter = [0]
        self.in_key = False  # inside the body of `for key in analysis_keys`
        self.in_fold = False
        self.on_continue = None  # env -> term
        self.fold_outer = frozenset()  # inside a fold: the variables bound before it
        self.assigned = kind == "path"  # the state variable has a value

    def child(self, **new):
        e = Env(self.path, self.kind, self.imports, self.optvars)
        e.vars = dict(self.vars)
        e.counter = self.counter
        e.in_key, e.in_fold, e.on_continue, e.assigned = self.in_key, self.in_fold, self.on_continue, self.assigned
        e.fold_outer = self.fold_outer
        e.vars.update(new)
        return e

    def fresh(self):
        self.counter[0] += 1
        return f"tmp{self.counter[0]}"


def is_self_attr(e, name=None):
    return isinstance(e, ast.Attribute) and isinstance(e.value, ast.Name) and e.value.id == "self" and (name is None or e.attr == name)


def is_name(e, n):
    return isinstance(e, ast.Name) and e.id == n


def own_key(env, e):
    return env.in_key and is_name(e, "key") and "key" not in env.vars


def is_none(e):
    return isinstance(e, ast.Constant) and e.value is None


def is_cell(env, e):
    """self._block_contexts[key][block]"""
    return (
        env.kind == "block"
        and isinstance(e, ast.Subscript)
        and isinstance(e.value, ast.Subscript)
        and is_self_attr(e.value.value, "_block_contexts")
        and own_key(env, e.value.slice)
        and is_name(e.slice, "block")
    )


def path_dict(env, e):
    """self._path_contexts[key] or an alias of it"""
    if env.kind != "path":
        return False
    if isinstance(e, ast.Subscript) and is_self_attr(e.value, "_path_contexts") and own_key(env, e.slice):
        return True
    return isinstance(e, ast.Name) and env.vars.get(e.id) == PCTX and env.in_key


def path_entry(env, e):
    """<path dict>[X][block] -> X, else None"""
    if isinstance(e, ast.Subscript) and isinstance(e.value, ast.Subscript) and path_dict(env, e.value.value) and is_name(e.slice, "block"):
        return e.value.slice
    return None


def int_const(e):
    if isinstance(e, ast.Constant) and isinstance(e.value, int) and not isinstance(e.value, bool):
        return e.value
    if isinstance(e, ast.UnaryOp) and isinstance(e.op, ast.USub) and isinstance(e.operand, ast.Constant) and isinstance(e.operand.value, int) and not isinstance(e.operand.value, bool):
        return -e.operand.value
    return None


# ----------------------------------------------------------------------------- expressions
def expr(env, e):
    """-> (term, type, pure)"""
    p = env.path
    if isinstance(e, ast.Constant):
        if e.value is True:
            return "true", BOOL, True
        if e.value is False:
            return "false", BOOL, True
        if e.value is None:
            return "(@None nat)", OPTBLK, True
        if isinstance(e.value, int) and not isinstance(e.value, bool) and e.value >= 0:
            return str(e.value), INT, True
        fail(p, e, "constant " + ast.unparse(e))
    if isinstance(e, ast.Name):
        if e.id in env.vars:
            ty = env.vars[e.id]
            if ty == PCTX:
                fail(p, e, f"the dictionary alias {e.id} used as a value")
            return e.id, ty, True
        fail(p, e, f"unknown name {e.id}")
    if is_cell(env, e):
        if not env.assigned:
            fail(p, e, "self._block_contexts[key][block] is read before it is assigned in this call (KeyError)")
        return STATE["block"], DOM, True
    if isinstance(e, ast.Attribute):
        if is_self_attr(e):
            fail(p, e, "attribute of self " + ast.unparse(e))
        t, ty, pure = expr(env, e.value)
        if e.attr == "instruction" and ty == VAL:
            out, _ = seq(env, [(t, pure)], lambda a: f"(attr_instruction {a})", monadic_result=True)
            return out, OP, False
        if (e.attr, ty) not in ATTRS:
            fail(p, e, f"attribute .{e.attr} of a value of type {ty}")
        g, rty = ATTRS[(e.attr, ty)]
        out, _ = seq(env, [(t, pure)], lambda a: f"({g} f {a})", monadic_result=True)
        return out, rty, False
    if isinstance(e, ast.Subscript):
        k = int_const(e.slice)
        if k is None:
            fail(p, e, "subscript " + ast.unparse(e))
        # x.args[k]
        if isinstance(e.value, ast.Attribute) and e.value.attr == "args":
            t, ty, pure = expr(env, e.value.value)
            if ty != VAL or k < 0:
                fail(p, e, f".args[{k}] of a value of type {ty}")
            out, _ = seq(env, [(t, pure)], lambda a: f"(bind (attr_args {a}) (fun l => subscript l {k}))", monadic_result=True)
            return out, VAL, False
        t, ty, pure = expr(env, e.value)
        if ty not in ELEM:
            fail(p, e, f"subscript of a value of type {ty}")
        if k >= 0:
            out, _ = seq(env, [(t, pure)], lambda a: f"(subscript {a} {k})", monadic_result=True)
        elif k == -1:
            out, _ = seq(env, [(t, pure)], lambda a: f"(subscript_last {a})", monadic_result=True)
        else:
            fail(p, e, "negative subscript " + ast.unparse(e))
        return out, ELEM[ty], False
    if isinstance(e, ast.UnaryOp):
        if isinstance(e.op, ast.Not):
            t, ty, pure = expr(env, e.operand)
            if ty != BOOL:
                fail(p, e, f"`not` of a value of type {ty} (truthiness of a non-boolean is not translated)")
            return (f"(negb {t})" if pure else f"(notE {t})"), BOOL, pure
        fail(p, e, "unary operator " + ast.unparse(e))
    if isinstance(e, ast.BoolOp):
        parts = [expr(env, v) for v in e.values]
        for (_, ty, _), v in zip(parts, e.values):
            if ty != BOOL:
                fail(p, v, f"operand of and/or of type {ty} (truthiness of a non-boolean is not translated)")
        allpure = all(pure for _, _, pure in parts)
        if isinstance(e.op, ast.And):
            fn = "andb" if allpure else "andE"
        elif isinstance(e.op, ast.Or):
            fn = "orb" if allpure else "orE"
        else:
            fail(p, e, "boolean operator")
        terms = [t if allpure else as_monadic(t, pure) for t, _, pure in parts]
        out = terms[-1]
        for t in reversed(terms[:-1]):
            out = f"({fn} {t} {out})"
        return out, BOOL, allpure
    if isinstance(e, ast.Compare):
        if len(e.ops) != 1:
            fail(p, e, "comparison chain " + ast.unparse(e))
        op, rhs = e.ops[0], e.comparators[0]
        if isinstance(op, (ast.Is, ast.IsNot)):
            if not is_none(rhs):
                fail(p, e, "`is` with something else than None")
            t, ty, pure = expr(env, e.left)
            if ty == BLK and pure:
                # a BasicBlock object is not None
                return ("true" if isinstance(op, ast.IsNot) else "false"), BOOL, True
            if ty != OPTBLK:
                fail(p, e, f"`is None` test of a value of type {ty}")
            build = (lambda a: f"(opt_is_some {a})") if isinstance(op, ast.IsNot) else (lambda a: f"(negb (opt_is_some {a}))")
            out, pure2 = seq(env, [(t, pure)], build)
            return out, BOOL, pure2
        l, lty, lp = expr(env, e.left)
        if lty == INTVAL:
            n = int_const(rhs)
            if not isinstance(op, ast.Eq) or n is None or n < 0:
                fail(p, e, "comparison of the value of is_int_push_ins: only `== <literal>` is translated: " + ast.unparse(e))
            out, pure = seq(env, [(l, lp)], lambda a: f"(intval_eq {a} {n}%N)")
            return out, BOOL, pure
        r, rty, rp = expr(env, rhs)
        if lty == rty == INT:
            build = {
                ast.Eq: lambda a, b: f"(Nat.eqb {a} {b})",
                ast.NotEq: lambda a, b: f"(negb (Nat.eqb {a} {b}))",
                ast.Gt: lambda a, b: f"(Nat.ltb {b} {a})",
                ast.Lt: lambda a, b: f"(Nat.ltb {a} {b})",
                ast.GtE: lambda a, b: f"(Nat.leb {b} {a})",
                ast.LtE: lambda a, b: f"(Nat.leb {a} {b})",
            }.get(type(op))
        elif lty == rty == BLK and isinstance(op, (ast.Eq, ast.NotEq)):
            build = (lambda a, b: f"(Nat.eqb {a} {b})") if isinstance(op, ast.Eq) else (lambda a, b: f"(negb (Nat.eqb {a} {b}))")
        else:
            build = None
        if build is None:
            fail(p, e, f"comparison {ast.unparse(e)} of values of types {lty}, {rty}")
        out, pure = seq(env, [(l, lp), (r, rp)], build)
        return out, BOOL, pure
    if isinstance(e, ast.Call):
        return call(env, e)
    fail(p, e, "expression " + ast.unparse(e)[:60])


def call(env, e):
    p = env.path
    if e.keywords:
        fail(p, e, "keyword arguments " + ast.unparse(e)[:60])
    if is_self_call(e):
        m = e.func.attr
        if not e.args or not own_key(env, e.args[0]):
            fail(p, e, "method call whose first argument is not the `key` of the enclosing `for key in analysis_keys`: " + ast.unparse(e)[:60])
        args = e.args[1:]
        if m in DOMAIN_METHODS:
            coq, n = DOMAIN_METHODS[m]
            if len(args) != n:
                fail(p, e, f"self.{m} with {len(args)} arguments after key")
            parts = [expr(env, a) for a in args]
            for (_, ty, _), a in zip(parts, args):
                if ty != DOM:
                    fail(p, a, f"argument of self.{m} of type {ty}")
            if n == 0:
                return coq, DOM, True
            out, pure = seq(env, [(t, pu) for t, _, pu in parts], lambda *a: f"({coq} " + " ".join(a) + ")")
            return out, DOM, pure
        if m == "_get_asserted" and len(args) == 1:
            t, ty, pure = expr(env, args[0])
            if ty != VAL:
                fail(p, e, f"self._get_asserted of a value of type {ty}")
            out, _ = seq(env, [(t, pure)], lambda a: f"(get_asserted_gen T univ null union inter single fuel {a})", monadic_result=True)
            return out, PAIR, False
        fail(p, e, "method call " + ast.unparse(e)[:60])
    if not isinstance(e.func, ast.Name):
        fail(p, e, "call " + ast.unparse(e)[:60])
    fn = e.func.id
    if fn in env.vars:
        fail(p, e, f"call of the local variable {fn}")
    if fn == "isinstance" and len(e.args) == 2 and "isinstance" not in env.imports:
        t, ty, pure = expr(env, e.args[0])
        c = e.args[1]
        if ty == VAL and is_name(c, "UnknownStackValue"):
            need_origin(env, c, c.id, {SB_MODULE + "." + c.id})
            out, pure2 = seq(env, [(t, pure)], lambda a: f"(isinstance_UnknownStackValue {a})")
            return out, BOOL, pure2
        if ty == INSN:
            names = [c] if isinstance(c, ast.Name) else (list(c.elts) if isinstance(c, ast.Tuple) and c.elts else None)
            if names is None or not all(isinstance(x, ast.Name) and x.id in CLASS_PATTERNS and x.id not in env.vars for x in names):
                fail(p, e, "isinstance class argument " + ast.unparse(c))
            for x in names:
                need_origin(env, x, x.id, {INS_MODULE + "." + x.id})
            pats = " | ".join(CLASS_PATTERNS[x.id] for x in names)
            opt, _ = seq(env, [(t, pure)], lambda a: f"(ins_op f {a})", monadic_result=True)
            out, _ = seq(env, [(opt, False)], lambda a: f"(match {a} with {pats} => true | _ => false end)")
            return out, BOOL, False
        fail(p, e, f"isinstance of a value of type {ty} with {ast.unparse(c)}")
    if fn == "len" and len(e.args) == 1 and "len" not in env.imports:
        t, ty, pure = expr(env, e.args[0])
        if not ty.startswith("list "):
            fail(p, e, f"len of a value of type {ty}")
        out, pure2 = seq(env, [(t, pure)], lambda a: f"(length {a})")
        return out, INT, pure2
    if fn == "get_stack_value_for_ins" and len(e.args) == 1:
        need_origin(env, e, fn, {SB_MODULE + "." + fn})
        t, ty, pure = expr(env, e.args[0])
        if ty != INSN:
            fail(p, e, f"get_stack_value_for_ins of a value of type {ty}")
        out, _ = seq(env, [(t, pure)], lambda a: f"(call_get_stack_value_for_ins f {a})", monadic_result=True)
        return out, VAL, False
    if fn == "next_blocks_global" and len(e.args) == 2:
        need_origin(env, e, fn, {UA_MODULE + "." + fn})
        if not is_self_attr(e.args[0], "_function"):
            fail(p, e, "next_blocks_global of a function that is not self._function")
        t, ty, pure = expr(env, e.args[1])
        if ty != BLK:
            fail(p, e, f"next_blocks_global of a value of type {ty}")
        out, _ = seq(env, [(t, pure)], lambda a: f"(next_blocks_global_gen f {a})", monadic_result=True)
        return out, LBLK, False
    fail(p, e, "call " + ast.unparse(e)[:60])


# ----------------------------------------------------------------------------- statements
def check_name(env, name, node):
    if name in RESERVED or name.startswith("tmp") or name in CLASS_PATTERNS or name == "UnknownStackValue":
        fail(env.path, node, f"variable name {name} is reserved by the translator")
    if not name.isidentifier() or not name.isascii():
        fail(env.path, node, f"variable name {name}")


def bind_var(env, name, node, t, ty, pure, rest_of):
    """`name = <t>`; a re-assignment must keep the type of the variable; Optional variables wrap blocks in Some"""
    check_name(env, name, node)
    if name in env.optvars:
        if ty == BLK:
            if pure:
                t = f"(Some {t})"
            else:
                v = env.fresh()
                t = f"(bind {t} (fun {v} => (ret (Some {v}))))"
            ty = OPTBLK
        elif ty != OPTBLK:
            fail(env.path, node, f"assignment of a value of type {ty} to the Optional variable {name}")
    elif ty in (OPTBLK, FUNC, PCTX):
        fail(env.path, node, f"assignment of a value of type {ty} to {name}")
    if env.in_fold and name in env.fold_outer:
        fail(env.path, node, f"loop body re-binds the variable {name} bound before the loop")
    if name in env.vars and env.vars[name] != ty:
        fail(env.path, node, f"re-assignment of {name} changes its type from {env.vars[name]} to {ty}")
    rest = rest_of(env.child(**{name: ty}))
    if pure:
        return f"(let {name} := {t} in\n{rest})"
    return f"(bind {t} (fun {name} =>\n{rest}))"


def end_term(env, node):
    """the function returns the state"""
    if env.in_fold:
        fail(env.path, node, "return in a loop over a list")
    if env.kind == "block":
        if not env.assigned:
            fail(env.path, node, "the function can end before self._block_contexts[key][block] is assigned")
        return f"(ret {STATE['block']})"
    return f"(ret (path_writes {STATE['path']}))"


def set_state(env, t, pure, rest_of):
    """state := t (block: a T; path: a pstate)"""
    s = STATE[env.kind]
    env2 = env.child()
    env2.assigned = True
    rest = rest_of(env2)
    if pure:
        return f"(let {s} := {t} in\n{rest})"
    return f"(bind {t} (fun {s} =>\n{rest}))"


def is_ensure(env, st):
    """if b not in path_context: path_context[b] = {}  -> the expression b, else None"""
    if not (isinstance(st, ast.If) and not st.orelse and len(strip_doc(st.body)) == 1):
        return None
    t, a = st.test, strip_doc(st.body)[0]
    if not (isinstance(t, ast.Compare) and len(t.ops) == 1 and isinstance(t.ops[0], ast.NotIn) and path_dict(env, t.comparators[0])):
        return None
    if not (
        isinstance(a, ast.Assign)
        and len(a.targets) == 1
        and isinstance(a.targets[0], ast.Subscript)
        and path_dict(env, a.targets[0].value)
        and isinstance(a.value, ast.Dict)
        and not a.value.keys
        and ast.dump(a.targets[0].slice) == ast.dump(t.left)
    ):
        return None
    return t.left


def not_none_test(e):
    """`x is not None` -> x (a Name), else None"""
    if isinstance(e, ast.Compare) and len(e.ops) == 1 and isinstance(e.ops[0], ast.IsNot) and isinstance(e.left, ast.Name) and is_none(e.comparators[0]):
        return e.left.id
    return None


FORBIDDEN = (ast.While, ast.Try, ast.With, ast.FunctionDef, ast.AsyncFunctionDef, ast.Lambda, ast.NamedExpr, ast.AugAssign, ast.Delete, ast.Global, ast.Nonlocal, ast.ListComp, ast.GeneratorExp, ast.SetComp, ast.DictComp, ast.Yield, ast.YieldFrom, ast.Raise, ast.Break, ast.Await, ast.ClassDef, ast.Import, ast.ImportFrom, ast.Starred, ast.IfExp, ast.Assert)


def block(env, stmts, fall):
    """stmts: statement list; fall: env -> term for what follows the block.  Returns a term of type py R."""
    p = env.path
    stmts = strip_doc(stmts)
    if not stmts:
        return fall(env)
    st, rest = stmts[0], stmts[1:]
    rest_of = lambda env2: block(env2, rest, fall)  # noqa: E731
    if isinstance(st, ast.Pass):
        return rest_of(env)
    if isinstance(st, ast.Return):
        if rest:
            fail(p, rest[0], "statement after return")
        if st.value is not None:
            fail(p, st, "return of a value (the functions return None)")
        return end_term(env, st)
    if isinstance(st, ast.Continue):
        if rest:
            fail(p, rest[0], "statement after continue")
        if env.on_continue is None:
            fail(p, st, "continue outside a loop")
        return env.on_continue(env)
    if isinstance(st, ast.Assign):
        if len(st.targets) != 1:
            fail(p, st, "chained assignment")
        tg, v = st.targets[0], st.value
        if isinstance(tg, ast.Name):
            if path_dict(env, v) and not isinstance(v, ast.Name):
                # path_context = self._path_contexts[key]: an alias of the dictionary object
                check_name(env, tg.id, st)
                if tg.id in env.vars or tg.id in env.optvars:
                    fail(p, st, f"the dictionary alias {tg.id} re-binds a variable")
                return rest_of(env.child(**{tg.id: PCTX}))
            if env.vars.get(tg.id) == PCTX:
                fail(p, st, f"re-assignment of the dictionary alias {tg.id}")
            t, ty, pure = expr(env, v)
            return bind_var(env, tg.id, st, t, ty, pure, rest_of)
        if isinstance(tg, ast.Tuple) and len(tg.elts) == 2 and all(isinstance(x, ast.Name) for x in tg.elts):
            names = [x.id for x in tg.elts]
            if names[0] == names[1] and names[0] != "_":
                fail(p, st, "tuple assignment " + ast.unparse(st)[:60])
            # is_int, value = is_int_push_ins(<instruction>)
            if isinstance(v, ast.Call) and is_name(v.func, "is_int_push_ins") and "is_int_push_ins" not in env.vars and not v.keywords and len(v.args) == 1:
                need_origin(env, v, "is_int_push_ins", {UA_MODULE + ".is_int_push_ins"})
                if "_" in names:
                    fail(p, st, "is_int_push_ins destructured into `_`")
                t, ty, pure = expr(env, v.args[0])
                if ty != OP:
                    fail(p, st, f"is_int_push_ins of a value of type {ty}")
                c, cpure = seq(env, [(t, pure)], lambda a: f"(call_is_int_push_ins f {a})")
                flag, val = names
                return bind_var(env, val, st, c, INTVAL, cpure, lambda env2: bind_var(env2, flag, st, f"(intres_pushes {val})", BOOL, True, rest_of))
            t, ty, pure = expr(env, v)
            if ty != PAIR:
                fail(p, st, f"destructuring of a value of type {ty}")
            tmp = env.fresh()

            def chain(env2, i):
                if i == 2:
                    return rest_of(env2)
                if names[i] == "_":
                    return chain(env2, i + 1)
                return bind_var(env2, names[i], st, f"({('fst', 'snd')[i]} {tmp})", DOM, True, lambda env3: chain(env3, i + 1))

            inner = chain(env, 0)
            return f"(let {tmp} := {t} in\n{inner})" if pure else f"(bind {t} (fun {tmp} =>\n{inner}))"
        if is_cell(env, tg):
            t, ty, pure = expr(env, v)
            if ty != DOM:
                fail(p, st, f"self._block_contexts[key][block] assigned a value of type {ty}")
            return set_state(env, t, pure, rest_of)
        x = path_entry(env, tg)
        if x is not None:
            b, bty, bp = expr(env, x)
            if bty != BLK:
                fail(p, st, f"path context of a successor of type {bty}")
            t, ty, pure = expr(env, v)
            if ty != DOM:
                fail(p, st, f"path context assigned a value of type {ty}")
            out, _ = seq(env, [(b, bp), (t, pure)], lambda a, c: f"(path_set {STATE['path']} {a} {c})", monadic_result=True)
            return set_state(env, out, False, rest_of)
        fail(p, st, "assignment target " + ast.unparse(tg)[:60])
    if isinstance(st, ast.If):
        x = is_ensure(env, st)
        if x is not None:
            b, bty, bp = expr(env, x)
            if bty != BLK:
                fail(p, st, f"path context of a successor of type {bty}")
            out, pure = seq(env, [(b, bp)], lambda a: f"(path_ensure {STATE['path']} {a})")
            return set_state(env, out, pure, rest_of)
        cont = lambda env2: block(env2, rest, fall)  # noqa: E731
        x = not_none_test(st.test)
        if x is not None and env.vars.get(x) == OPTBLK:
            tmp = env.fresh()
            # inside the branch the variable is the block; after the if it is the Optional again
            restore = lambda env2: f"(let {x} := (Some {x}) in\n{cont(env2.child(**{x: OPTBLK}))})"  # noqa: E731
            then_t = block(env.child(**{x: BLK}), st.body, restore)
            else_t = block(env, st.orelse, cont) if st.orelse else cont(env)
            return f"(match {x} with\n | Some {tmp} =>\n    (let {x} := {tmp} in\n{indent(then_t)})\n | None =>\n{indent(else_t)}\n end)"
        t, ty, pure = expr(env, st.test)
        if ty != BOOL:
            fail(p, st, f"if-condition of type {ty} (truthiness of a non-boolean is not translated)")
        then_t = block(env, st.body, cont)
        else_t = block(env, st.orelse, cont) if st.orelse else cont(env)
        if pure:
            return f"(if {t}\n then\n{indent(then_t)}\n else\n{else_t})"
        return f"(ifE {t}\n{indent(then_t)}\n{else_t})"
    if isinstance(st, ast.For):
        if st.orelse or getattr(st, "type_comment", None):
            fail(p, st, "for-else")
        if not isinstance(st.target, ast.Name):
            fail(p, st, "loop header " + ast.unparse(st)[:60])
        for node in ast.walk(st):
            if isinstance(node, FORBIDDEN):
                fail(p, node, "statement/expression not accepted: " + type(node).__name__)
        x = st.target.id
        if x == "key":
            # the slice of the loop for the own key
            if not is_name(st.iter, "analysis_keys") or env.in_key:
                fail(p, st, "loop over keys " + ast.unparse(st)[:60])
            outer_vars = dict(env.vars)

            def after(env2):
                # the variables bound in the body are not visible after the loop; the state is
                env3 = env.child()
                env3.vars = dict(outer_vars)
                env3.assigned = env2.assigned
                return rest_of(env3)

            benv = env.child()
            benv.in_key = True
            benv.on_continue = after
            return block(benv, st.body, after)
        # a loop over a list: a fold whose state is the state variable
        check_name(env, x, st)
        if x in env.vars or x in env.optvars:
            fail(p, st, f"loop variable {x} shadows a variable")
        if env.in_fold:
            fail(p, st, "nested loop over a list")
        if not env.assigned:
            fail(p, st, "loop before self._block_contexts[key][block] is assigned")
        it, lty, ipure = expr(env, st.iter)
        if lty not in ELEM:
            fail(p, st, f"iteration over a value of type {lty}")
        for node in ast.walk(st):
            if isinstance(node, (ast.Return,)):
                fail(p, node, "return in a loop over a list")
            if isinstance(node, ast.Assign):
                for tg in node.targets:
                    for n in ast.walk(tg):
                        if isinstance(n, ast.Name) and n.id == x and isinstance(n.ctx, ast.Store):
                            fail(p, node, "loop body assigns the loop variable")
        s = STATE[env.kind]
        benv = env.child(**{x: ELEM[lty]})
        benv.in_fold = True
        benv.fold_outer = frozenset(env.vars)
        body_end = lambda env2: f"(ret {s})"  # noqa: E731
        benv.on_continue = body_end
        lst = it if ipure else env.fresh()
        body_t = block(benv, st.body, body_end)
        body_t = f"(let {s} := st in\n{body_t})"
        loop = f"(fold_left (fun acc {x} => (bind acc (fun st =>\n{indent(body_t, 2)})))\n  {lst} (ret {s}))"
        tmp = env.fresh()
        after_t = rest_of(env)
        out = f"(bind {loop} (fun {tmp} =>\n(let {s} := {tmp} in\n{after_t})))"
        if not ipure:
            out = f"(bind {it} (fun {lst} =>\n{out}))"
        return out
    fail(p, st, "statement " + ast.unparse(st)[:60])


# ----------------------------------------------------------------------------- source checks
def member_text(node):
    node = ast.parse(ast.unparse(node)).body[0]
    node.body = strip_doc(node.body) or [ast.Pass()]
    return ast.unparse(node)


def find_def(path, tree, cls, name):
    body = tree.body
    if cls is not None:
        body = find_class(tree, cls, path).body
    fs = [n for n in body if isinstance(n, ast.FunctionDef) and n.name == name and not any(ast.unparse(d).endswith(".setter") for d in n.decorator_list)]
    if len(fs) != 1:
        raise TranslateError(f"translator: {path}: expected exactly one definition of {(cls + '.') if cls else ''}{name}")
    return fs[0]


def check_fingerprints():
    trees = {}
    for rel, cls, name, text in FINGERPRINTS:
        path = os.path.join(T, rel)
        if rel not in trees:
            trees[rel] = parse(path)
        got = member_text(find_def(path, trees[rel], cls, name))
        if text.startswith("sha256:"):
            same = hashlib.sha256(got.encode()).hexdigest() == text[len("sha256:"):]
        else:
            same = same_text(ast.parse(got), text)
        if not same:
            shown = got if len(got) < 600 else got[:600] + "\n..."
            raise TranslateError(
                f"translator: {path}: {(cls + '.') if cls else ''}{name} changed (its entry in the glue table of Gen/ConstraintsGen.v is no longer justified):\n{shown}"
            )


def check_init(path, cls):
    """the two dictionaries are created once, in __init__, as defaultdict(dict), and the attributes are never re-bound"""
    init = find_def(path, ast.Module(body=[cls], type_ignores=[]), cls.name, "__init__")
    texts = [ast.unparse(s) for s in strip_doc(init.body)]
    for want in INIT_STATEMENTS:
        if sum(1 for t in texts if same_text(ast.parse(t), want)) != 1:
            fail(path, init, f"__init__ of {cls.name} no longer contains exactly once: {want}")
    names = ("_function", "_block_contexts", "_path_contexts")
    hits = []
    tc = os.path.join(T, TC_DIR)
    for root, _, files in os.walk(tc):
        for fn in sorted(files):
            if fn.endswith(".py"):
                fp = os.path.join(root, fn)
                for node in ast.walk(parse(fp)):
                    tgs = node.targets if isinstance(node, ast.Assign) else [node.target] if isinstance(node, (ast.AnnAssign, ast.AugAssign)) else []
                    for tg in tgs:
                        for n in tg.elts if isinstance(tg, (ast.Tuple, ast.List)) else [tg]:
                            n = n.value if isinstance(n, ast.Starred) else n
                            if isinstance(n, ast.Attribute) and n.attr in names:
                                hits.append(f"{fp}:{node.lineno}")
                    if isinstance(node, ast.Call) and isinstance(node.func, ast.Name) and node.func.id in ("setattr", "delattr"):
                        hits.append(f"{fp}:{node.lineno}")
    if len(hits) != 3 or any(not h.startswith(path + ":") for h in hits):
        raise TranslateError(f"translator: {tc}: _function / _block_contexts / _path_contexts must be assigned once, in __init__ of generic.py; found {hits}")


def signature(path, fn, expected, returns):
    a = fn.args
    if a.vararg or a.kwarg or a.kwonlyargs or a.posonlyargs or a.defaults or fn.decorator_list:
        fail(path, fn, "signature of " + fn.name)
    got = [(x.arg, ast.unparse(x.annotation) if x.annotation else None) for x in a.args]
    if got != expected:
        fail(path, fn, f"signature of {fn.name}: {got}")
    if (ast.unparse(fn.returns) if fn.returns else None) != returns:
        fail(path, fn, f"return annotation of {fn.name}")


def find_method(path, cls, name):
    found = [n for n in cls.body if isinstance(n, ast.FunctionDef) and n.name == name]
    if len(found) != 1:
        raise TranslateError(f"translator: {path}: expected exactly one method {name}")
    return found[0]


def check_params(path, fn):
    """the parameters are never re-bound; `key` is only bound as the variable of `for key in analysis_keys`"""
    key_targets = [n.target for n in ast.walk(fn) if isinstance(n, ast.For) and is_name(n.target, "key") and is_name(n.iter, "analysis_keys")]
    for node in ast.walk(fn):
        if isinstance(node, ast.Name) and isinstance(node.ctx, (ast.Store, ast.Del)):
            if node.id in ("self", "analysis_keys", "block"):
                fail(path, node, f"the parameter {node.id} is re-bound")
            if node.id == "key" and not any(node is t for t in key_targets):
                fail(path, node, "`key` is bound by something else than `for key in analysis_keys`")
        if isinstance(node, ast.arg) and node.arg in ("key",):
            fail(path, node, "`key` is a parameter")


def optional_vars(fn):
    out = set()
    for node in ast.walk(fn):
        if isinstance(node, ast.Assign) and is_none(node.value):
            for tg in node.targets:
                if isinstance(tg, ast.Name):
                    out.add(tg.id)
    return out


# ----------------------------------------------------------------------------- emission
def emit_constraints(outdir):
    gp = os.path.join(T, GEN_REL)
    gtree = parse(gp)

    check_fingerprints()
    check_imports(
        gp, gtree,
        {
            **{c: INS_MODULE + "." + c for c in CLASS_PATTERNS},
            "UnknownStackValue": SB_MODULE + ".UnknownStackValue",
            "get_stack_value_for_ins": SB_MODULE + ".get_stack_value_for_ins",
            "is_int_push_ins": UA_MODULE + ".is_int_push_ins",
            "next_blocks_global": UA_MODULE + ".next_blocks_global",
            "defaultdict": "collections.defaultdict",
        },
    )
    check_no_subclasses(os.path.join(T, INS_REL), set(CLASS_PATTERNS))
    check_no_subclasses(os.path.join(T, SB_REL), {"UnknownStackValue", "KnownStackValue"})
    cls = find_class(gtree, "DataflowTransactionContext", gp)
    check_methods(gp, cls)  # the domain operations are the abstract methods, _get_asserted is defined once
    check_init(gp, cls)
    for m in ("_block_level_constraints", "_path_level_constraints", "_get_asserted"):
        check_no_override(m)
    imports = bound_names(gtree)
    for name in list(CLASS_PATTERNS) + ["UnknownStackValue", "get_stack_value_for_ins", "is_int_push_ins", "next_blocks_global"]:
        n = 0
        for node in ast.walk(gtree):
            if isinstance(node, (ast.FunctionDef, ast.AsyncFunctionDef, ast.ClassDef)) and node.name == name:
                n += 1
            elif isinstance(node, ast.Name) and node.id == name and isinstance(node.ctx, (ast.Store, ast.Del)):
                n += 1
            elif isinstance(node, ast.arg) and node.arg == name:
                n += 1
            elif isinstance(node, (ast.Import, ast.ImportFrom)):
                n += sum(1 for al in node.names if (al.asname or al.name).split(".")[0] == name or al.name == "*")
            elif isinstance(node, (ast.Global, ast.Nonlocal)) and name in node.names:
                n += 1
        if n != 1:
            raise TranslateError(f"translator: {gp}: name {name} is bound {n} times in the module")

    L = []
    w = L.append
    w("(* GENERATED by tools/translate.py (translate_constraints) from /repo/tealer -- do not edit *)")
    w("(* transaction_context/generic.py: DataflowTransactionContext._block_level_constraints and _path_level_constraints,")
    w("   statement by statement, for ONE analysis key.  See tools/translate_constraints.py for the reading. *)")
    w("From Coq Require Import String List NArith ZArith Bool Arith.")
    w("From Tealer Require Import Syntax Cfg StackAst Keys KeysGen Analysis AssertedGen GraphGen.")
    w("Import ListNotations.")
    w("Open Scope list_scope.")
    w(PRELUDE.rstrip("\n"))
    w(SECTION_HEAD.rstrip("\n"))
    w("")
    w("  (* ====================================================================== *)")
    w("  (* TRANSLATED functions                                                     *)")
    w("  (* ====================================================================== *)")
    for kind, name, rty, note in [
        ("block", "_block_level_constraints", "py T", "returns the final value of self._block_contexts[key][block]"),
        ("path", "_path_level_constraints", "py (list (nat * T))", "returns the values written to self._path_contexts[key][succ][block], as (succ, value) in assignment order"),
    ]:
        fn = find_method(gp, cls, name)
        signature(gp, fn, [("self", None), ("analysis_keys", "List[str]"), ("block", "'BasicBlock'")], "None")
        check_params(gp, fn)
        for stmt in fn.body:
            for node in ast.walk(stmt):
                if isinstance(node, FORBIDDEN):
                    fail(gp, node, "statement/expression not accepted: " + type(node).__name__)
        env = Env(gp, kind, imports, optional_vars(fn))
        body = block(env, fn.body, lambda env2: end_term(env2, fn))
        if kind == "path":
            body = f"(let {STATE['path']} := path_init in\n{body})"
        w(f"  (* {GEN_REL}: DataflowTransactionContext.{name} (line {fn.lineno}), for one key;")
        w(f"     {note}; fuel is the budget passed to get_asserted_gen *)")
        # a definition that uses one of univ / null (union / inter) takes both: see tcommon.pin_twins
        w(f"  Definition {GEN_NAME[kind]} (fuel : nat) (block : nat) : {rty} :=\n{indent(pin_twins(body), 4)}.")
        w("")
    w("End ConstraintsGen.")
    os.makedirs(outdir, exist_ok=True)
    with open(os.path.join(outdir, "ConstraintsGen.v"), "w") as fh:
        fh.write("\n".join(L) + "\n")
    return 2


def main():
    outdir = sys.argv[1] if len(sys.argv) > 1 else os.path.join(os.path.dirname(os.path.abspath(__file__)), "..", "coq", "Gen")
    try:
        n = emit_constraints(outdir)
    except TranslateError as e:
        print(str(e))
        sys.exit(2)
    print(f"translate_constraints: {n} constraint-initialisation functions -> {outdir}/ConstraintsGen.v")


if __name__ == "__main__":
    main()
