#!/venv/bin/python
"""Self-test of tools/translate_keys.py (the regenerated index/key classification functions, Gen/KeysGen.v).

(a) runs the translator on the clean source ($VERIF_REPO, default /tmp/cleanrepo) and checks that the output
    compiles and that Lemmas/KeysGenLemmas.v compiles against it (positive control);
(b) applies small mutations to a scratch copy of group_helpers.py / key_helpers.py and shows that, for each, either
    the translator stops (TranslateError) or the generated Gallina differs AND Lemmas/KeysGenLemmas.v no longer
    compiles against it.

Precondition: coq/ has been built (`make`), the .vo files of Model/, Gen/Tables, Gen/Leaves, Spec/, Lemmas/ are used.
Every coqc runs under `timeout`.  Exit status 0 iff every row has the expected verdict.
"""
import ast
import os
import shutil
import subprocess
import sys
import tempfile

HERE = os.path.dirname(os.path.abspath(__file__))
ROOT = os.path.dirname(HERE)
COQ = os.path.join(ROOT, "coq")
PY = "/venv/bin/python"
REPO = os.environ.get("VERIF_REPO", "/tmp/cleanrepo")

GH = "tealer/analyses/dataflow/transaction_context/utils/group_helpers.py"
KH = "tealer/analyses/dataflow/transaction_context/utils/key_helpers.py"
NEEDED = [
    GH,
    KH,
    "tealer/teal/instructions/instructions.py",
    "tealer/teal/instructions/transaction_field.py",
    "tealer/analyses/utils/stack_ast_builder.py",
]


def sh(cmd, cwd=None, env=None):
    e = dict(os.environ)
    if env:
        e.update(env)
    p = subprocess.run(cmd, shell=True, cwd=cwd, stdout=subprocess.PIPE, stderr=subprocess.STDOUT, env=e, check=False)
    return p.returncode, p.stdout.decode(errors="replace")


# ----------------------------------------------------------------------------- mutations (text -> text)
def replace_once(src, old, new):
    if src.count(old) < 1:
        raise RuntimeError("mutation anchor not found: " + old[:50])
    return src.replace(old, new, 1)


def mut_gtxn_groupindex(src):
    """(i) accept Gtxn/Gtxns in the GroupIndex test at the top of _get_index"""
    return replace_once(
        src,
        "if isinstance(index_stack_value.instruction, Txn) and isinstance(",
        "if isinstance(index_stack_value.instruction, (Txn, Gtxn, Gtxns)) and isinstance(",
    )


def mut_merge_sub_add(src):
    """(ii) merge the Sub and Add branches: the symmetric Add logic now also handles `-`, GroupIndex in either operand"""
    tree = ast.parse(src)
    fn = [n for n in tree.body if isinstance(n, ast.FunctionDef) and n.name == "_get_index"][0]
    body = []
    done = 0
    for st in fn.body:
        if isinstance(st, ast.If) and ast.unparse(st.test) == "isinstance(index_stack_value.instruction, Sub)":
            done += 1
            continue  # the Sub branch disappears ...
        if isinstance(st, ast.If) and ast.unparse(st.test) == "isinstance(index_stack_value.instruction, Add)":
            st.test = ast.parse("isinstance(index_stack_value.instruction, (Sub, Add))", mode="eval").body  # ... into the Add one
            done += 1
        body.append(st)
    if done != 2:
        raise RuntimeError("mutation anchor not found: Sub/Add branches")
    fn.body = body
    return ast.unparse(ast.fix_missing_locations(tree)) + "\n"


def mut_drop_minus(src):
    """(iii) drop the minus sign of `offset = -int_value`"""
    return replace_once(src, "offset = -int_value", "offset = int_value")


def mut_unknown_class(src):
    """(extra) a class the translator has no constructor for in an isinstance test"""
    src = replace_once(src, "    Sub,\n    Add,\n)", "    Sub,\n    Add,\n    Mul,\n)")
    return replace_once(src, "if isinstance(index_stack_value.instruction, Add):", "if isinstance(index_stack_value.instruction, (Add, Mul)):")


def mut_loop(src):
    """(extra) a statement kind outside the whitelist"""
    return replace_once(src, "    pushes_int, int_value = is_int_push_ins(index_stack_value.instruction)\n", "    pushes_int, int_value = is_int_push_ins(index_stack_value.instruction)\n    while pushes_int:\n        break\n")


def mut_key_prefix(src):
    """(extra, key_helpers.py) a different prefix of absolute keys: the keyfam reading is no longer justified"""
    return src.replace("GTXN_ABS_", "GTXN_ABSOLUTE_")


def mut_args_index(src):
    """(extra) the index operand of gtxns read from args[1]"""
    return replace_once(src, "index_stack_value = value.args[0]", "index_stack_value = value.args[1]")


# ---- twin audit (same-typed names written for each other, swapped argument order / tuple components)
def sub_branch(src, edit):
    """apply `edit` to the text of the Sub branch of _get_index"""
    a = src.index("    if isinstance(index_stack_value.instruction, Sub):\n")
    b = src.index("    if isinstance(index_stack_value.instruction, Add):\n")
    new = edit(src[a:b])
    if new == src[a:b]:
        raise RuntimeError("mutation anchor not found in the Sub branch")
    return src[:a] + new + src[b:]


def mut_sub_operands(src):
    """(t1) Sub branch: the roles of arg1 / arg2 exchanged (`c - GroupIndex` read as an offset)"""
    return sub_branch(src, lambda t: t.replace("arg1", "\0").replace("arg2", "arg1").replace("\0", "arg2").replace("arg2, arg1 = index_stack_value.args[0]", "arg1, arg2 = index_stack_value.args[0]"))


def mut_add_offset_arg(src):
    """(t2) Add branch: offset_arg is arg1 first, arg2 in the fallback"""
    src = replace_once(src, "        offset_arg = arg2\n", "        offset_arg = arg1\n")
    return replace_once(src, "            offset_arg = arg1\n", "            offset_arg = arg2\n")


def mut_add_absolute(src):
    """(t3) Add branch returns IndexType.Absolute for an offset (twin constructors)"""
    return replace_once(
        src,
        "            offset = int_value\n            return TransactionIndex(IndexType.Relative, offset)\n",
        "            offset = int_value\n            return TransactionIndex(IndexType.Absolute, offset)\n",
    )


def mut_gtxn_relative(src):
    """(t4) get_index_and_field: gtxn i is a relative index"""
    return replace_once(src, "TransactionIndex(IndexType.Absolute, value.instruction.idx)", "TransactionIndex(IndexType.Relative, value.instruction.idx)")


def mut_key_abs_relative(src):
    """(t5, key_helpers.py) is_value_matches_key: absolute keys ask for a Relative index and vice versa"""
    src = replace_once(src, "        if value_index.index_type != IndexType.Absolute:\n", "        if value_index.index_type != IndexType.RELATIVE_TMP:\n")
    src = replace_once(src, "        if value_index.index_type != IndexType.Relative:\n", "        if value_index.index_type != IndexType.Absolute:\n")
    return replace_once(src, "IndexType.RELATIVE_TMP", "IndexType.Relative")


def mut_sub_args_swapped(src):
    """(a1) Sub branch: arg1, arg2 = args[1], args[0]"""
    return sub_branch(src, lambda t: t.replace("arg1, arg2 = index_stack_value.args[0], index_stack_value.args[1]", "arg1, arg2 = index_stack_value.args[1], index_stack_value.args[0]"))


def mut_int_pair_swapped(src):
    """(a2) the pair of is_int_push_ins unpacked the other way round"""
    return replace_once(
        src,
        "    pushes_int, int_value = is_int_push_ins(index_stack_value.instruction)\n",
        "    int_value, pushes_int = is_int_push_ins(index_stack_value.instruction)\n",
    )


def mut_key_pair_swapped(src):
    """(a3, key_helpers.py) the (index, base key) pair of an absolute key unpacked the other way round"""
    return replace_once(src, "        idx, _ = get_ind_base_for_gtxn_type_keys(analysis_key)\n", "        _, idx = get_ind_base_for_gtxn_type_keys(analysis_key)\n")


MUTATIONS = [
    ("(i) Gtxn/Gtxns accepted in GroupIndex test", GH, mut_gtxn_groupindex, True),
    ("(ii) Sub and Add branches merged", GH, mut_merge_sub_add, True),
    ("(iii) minus sign of offset dropped", GH, mut_drop_minus, True),
    ("(x1) isinstance with unmapped class Mul", GH, mut_unknown_class, False),
    ("(x2) while statement", GH, mut_loop, False),
    ("(x3) absolute key prefix edited", KH, mut_key_prefix, False),
    ("(x4) gtxns index read from args[1]", GH, mut_args_index, False),
    ("(t1) TWIN Sub: roles of arg1 / arg2 exchanged", GH, mut_sub_operands, False),
    ("(t2) TWIN Add: offset_arg arg1 first, arg2 fallback", GH, mut_add_offset_arg, False),
    ("(t3) TWIN Add: IndexType.Absolute for Relative", GH, mut_add_absolute, False),
    ("(t4) TWIN gtxn i: IndexType.Relative for Absolute", GH, mut_gtxn_relative, False),
    ("(t5) TWIN key kinds ask for the other index type", KH, mut_key_abs_relative, False),
    ("(a1) PAIR Sub: arg1, arg2 = args[1], args[0]", GH, mut_sub_args_swapped, False),
    ("(a2) PAIR int_value, pushes_int = is_int_push_ins(..)", GH, mut_int_pair_swapped, False),
    ("(a3) PAIR _, idx = get_ind_base_for_gtxn_type_keys(..)", KH, mut_key_pair_swapped, False),
]


# ----------------------------------------------------------------------------- one run
def prepare_repo(dst, rel=None, mutate=None):
    for f in NEEDED:
        os.makedirs(os.path.dirname(os.path.join(dst, f)), exist_ok=True)
        shutil.copy(os.path.join(REPO, f), os.path.join(dst, f))
    if mutate:
        path = os.path.join(dst, rel)
        with open(path, encoding="utf-8") as fh:
            src = fh.read()
        new = mutate(src)
        if new == src:
            raise RuntimeError("mutation did not change the source")
        ast.parse(new)  # the mutant is valid Python
        with open(path, "w", encoding="utf-8") as fh:
            fh.write(new)


def run_case(work, rel=None, mutate=None):
    """-> dict(translator=..., text=..., gen_ok=..., lemmas_ok=..., log=...)"""
    repo = os.path.join(work, "repo")
    gen = os.path.join(work, "Gen")
    lem = os.path.join(work, "Lemmas")
    os.makedirs(gen)
    os.makedirs(lem)
    prepare_repo(repo, rel, mutate)
    rc, out = sh(f"{PY} {HERE}/translate_keys.py {gen}", env={"VERIF_REPO": repo})
    res = {"translator": "ok" if rc == 0 else "STOPPED", "log": out.strip(), "text": None, "gen_ok": None, "lemmas_ok": None}
    if rc != 0:
        if rc != 2 or "translator:" not in out:
            res["translator"] = "CRASHED"
        return res
    with open(os.path.join(gen, "KeysGen.v"), encoding="utf-8") as fh:
        res["text"] = fh.read()
    # the other generated files are taken (compiled) from the built tree; KeysGen is only imported by KeysGenLemmas
    for f in ("Tables.vo", "Leaves.vo"):
        os.symlink(os.path.join(COQ, "Gen", f), os.path.join(gen, f))
    shutil.copy(os.path.join(COQ, "Lemmas", "KeysGenLemmas.v"), os.path.join(lem, "KeysGenLemmas.v"))
    q = f"-Q {COQ}/Model Tealer -Q {gen} Tealer -Q {COQ}/Spec Tealer -Q {COQ}/Lemmas Tealer"
    rc, out = sh(f"timeout 300 coqc {q} {gen}/KeysGen.v 2>&1")
    res["gen_ok"] = rc == 0
    res["log"] += "\n" + out[-1500:]
    if rc == 0:
        rc, out = sh(f"timeout 900 coqc {q} {lem}/KeysGenLemmas.v 2>&1")
        res["lemmas_ok"] = rc == 0
        res["log"] += "\n" + out[-1500:]
    return res


def main():
    verbose = "-v" in sys.argv
    for f in ("Model/Keys.vo", "Gen/Tables.vo", "Lemmas/SingleLemmas.vo", "Lemmas/StackLemmas.vo", "Spec/Eval.vo"):
        if not os.path.exists(os.path.join(COQ, f)):
            print(f"precondition: {COQ}/{f} missing -- build coq/ first (make)")
            sys.exit(3)
    top = tempfile.mkdtemp(prefix="tkeys_")
    rows = []
    ok = True
    try:
        base = run_case(os.path.join(top, "base"))
        same = None
        cur = os.path.join(COQ, "Gen", "KeysGen.v")
        if base["text"] is not None and os.path.exists(cur):
            with open(cur, encoding="utf-8") as fh:
                same = fh.read() == base["text"]
        good = base["translator"] == "ok" and base["gen_ok"] and base["lemmas_ok"] and same is not False
        ok &= bool(good)
        rows.append(("(a) clean source", base["translator"], "= coq/Gen/KeysGen.v" if same else ("DIFFERS from coq/Gen" if same is False else "-"), base["gen_ok"], base["lemmas_ok"], "PASS" if good else "FAIL"))
        if verbose or not good:
            print(base["log"])
        for i, (name, rel, fn, required) in enumerate(MUTATIONS):
            r = run_case(os.path.join(top, f"m{i}"), rel, fn)
            if r["translator"] == "STOPPED":
                verdict, good = "caught: translator stops", True
                diff = "-"
            elif r["translator"] == "CRASHED":
                verdict, good, diff = "FAIL: translator crashed", False, "-"
            else:
                differs = r["text"] != base["text"]
                diff = "differs" if differs else "IDENTICAL"
                if differs and r["gen_ok"] and r["lemmas_ok"] is False:
                    verdict, good = "caught: Gallina differs, lemmas break", True
                elif differs and not r["gen_ok"]:
                    verdict, good = "caught: Gallina differs, KeysGen.v ill-typed", True
                else:
                    verdict, good = "FAIL: NOT DETECTED", False
            ok &= good
            rows.append((name, r["translator"], diff, r["gen_ok"], r["lemmas_ok"], verdict))
            if verbose or not good:
                print(f"--- {name}\n{r['log']}\n")
            elif r["translator"] == "STOPPED":
                print(f"--- {name}: {r['log'].splitlines()[0][:230]}")
            elif r["lemmas_ok"] is False:
                err = [l for l in r["log"].splitlines() if l.startswith("File ") and "KeysGenLemmas" in l]
                print(f"--- {name}: coqc KeysGenLemmas.v fails at {err[-1] if err else '?'}")
    finally:
        shutil.rmtree(top, ignore_errors=True)
    hdr = ("case", "translator", "generated Gallina", "KeysGen.v compiles", "KeysGenLemmas.v compiles", "verdict")
    fmt = lambda x: "-" if x is None else ("yes" if x is True else ("NO" if x is False else str(x)))  # noqa: E731
    table = [hdr] + [tuple(fmt(c) for c in r) for r in rows]
    widths = [max(len(r[i]) for r in table) for i in range(len(hdr))]
    print()
    for k, r in enumerate(table):
        print(" | ".join(c.ljust(w) for c, w in zip(r, widths)))
        if k == 0:
            print("-+-".join("-" * w for w in widths))
    print("\nRESULT:", "all mutations caught, clean source accepted" if ok else "FAILURE")
    sys.exit(0 if ok else 1)


if __name__ == "__main__":
    main()
