#!/venv/bin/python
"""Self-test of tools/translate_asserted.py (the regenerated condition combination, Gen/AssertedGen.v).

(a) runs the translator on the clean source ($VERIF_REPO, default /tmp/cleanrepo) and checks that the output is the
    committed coq/Gen/AssertedGen.v, compiles, and that Lemmas/AssertedGenLemmas.v compiles against it;
(b) applies small mutations to a scratch copy of generic.py / stack_ast_builder.py and shows that, for each, either
    the translator stops (TranslateError) or the generated Gallina differs AND Lemmas/AssertedGenLemmas.v no longer
    compiles against it.

Precondition: coq/ has been built (`make`); the .vo files of Model/, Gen/ (Tables, Leaves, KeysGen, SingleGen), Spec/,
Lemmas/ are used.  Every coqc runs under `timeout`.  Exit status 0 iff every row has the expected verdict.

usage: VERIF_REPO=/tmp/cleanrepo /venv/bin/python tools/test_translate_asserted.py [-v]
"""
import ast
import os
import re
import shutil
import subprocess
import sys
import tempfile

HERE = os.path.dirname(os.path.abspath(__file__))
ROOT = os.path.dirname(HERE)
COQ = os.path.join(ROOT, "coq")
PY = "/venv/bin/python"
REPO = os.environ.get("VERIF_REPO", "/tmp/cleanrepo")

GEN = "tealer/analyses/dataflow/transaction_context/generic.py"
SB = "tealer/analyses/utils/stack_ast_builder.py"
FEE = "tealer/analyses/dataflow/transaction_context/fee_field.py"


def sh(cmd, cwd=None, env=None):
    e = dict(os.environ)
    if env:
        e.update(env)
    p = subprocess.run(cmd, shell=True, cwd=cwd, stdout=subprocess.PIPE, stderr=subprocess.STDOUT, env=e, check=False)
    return p.returncode, p.stdout.decode(errors="replace")


# ----------------------------------------------------------------------------- mutations (text -> text)
def replace_once(src, old, new):
    if src.count(old) != 1:
        raise RuntimeError(f"mutation anchor found {src.count(old)} times: " + old[:60])
    return src.replace(old, new, 1)


def get_asserted_branch(tree, cls):
    """the `if isinstance(ins_stack_value.instruction, <cls>):` statement of _get_asserted"""
    for node in ast.walk(tree):
        if isinstance(node, ast.FunctionDef) and node.name == "_get_asserted":
            for st in node.body:
                if isinstance(st, ast.If) and ast.unparse(st.test) == f"isinstance(ins_stack_value.instruction, {cls})":
                    return st
    raise RuntimeError("mutation anchor not found: branch " + cls)


def mut_and_swap(src):
    """(i) And branch: _intersection and _union swapped"""
    return replace_once(
        src,
        "                final_true_values = self._intersection(key, final_true_values, true_values)\n"
        "                final_false_values = self._union(key, final_false_values, false_values)\n",
        "                final_true_values = self._union(key, final_true_values, true_values)\n"
        "                final_false_values = self._intersection(key, final_false_values, false_values)\n",
    )


def mut_and_drop_unknown(src):
    """(ii) And branch: the `if has_unknown_value:` override is dropped"""
    tree = ast.parse(src)
    br = get_asserted_branch(tree, "And")
    before = len(br.body)
    br.body = [st for st in br.body if not (isinstance(st, ast.If) and ast.unparse(st.test) == "has_unknown_value")]
    if len(br.body) != before - 1:
        raise RuntimeError("mutation anchor not found: if has_unknown_value")
    return ast.unparse(ast.fix_missing_locations(tree)) + "\n"


def mut_not_unswapped(src):
    """(iii) Not branch returns the pair unswapped"""
    return replace_once(
        src,
        "final_true_values, final_false_values = false_values, true_values",
        "final_true_values, final_false_values = true_values, false_values",
    )


def mut_flatten_through_not(src):
    """(iv) _flatten_ast flattens through Not"""
    src = replace_once(src, "from tealer.teal.instructions.instructions import (\n    Instruction,\n)", "from tealer.teal.instructions.instructions import (\n    Instruction,\n    Not,\n)")
    return replace_once(
        src,
        "    if not isinstance(root.instruction, node_ins):\n",
        "    if isinstance(root.instruction, Not):\n        return _flatten_ast(root.args[0], node_ins)\n    if not isinstance(root.instruction, node_ins):\n",
    )


def mut_or_flattens_and(src):
    """(x1) Or branch flattens along And"""
    return replace_once(src, "compute_equations(ins_stack_value, Or)", "compute_equations(ins_stack_value, And)")


def mut_or_drop_unknown(src):
    """(x2) Or branch: the override sets false values instead of true values"""
    return replace_once(
        src,
        "            # to be False irrespective of unknown value for the result to be False\n            final_true_values = self._universal_set(key)\n",
        "            # to be False irrespective of unknown value for the result to be False\n            final_false_values = self._universal_set(key)\n",
    )


def mut_append_unknown(src):
    """(x3) compute_equations keeps the unknown values among the equations"""
    return replace_once(
        src,
        "            has_unkown_value = True\n        else:\n            known_equations.append(eq)\n",
        "            has_unkown_value = True\n        known_equations.append(eq)\n",
    )


def mut_flatten_order(src):
    """(x4) _flatten_ast visits the right operand first"""
    return replace_once(src, "left, right = root.args[0], root.args[1]", "left, right = root.args[1], root.args[0]")


def mut_not_unknown(src):
    """(x5) Not of an unknown value: null set as false values"""
    return replace_once(src, "return self._universal_set(key), self._universal_set(key)", "return self._universal_set(key), self._null_set(key)")


def mut_single_swapped(src):
    """(x6) a single equation returns the pair swapped"""
    return replace_once(src, "            return t, f\n", "            return f, t\n")


def mut_init_swapped(src):
    """(x7) And branch: accumulators initialised the other way round"""
    return replace_once(
        src,
        "compute_equations(ins_stack_value, And)\n            final_true_values = self._universal_set(key)\n            final_false_values = self._null_set(key)\n",
        "compute_equations(ins_stack_value, And)\n            final_true_values = self._null_set(key)\n            final_false_values = self._universal_set(key)\n",
    )


def mut_other_class(src):
    """(s1) isinstance with a class the translator has no constructor for"""
    src = replace_once(src, "    Not,\n    TealerCustomErrInstruction,\n)", "    Not,\n    BitwiseAnd,\n    TealerCustomErrInstruction,\n)")
    return replace_once(src, "if not isinstance(ins_stack_value.instruction, (And, Or, Not)):", "if not isinstance(ins_stack_value.instruction, (And, Or, Not, BitwiseAnd)):")


def mut_while(src):
    """(s2) a statement kind outside the whitelist"""
    return replace_once(src, "        if isinstance(ins_stack_value.instruction, Not):\n", "        while False:\n            pass\n        if isinstance(ins_stack_value.instruction, Not):\n")


def mut_break(src):
    """(s3) break in the loop of compute_equations"""
    return replace_once(src, "            has_unkown_value = True\n        else:", "            has_unkown_value = True\n            break\n        else:")


def mut_other_key(src):
    """(s4) a domain operation of another key"""
    return replace_once(src, "            final_false_values = self._null_set(key)\n", '            final_false_values = self._null_set("Other")\n')


def mut_override(src):
    """(s5, fee_field.py) a subclass overrides _get_asserted"""
    return src + "\n\nclass Shadow(FeeField):\n    def _get_asserted(self, key, ins_stack_value):\n        return self._universal_set(key), self._universal_set(key)\n"


def mut_rebind_class(src):
    """(s6) `Or` rebound at module level of generic.py"""
    return replace_once(src, 'debug_keys = ["TransactionType"]\n', 'debug_keys = ["TransactionType"]\nOr = And\n')


def mut_cache_key(src):
    """(s7) a different decorator on compute_equations"""
    return replace_once(src, "@lru_cache(maxsize=None)\ndef compute_equations(", "@staticmethod\ndef compute_equations(")


# ---- twin audit (same-typed section variables written for each other, swapped argument order / tuple components)
def in_get_asserted(src, edit):
    """apply `edit` (text -> text) to the text of DataflowTransactionContext._get_asserted only"""
    a = src.index("    def _get_asserted(self, key: str, ins_stack_value: KnownStackValue)")
    b = src.index("    def _block_level_constraints(")
    body = edit(src[a:b])
    if body == src[a:b]:
        raise RuntimeError("mutation anchor not found in _get_asserted")
    return src[:a] + body + src[b:]


def swap_words(text, x, y):
    return text.replace(x, "\0").replace(y, x).replace("\0", y)


def mut_all_null_universal(src):
    """(t1) _get_asserted: every self._null_set(key) replaced (the function no longer uses `null` at all)"""
    return in_get_asserted(src, lambda t: t.replace("self._null_set(key)", "self._universal_set(key)"))


def mut_all_ops_swapped(src):
    """(t2) _get_asserted: self._union and self._intersection exchanged everywhere"""
    return in_get_asserted(src, lambda t: swap_words(t, "self._union(", "self._intersection("))


def mut_all_sets_swapped(src):
    """(t3) _get_asserted: self._universal_set and self._null_set exchanged everywhere"""
    return in_get_asserted(src, lambda t: swap_words(t, "self._universal_set(", "self._null_set("))


def mut_or_swap(src):
    """(t4) Or branch: _intersection and _union swapped"""
    return replace_once(
        src,
        "            final_false_values = self._intersection(key, final_false_values, false_values)\n"
        "            final_true_values = self._union(key, final_true_values, true_values)\n",
        "            final_false_values = self._union(key, final_false_values, false_values)\n"
        "            final_true_values = self._intersection(key, final_true_values, true_values)\n",
    )


def mut_or_init_swapped(src):
    """(t5) Or branch: accumulators initialised the other way round"""
    return replace_once(
        src,
        "compute_equations(ins_stack_value, Or)\n        final_false_values = self._universal_set(key)\n        final_true_values = self._null_set(key)\n",
        "compute_equations(ins_stack_value, Or)\n        final_false_values = self._null_set(key)\n        final_true_values = self._universal_set(key)\n",
    )


def mut_all_ops_union(src):
    """(t6) _get_asserted: every self._intersection replaced by self._union (the function no longer uses `inter`)"""
    return in_get_asserted(src, lambda t: t.replace("self._intersection(", "self._union("))


def mut_and_inter_args(src):
    """(a1) And branch: the two set arguments of _intersection swapped"""
    return replace_once(
        src,
        "final_true_values = self._intersection(key, final_true_values, true_values)",
        "final_true_values = self._intersection(key, true_values, final_true_values)",
    )


def mut_or_union_args(src):
    """(a2) Or branch: the two set arguments of _union swapped"""
    return replace_once(
        src,
        "            final_true_values = self._union(key, final_true_values, true_values)\n",
        "            final_true_values = self._union(key, true_values, final_true_values)\n",
    )


def mut_and_return_swapped(src):
    """(a3) And branch returns (false values, true values)"""
    return replace_once(
        src,
        "                final_false_values = self._universal_set(key)\n            return final_true_values, final_false_values\n",
        "                final_false_values = self._universal_set(key)\n            return final_false_values, final_true_values\n",
    )


def mut_and_unpack_swapped(src):
    """(a4) And branch unpacks the recursive result as (false values, true values)"""
    return replace_once(
        src,
        "                true_values, false_values = self._get_asserted(key, equation)\n                final_true_values = self._intersection(",
        "                false_values, true_values = self._get_asserted(key, equation)\n                final_true_values = self._intersection(",
    )


def mut_or_return_swapped(src):
    """(a5) Or branch returns (false values, true values)"""
    return replace_once(
        src,
        "            final_true_values = self._universal_set(key)\n        return final_true_values, final_false_values\n",
        "            final_true_values = self._universal_set(key)\n        return final_false_values, final_true_values\n",
    )


def mut_equations_pair_swapped(src):
    """(a6, stack_ast_builder.py) compute_equations returns (flag, equations)"""
    return replace_once(src, "    return known_equations, has_unkown_value\n", "    return has_unkown_value, known_equations\n")


MUTATIONS = [
    ("(i) And: _intersection/_union swapped", GEN, mut_and_swap),
    ("(ii) And: `if has_unknown_value` override dropped", GEN, mut_and_drop_unknown),
    ("(iii) Not: pair returned unswapped", GEN, mut_not_unswapped),
    ("(iv) _flatten_ast flattens through Not", SB, mut_flatten_through_not),
    ("(x1) Or branch flattens along And", GEN, mut_or_flattens_and),
    ("(x2) Or: override hits the false values", GEN, mut_or_drop_unknown),
    ("(x3) compute_equations keeps unknown values", SB, mut_append_unknown),
    ("(x4) _flatten_ast: right operand first", SB, mut_flatten_order),
    ("(x5) Not(unknown): (U, null)", GEN, mut_not_unknown),
    ("(x6) single equation: pair swapped", GEN, mut_single_swapped),
    ("(x7) And: accumulators initialised swapped", GEN, mut_init_swapped),
    ("(s1) isinstance with unmapped class BitwiseAnd", GEN, mut_other_class),
    ("(s2) while statement", GEN, mut_while),
    ("(s3) break in a loop body", SB, mut_break),
    ("(s4) domain operation of another key", GEN, mut_other_key),
    ("(s5) subclass overrides _get_asserted", FEE, mut_override),
    ("(s6) class name Or rebound in generic.py", GEN, mut_rebind_class),
    ("(s7) other decorator on compute_equations", SB, mut_cache_key),
    ("(t1) TWIN every _null_set -> _universal_set", GEN, mut_all_null_universal),
    ("(t2) TWIN _union <-> _intersection everywhere", GEN, mut_all_ops_swapped),
    ("(t3) TWIN _universal_set <-> _null_set everywhere", GEN, mut_all_sets_swapped),
    ("(t4) TWIN Or: _intersection/_union swapped", GEN, mut_or_swap),
    ("(t5) TWIN Or: accumulators initialised swapped", GEN, mut_or_init_swapped),
    ("(t6) TWIN every _intersection -> _union", GEN, mut_all_ops_union),
    ("(a1) ARGS And: _intersection(key, y, x)", GEN, mut_and_inter_args),
    ("(a2) ARGS Or: _union(key, y, x)", GEN, mut_or_union_args),
    ("(a3) PAIR And returns (false, true)", GEN, mut_and_return_swapped),
    ("(a4) PAIR And unpacks (false, true)", GEN, mut_and_unpack_swapped),
    ("(a5) PAIR Or returns (false, true)", GEN, mut_or_return_swapped),
    ("(a6) PAIR compute_equations returns (flag, equations)", SB, mut_equations_pair_swapped),
]
REQUIRED = 4  # the first four rows are the mutations required by the task


# ----------------------------------------------------------------------------- one run
def enclosing(vfile, line):
    name = "?"
    with open(vfile, encoding="utf-8") as f:
        for i, l in enumerate(f, 1):
            m = re.match(r"\s*(Lemma|Theorem|Corollary|Definition)\s+(\w+)", l)
            if m and i <= line:
                name = m.group(2)
            if i > line:
                break
    return name


def run_case(work, scratch, rel=None, mutate=None):
    """-> dict(translator=..., text=..., gen_ok=..., lemmas_ok=..., where=..., log=...)"""
    gen = os.path.join(work, "Gen")
    lem = os.path.join(work, "Lemmas")
    os.makedirs(gen)
    os.makedirs(lem)
    path, orig = None, None
    if mutate:
        path = os.path.join(scratch, rel)
        with open(path, encoding="utf-8") as fh:
            orig = fh.read()
        new = mutate(orig)
        if new == orig:
            raise RuntimeError("mutation did not change the source")
        ast.parse(new)  # the mutant is valid Python
        with open(path, "w", encoding="utf-8") as fh:
            fh.write(new)
    try:
        rc, out = sh(f"{PY} {HERE}/translate_asserted.py {gen}", env={"VERIF_REPO": scratch})
    finally:
        if path:
            with open(path, "w", encoding="utf-8") as fh:
                fh.write(orig)
    res = {"translator": "ok" if rc == 0 else "STOPPED", "log": out.strip().replace(scratch + "/", ""), "text": None, "gen_ok": None, "lemmas_ok": None, "where": None}
    if rc != 0:
        if rc != 2 or "translator:" not in out:
            res["translator"] = "CRASHED"
        return res
    with open(os.path.join(gen, "AssertedGen.v"), encoding="utf-8") as fh:
        res["text"] = fh.read()
    # the other generated files are taken (compiled) from the built tree
    for f in ("Tables.vo", "Leaves.vo", "KeysGen.vo", "SingleGen.vo"):
        os.symlink(os.path.join(COQ, "Gen", f), os.path.join(gen, f))
    lemv = os.path.join(lem, "AssertedGenLemmas.v")
    shutil.copy(os.path.join(COQ, "Lemmas", "AssertedGenLemmas.v"), lemv)
    q = f"-Q {COQ}/Model Tealer -Q {gen} Tealer -Q {COQ}/Spec Tealer -Q {COQ}/Lemmas Tealer"
    rc, out = sh(f"timeout 300 coqc {q} {gen}/AssertedGen.v 2>&1")
    res["gen_ok"] = rc == 0
    res["log"] += "\n" + out[-1500:]
    if rc == 0:
        rc, out = sh(f"timeout 900 coqc {q} {lemv} 2>&1")
        res["lemmas_ok"] = rc == 0
        res["log"] += "\n" + out[-1500:]
        if rc != 0:
            m = re.search(r"line (\d+), characters", out)
            res["where"] = f"{enclosing(lemv, int(m.group(1)))} (line {m.group(1)})" if m else "?"
    return res


def main():
    verbose = "-v" in sys.argv
    for f in ("Model/Analysis.vo", "Gen/KeysGen.vo", "Lemmas/AssertedLemmas.vo", "Lemmas/KeysGenLemmas.vo", "Lemmas/StackLemmas.vo"):
        if not os.path.exists(os.path.join(COQ, f)):
            print(f"precondition: {COQ}/{f} missing -- build coq/ first (make)")
            sys.exit(3)
    top = tempfile.mkdtemp(prefix="tasserted_")
    scratch = os.path.join(top, "repo")
    shutil.copytree(os.path.join(REPO, "tealer"), os.path.join(scratch, "tealer"), ignore=shutil.ignore_patterns("__pycache__"))
    rows = []
    ok = True
    try:
        base = run_case(os.path.join(top, "base"), scratch)
        same = None
        cur = os.path.join(COQ, "Gen", "AssertedGen.v")
        if base["text"] is not None and os.path.exists(cur):
            with open(cur, encoding="utf-8") as fh:
                same = fh.read() == base["text"]
        good = base["translator"] == "ok" and base["gen_ok"] and base["lemmas_ok"] and same is True
        ok &= bool(good)
        rows.append(("(a) clean source", base["translator"], "= coq/Gen/AssertedGen.v" if same else ("DIFFERS from coq/Gen" if same is False else "-"), base["gen_ok"], base["lemmas_ok"], "PASS" if good else "FAIL"))
        if verbose or not good:
            print(base["log"])
        for i, (name, rel, fn) in enumerate(MUTATIONS):
            r = run_case(os.path.join(top, f"m{i}"), scratch, rel, fn)
            if r["translator"] == "STOPPED":
                verdict, good, diff = "caught: translator stops", True, "-"
            elif r["translator"] == "CRASHED":
                verdict, good, diff = "FAIL: translator crashed", False, "-"
            else:
                differs = r["text"] != base["text"]
                diff = "differs" if differs else "IDENTICAL"
                if differs and r["gen_ok"] and r["lemmas_ok"] is False:
                    verdict, good = f"caught: lemmas break in {r['where']}", True
                elif differs and not r["gen_ok"]:
                    verdict, good = "caught: AssertedGen.v ill-typed", True
                else:
                    verdict, good = "FAIL: NOT DETECTED", False
            ok &= good
            rows.append((name, r["translator"], diff, r["gen_ok"], r["lemmas_ok"], verdict))
            if verbose or not good:
                print(f"--- {name}\n{r['log']}\n")
            elif r["translator"] == "STOPPED":
                print(f"--- {name}: {r['log'].splitlines()[0][:260]}")
    finally:
        shutil.rmtree(top, ignore_errors=True)
    hdr = ("case", "translator", "generated Gallina", "AssertedGen.v compiles", "AssertedGenLemmas.v compiles", "verdict")
    fmt = lambda x: "-" if x is None else ("yes" if x is True else ("NO" if x is False else str(x)))  # noqa: E731
    table = [hdr] + [tuple(fmt(c) for c in r) for r in rows]
    widths = [max(len(r[i]) for r in table) for i in range(len(hdr))]
    print()
    for k, r in enumerate(table):
        print(" | ".join(c.ljust(w) for c, w in zip(r, widths)))
        if k == 0:
            print("-+-".join("-" * w for w in widths))
    print("\nRESULT:", "all mutations caught, clean source accepted" if ok else "FAILURE")
    sys.exit(0 if ok else 1)


if __name__ == "__main__":
    main()
