#!/venv/bin/python
"""Self-test of tools/translate_copy.py (the regenerated copy_main_cfg, Gen/CopyGen.v).

(a) runs the translator on the clean source ($VERIF_REPO, default /tmp/cleanrepo) and checks that the output is the
    committed coq/Gen/CopyGen.v, compiles, and that Lemmas/CopyAux.v and Lemmas/CopyGenLemmas.v compile against it;
    The column "instances" says whether Lemmas/CopyInstances.v (three concrete contracts evaluated by vm_compute, no
    reference to the generated text) still compiles: NO = the mutant changes the result on one of them.
(b) applies small mutations to a scratch copy of teal/parse_functions.py / parse_teal.py / basic_blocks.py / teal.py /
    instructions/instructions.py / instructions/parse_instruction.py and shows that, for each, either the translator stops
    (TranslateError) or the generated Gallina differs AND the lemma files no longer compile against it.

Precondition: coq/ has been built (`make`).  Every coqc runs under `timeout`; the cases run in parallel (JOBS, default
6), each on its own scratch copy.  Exit status 0 iff every row has the expected verdict.

usage: VERIF_REPO=/tmp/cleanrepo /venv/bin/python tools/test_translate_copy.py [-v]
"""
import ast
import os
import re
import shutil
import subprocess
import sys
import tempfile
from concurrent.futures import ThreadPoolExecutor

HERE = os.path.dirname(os.path.abspath(__file__))
ROOT = os.path.dirname(HERE)
COQ = os.path.join(ROOT, "coq")
PY = "/venv/bin/python"
REPO = os.environ.get("VERIF_REPO", "/tmp/cleanrepo")
JOBS = int(os.environ.get("JOBS", "6"))

PF = "tealer/teal/parse_functions.py"
PT = "tealer/teal/parse_teal.py"
BB = "tealer/teal/basic_blocks.py"
TL = "tealer/teal/teal.py"
INS = "tealer/teal/instructions/instructions.py"
PI = "tealer/teal/instructions/parse_instruction.py"
LEMMA_FILES = ["CopyAux.v", "CopyInstances.v", "CopyGenLemmas.v"]  # CopyInstances.v: concrete contracts only (independent of the generated text)


def sh(cmd, cwd=None, env=None):
    e = dict(os.environ)
    if env:
        e.update(env)
    p = subprocess.run(cmd, shell=True, cwd=cwd, stdout=subprocess.PIPE, stderr=subprocess.STDOUT, env=e, check=False)
    return p.returncode, p.stdout.decode(errors="replace")


# ----------------------------------------------------------------------------- mutations (text -> text)
def replace_once(src, old, new):
    if src.count(old) != 1:
        raise RuntimeError(f"mutation anchor found {src.count(old)} times: " + old[:60])
    return src.replace(old, new, 1)


def R(old, new):
    return lambda src: replace_once(src, old, new)


IDX_LOOP = "    for bb_copy, bb_orig in zip(all_bbs, original_blocks):\n        bb_copy.idx = bb_orig.idx\n"
CALLSUB_IF = (
    "        if isinstance(ins_copy, Callsub):\n            assert isinstance(ins_orig, Callsub)\n"
    "            ins_copy.called_subroutine = ins_orig.called_subroutine\n"
)
TEXT = '            source_code += "\\n".join(ins.comments_before_ins) + "\\n" + ins.source_code + "\\n"\n'

MUTATIONS = [
    # --- block ids
    ("(i1) block ids not transferred (loop dropped)", PF, R(IDX_LOOP, "")),
    ("(i2) ids taken from the copy itself", PF, R("        bb_copy.idx = bb_orig.idx\n", "        bb_copy.idx = bb_copy.idx\n")),
    ("(i3) ids transferred in reverse order", PF, R("zip(all_bbs, original_blocks)", "zip(all_bbs, reversed(original_blocks))")),
    ("(i4) ids transferred before the copies are sorted", PF, lambda s: replace_once(replace_once(s, IDX_LOOP, ""), "    all_bbs = sorted(all_bbs, key=lambda bi: bi.entry_instr.line)\n", IDX_LOOP + "    all_bbs = sorted(all_bbs, key=lambda bi: bi.entry_instr.line)\n")),
    # --- line numbers
    ("(l1) line numbers not transferred", PF, R("        ins_copy.line = ins_orig.line\n", "        pass\n")),
    ("(l2) line numbers taken from the copy itself", PF, R("        ins_copy.line = ins_orig.line\n", "        ins_copy.line = ins_copy.line\n")),
    ("(l3) line numbers shifted by one instruction", PF, R("zip(instructions, original_instructions)", "zip(instructions, original_instructions[1:])")),
    ("(l4) line numbers of the originals overwritten instead", PF, R("        ins_copy.line = ins_orig.line\n", "        ins_orig.line = ins_copy.line\n")),
    # --- which blocks are copied
    ("(s1) all blocks of the contract copied (teal.bbs)", PF, R("sorted(teal.main.blocks, key=lambda bi: bi.idx)", "sorted(teal.bbs, key=lambda bi: bi.idx)")),
    ("(s2) main blocks taken in DFS order (not sorted)", PF, R("sorted(teal.main.blocks, key=lambda bi: bi.idx)", "teal.main.blocks")),
    ("(s3) main blocks sorted by another key", PF, R("sorted(teal.main.blocks, key=lambda bi: bi.idx)", "sorted(teal.main.blocks, key=lambda bi: bi.entry_instr.line)")),
    ("(s4) original_blocks not recorded", PF, R("        original_blocks.append(bi)\n", "")),
    ("(s5) original instruction recorded twice", PF, R("            original_instructions.append(ins)\n", "            original_instructions.append(ins)\n            original_instructions.append(ins)\n")),
    # --- callsub targets
    ("(c1) callsub target not restored", PF, R(CALLSUB_IF, "")),
    ("(c2) callsub target read from the copy", PF, R("ins_copy.called_subroutine = ins_orig.called_subroutine", "ins_copy.called_subroutine = ins_copy.called_subroutine")),
    ("(c3) callsub target restored on every instruction", PF, R(CALLSUB_IF, "        ins_copy.called_subroutine = ins_orig.called_subroutine\n")),
    ("(c4) the assert dropped", PF, R("            assert isinstance(ins_orig, Callsub)\n", "")),
    # --- the text
    ("(t1) text built from str(ins) instead of the source line", PF, R("+ ins.source_code +", "+ str(ins) +")),
    ("(t2) comment lines dropped from the text", PF, R('"\\n".join(ins.comments_before_ins) + "\\n" + ins.source_code', "ins.source_code")),
    ("(t3) no line break after the source line", PF, R('+ ins.source_code + "\\n"', "+ ins.source_code")),
    ("(t4) lines joined with a space", PF, R('"\\n".join(ins.comments_before_ins)', '" ".join(ins.comments_before_ins)')),
    ("(t5) text split on whitespace", PF, R("lines = source_code.splitlines()", "lines = source_code.split()")),
    # --- the passes
    ("(p1) second_pass dropped", PF, R("    second_pass(instructions, labels)\n", "")),
    ("(p2) fourth_pass before create_bb", PF, lambda s: replace_once(replace_once(s, "    fourth_pass(all_bbs)\n", ""), "    create_bb(instructions, all_bbs)\n", "    fourth_pass(all_bbs)\n    create_bb(instructions, all_bbs)\n")),
    ("(p3) create_bb run on the original instructions", PF, R("create_bb(instructions, all_bbs)", "create_bb(original_instructions, all_bbs)")),
    ("(p4) fourth_pass dropped", PF, R("    fourth_pass(all_bbs)\n", "")),
    ("(p5) first_pass called twice", PF, R("    second_pass(instructions, labels)\n", "    _, _ = first_pass(lines, labels, subroutine_callsubs, instructions)\n    second_pass(instructions, labels)\n")),
    # --- the sort of the copies
    ("(o1) copies sorted in reverse", PF, R("key=lambda bi: bi.entry_instr.line)", "key=lambda bi: -bi.entry_instr.line)")),
    ("(o2) copies not sorted", PF, R("    all_bbs = sorted(all_bbs, key=lambda bi: bi.entry_instr.line)\n", "")),
    ("(o3) a prefix of the copies returned", PF, R("    return all_bbs\n", "    return all_bbs[:1]\n")),
    # --- the glue table / fail-closed checks
    ("(g1) Instruction.line setter edited (instructions.py)", INS, R("    def line(self, l: int) -> None:\n        self._line_num = l\n", "    def line(self, l: int) -> None:\n        self._line_num = l + 1\n")),
    ("(g2) BasicBlock.idx setter edited (basic_blocks.py)", BB, R("    def idx(self, i: int) -> None:\n        self._idx = i\n", "    def idx(self, i: int) -> None:\n        self._idx = i + 1\n")),
    ("(g3) Teal.main returns another subroutine (teal.py)", TL, R("        return self._main\n", "        return list(self._subroutines.values())[0]\n")),
    ("(g4) parse_line stores the stripped line (parse_instruction.py)", PI, R("    source_code_line = line\n", "    source_code_line = line.strip()\n")),
    ("(g5) first_pass counts lines by two (parse_teal.py)", PT, R("        idx = idx + 1\n", "        idx = idx + 2\n")),
    ("(g6) Callsub.called_subroutine setter edited (instructions.py)", INS, R("        self._called_subroutine = subroutine\n", "        self._called_subroutine = None\n")),
    ("(g7) first_pass re-bound at module level", PF, lambda s: s + "\n\nfirst_pass = second_pass\n"),
    ("(g8) construct_function no longer starts with the copy", PF, R("    function_blocks = copy_main_cfg(teal)\n    entry = function_blocks[0]\n", "    function_blocks = list(teal.main.blocks)\n    entry = function_blocks[0]\n")),
    ("(g9) the skipped back-pointer loop edited", PF, R("        bb.teal = teal\n        bb.tealer_comments.insert(0", "        bb.idx = 0\n        bb.tealer_comments.insert(0")),
    ("(g10) BasicBlock defines __lt__ (basic_blocks.py)", BB, R("    @property\n    def instructions(self)", "    def __lt__(self, other: object) -> bool:\n        return True\n\n    @property\n    def instructions(self)")),
    ("(g11) try statement around the transfer", PF, R("        ins_copy.line = ins_orig.line\n", "        try:\n            ins_copy.line = ins_orig.line\n        except AttributeError:\n            pass\n")),
    ("(g12) Instruction.source_code returns the comment (instructions.py)", INS, R("        return self._source_code_line\n", "        return self._comment\n")),
]
# behaviour-preserving rewrites: reported, not required to be caught
NEUTRAL = [
    ("(n1) loop variables renamed", PF, lambda s: s.replace("ins_copy", "ic").replace("ins_orig", "io")),
    ("(n2) `original_blocks += [bi]`-style append kept but source text initialised with str()", PF, R('    source_code = ""\n', '    source_code = str()\n')),
]


# ----------------------------------------------------------------------------- one run
def enclosing(vfile, line):
    name = "?"
    with open(vfile, encoding="utf-8") as f:
        for i, l in enumerate(f, 1):
            m = re.match(r"\s*(Lemma|Theorem|Corollary|Definition|Example)\s+(\w+)", l)
            if m and i <= line:
                name = m.group(2)
            if i > line:
                break
    return name


def run_case(work, rel=None, mutate=None):
    """-> dict(translator=..., text=..., gen_ok=..., lemmas_ok=..., where=..., log=...)"""
    gen = os.path.join(work, "Gen")
    lem = os.path.join(work, "Lemmas")
    scratch = os.path.join(work, "repo")
    os.makedirs(gen)
    os.makedirs(lem)
    shutil.copytree(os.path.join(REPO, "tealer"), os.path.join(scratch, "tealer"), ignore=shutil.ignore_patterns("__pycache__"))
    if mutate:
        path = os.path.join(scratch, rel)
        with open(path, encoding="utf-8") as fh:
            orig = fh.read()
        new = mutate(orig)
        if new == orig:
            raise RuntimeError("mutation did not change the source")
        ast.parse(new)  # the mutant is valid Python
        with open(path, "w", encoding="utf-8") as fh:
            fh.write(new)
    rc, out = sh(f"{PY} {HERE}/translate_copy.py {gen}", env={"VERIF_REPO": scratch})
    res = {"translator": "ok" if rc == 0 else "STOPPED", "log": out.strip().replace(scratch + "/", ""), "text": None, "gen_ok": None, "lemmas_ok": None, "where": None, "inst_ok": None}
    if rc != 0:
        if rc != 2 or "translator:" not in out:
            res["translator"] = "CRASHED"
        return res
    with open(os.path.join(gen, "CopyGen.v"), encoding="utf-8") as fh:
        res["text"] = fh.read()
    # the other generated files and the other lemma files are taken (compiled) from the built tree
    for f in os.listdir(os.path.join(COQ, "Gen")):
        if f.endswith(".vo") and f != "CopyGen.vo":
            os.symlink(os.path.join(COQ, "Gen", f), os.path.join(gen, f))
    skip = {x[:-2] + ".vo" for x in LEMMA_FILES}
    for f in os.listdir(os.path.join(COQ, "Lemmas")):
        if f.endswith(".vo") and f not in skip:
            os.symlink(os.path.join(COQ, "Lemmas", f), os.path.join(lem, f))
    q = f"-Q {COQ}/Model Tealer -Q {gen} Tealer -Q {COQ}/Spec Tealer -Q {lem} Tealer"
    rc, out = sh(f"timeout 600 coqc {q} {gen}/CopyGen.v 2>&1")
    res["gen_ok"] = rc == 0
    res["log"] += "\n" + out[-1500:]
    if rc == 0:
        res["lemmas_ok"] = True
        for name in LEMMA_FILES:
            lemv = os.path.join(lem, name)
            shutil.copy(os.path.join(COQ, "Lemmas", name), lemv)
            rc, out = sh(f"timeout 1800 coqc {q} {lemv} 2>&1")
            res["log"] += "\n" + out[-1500:]
            if name == "CopyInstances.v":
                res["inst_ok"] = rc == 0
                if rc != 0:
                    # keep going: the general lemmas are checked against the built CopyInstances.vo's definitions only
                    # if the instances hold; a failing instance already refutes the theorem for this mutant
                    res["lemmas_ok"] = False
                    m = re.search(r"line (\d+), characters", out)
                    res["where"] = f"{name}: {enclosing(lemv, int(m.group(1)))} (line {m.group(1)})" if m else ("timeout" if rc == 124 else "?")
                    break
                continue
            if rc != 0:
                res["lemmas_ok"] = False
                m = re.search(r"line (\d+), characters", out)
                res["where"] = f"{name}: {enclosing(lemv, int(m.group(1)))} (line {m.group(1)})" if m else ("timeout" if rc == 124 else "?")
                break
    return res


def main():
    verbose = "-v" in sys.argv
    for f in ("Model/Group.vo", "Gen/FunctionGen.vo", "Gen/CfgGen.vo", "Gen/LineGen.vo", "Lemmas/FunctionGenLemmas.vo", "Lemmas/CopyNext.vo"):
        if not os.path.exists(os.path.join(COQ, f)):
            print(f"precondition: {COQ}/{f} missing -- build coq/ first (make)")
            sys.exit(3)
    top = tempfile.mkdtemp(prefix="tcopy_")
    rows = []
    ok = True
    try:
        cases = [("(a) clean source", None, None)] + MUTATIONS + NEUTRAL
        with ThreadPoolExecutor(max_workers=JOBS) as ex:
            futs = [ex.submit(run_case, os.path.join(top, f"c{i}"), rel, fn) for i, (_, rel, fn) in enumerate(cases)]
            results = [f.result() for f in futs]
        base = results[0]
        same = None
        cur = os.path.join(COQ, "Gen", "CopyGen.v")
        if base["text"] is not None and os.path.exists(cur):
            with open(cur, encoding="utf-8") as fh:
                same = fh.read() == base["text"]
        good = base["translator"] == "ok" and base["gen_ok"] and base["lemmas_ok"] and same is True
        ok &= bool(good)
        rows.append(("(a) clean source", base["translator"], "= coq/Gen/CopyGen.v" if same else ("DIFFERS from coq/Gen" if same is False else "-"), base["gen_ok"], base["inst_ok"], base["lemmas_ok"], "PASS" if good else "FAIL"))
        if verbose or not good:
            print(base["log"])
        for i, ((name, rel, fn), r) in enumerate(zip(cases[1:], results[1:])):
            neutral = i >= len(MUTATIONS)
            if r["translator"] == "STOPPED":
                verdict, good, diff = "caught: translator stops", True, "-"
            elif r["translator"] == "CRASHED":
                verdict, good, diff = "FAIL: translator crashed", False, "-"
            else:
                differs = r["text"] != base["text"]
                diff = "differs" if differs else "IDENTICAL"
                if differs and r["gen_ok"] and r["lemmas_ok"] is False:
                    verdict, good = f"caught: lemmas break in {r['where']}", True
                elif differs and not r["gen_ok"]:
                    verdict, good = "caught: CopyGen.v ill-typed", True
                elif neutral:
                    verdict, good = "accepted (behaviour-preserving rewrite)", True
                else:
                    verdict, good = "FAIL: NOT DETECTED", False
            if neutral:
                verdict = "[not a defect] " + verdict
            ok &= good
            rows.append((name, r["translator"], diff, r["gen_ok"], r["inst_ok"], r["lemmas_ok"], verdict))
            if verbose or not good:
                print(f"--- {name}\n{r['log']}\n")
            elif r["translator"] == "STOPPED":
                print(f"--- {name}: {r['log'].splitlines()[0][:260]}")
    finally:
        shutil.rmtree(top, ignore_errors=True)
    hdr = ("case", "translator", "generated Gallina", "CopyGen.v compiles", "instances", "lemma files compile", "verdict")
    fmt = lambda x: "-" if x is None else ("yes" if x is True else ("NO" if x is False else str(x)))  # noqa: E731
    table = [hdr] + [tuple(fmt(c) for c in r) for r in rows]
    widths = [max(len(r[i]) for r in table) for i in range(len(hdr))]
    print()
    for k, r in enumerate(table):
        print(" | ".join(c.ljust(w) for c, w in zip(r, widths)))
        if k == 0:
            print("-+-".join("-" * w for w in widths))
    print("\nRESULT:", "all mutations caught, clean source accepted" if ok else "FAILURE")
    sys.exit(0 if ok else 1)


if __name__ == "__main__":
    main()
