#!/venv/bin/python
"""Self-test of tools/translate_run.py (the regenerated orchestration of the dataflow analysis, Gen/RunGen.v).

(a) runs the translator on the clean source ($VERIF_REPO, default /tmp/cleanrepo) and checks that the output is the
    committed coq/Gen/RunGen.v, compiles, and that Lemmas/RunGenLemmas.v compiles against it;
(b) applies small mutations to a scratch copy of generic.py / key_helpers.py / int_fields.py / parse_functions.py /
    fee_field.py and shows that, for each, either the translator stops (TranslateError) or the generated Gallina differs
    AND Lemmas/RunGenLemmas.v no longer compiles against it.  For the mutants the translator accepts, the PROBE of the
    lemma file (concrete instances, statements about the generated functions alone, proved by vm_compute) is compiled
    on its own against the mutant as well: it tells whether the instances distinguish the mutant semantically,
    independently of the proof scripts.

Precondition: coq/ has been built (`make`).  Every coqc runs under `timeout`.  Exit status 0 iff every row has the
expected verdict.

usage: VERIF_REPO=/tmp/cleanrepo /venv/bin/python tools/test_translate_run.py [-v]
"""
import ast
import os
import re
import shutil
import subprocess
import sys
import tempfile

HERE = os.path.dirname(os.path.abspath(__file__))
ROOT = os.path.dirname(HERE)
COQ = os.path.join(ROOT, "coq")
PY = "/venv/bin/python"
REPO = os.environ.get("VERIF_REPO", "/tmp/cleanrepo")

GEN = "tealer/analyses/dataflow/transaction_context/generic.py"
FEE = "tealer/analyses/dataflow/transaction_context/fee_field.py"
KH = "tealer/analyses/dataflow/transaction_context/utils/key_helpers.py"
IF = "tealer/analyses/dataflow/transaction_context/int_fields.py"
PF = "tealer/teal/parse_functions.py"

PROBE_HEAD = """From Coq Require Import String List NArith ZArith Bool Arith.
From Tealer Require Import Tables Syntax Parse Cfg StackAst Keys KeysGen Analysis GraphGen SolverGen ConstraintsGen RunGen.
Import ListNotations.
Open Scope string_scope.
Open Scope list_scope.
"""


def sh(cmd, cwd=None, env=None):
    e = dict(os.environ)
    if env:
        e.update(env)
    p = subprocess.run(cmd, shell=True, cwd=cwd, stdout=subprocess.PIPE, stderr=subprocess.STDOUT, env=e, check=False)
    return p.returncode, p.stdout.decode(errors="replace")


# ----------------------------------------------------------------------------- mutations (text -> text)
def replace_n(src, old, new, n=1):
    if src.count(old) != n:
        raise RuntimeError(f"mutation anchor found {src.count(old)} times (expected {n}): " + old[:60])
    return src.replace(old, new)


def replace_first(src, old, new, n):
    if src.count(old) != n:
        raise RuntimeError(f"mutation anchor found {src.count(old)} times (expected {n}): " + old[:60])
    return src.replace(old, new, 1)


IN_TEST = "                if ind in self._function.transaction_context(block).group_indices:\n"


def mut_sorted_assumption(src):
    """(i) the real regression: `ind <= group_indices[-1] and ind in group_indices` (assumes a sorted, non-empty list)"""
    return replace_n(
        src,
        IN_TEST,
        "                group_indices = self._function.transaction_context(block).group_indices\n"
        "                if ind <= group_indices[-1] and ind in group_indices:\n",
    )


def mut_offsets(src):
    """(ii) the range of the relative offsets misses the most negative offset"""
    return replace_n(src, "            for offset in range(-(MAX_GROUP_SIZE - 1), MAX_GROUP_SIZE):\n", "            for offset in range(-(MAX_GROUP_SIZE - 2), MAX_GROUP_SIZE):\n")


def mut_backward_leaves(src):
    """(iii) the backward worklist keeps the leaf blocks (both constructions)"""
    return replace_n(src, "            worklist += [b for b in l if not leaf_block_global(b)]  # postorder, exclude leaf blocks\n", "            worklist += l\n", 2)


def mut_forward_postorder(src):
    """(iv) the forward worklist uses post-order instead of reverse post-order (both constructions)"""
    return replace_n(src, "            worklist += l[::-1]  # Reverse postorder\n", "            worklist += l\n", 2)


def mut_union(src):
    """(v) _update_gtxn_constraints uses union instead of intersection"""
    return replace_n(
        src,
        "                    self._block_contexts[gtx_key][block] = self._intersection(\n                        gtx_key,\n                        self._block_contexts[gtx_key][block],\n",
        "                    self._block_contexts[gtx_key][block] = self._union(\n                        gtx_key,\n                        self._block_contexts[gtx_key][block],\n",
    )


def mut_index_range(src):
    """(x1) the at-index / absolute keys stop at MAX_GROUP_SIZE - 2"""
    return replace_first(src, "            for ind in range(MAX_GROUP_SIZE):\n", "            for ind in range(MAX_GROUP_SIZE - 1):\n", 2)


def mut_offset_zero(src):
    """(x2) the relative offset 0 is not skipped"""
    return replace_n(src, "                if offset == 0:\n                    continue\n", "")


def mut_abs_order(src):
    """(x3) the absolute key is appended before the at-index key"""
    return replace_n(
        src,
        "                gtx_keys.append(get_gtxn_at_index_key(ind, key))\n                gtx_keys.append(get_absolute_index_key(ind, key))\n",
        "                gtx_keys.append(get_absolute_index_key(ind, key))\n                gtx_keys.append(get_gtxn_at_index_key(ind, key))\n",
    )


def mut_preorder(src):
    """(x4) _postorder appends the block before the recursive calls (pre-order)"""
    return replace_n(
        src,
        "            visited.add(block)\n            for successor in block.next:\n                if not successor in visited:\n                    dfs(successor)\n            order.append(block)\n",
        "            visited.add(block)\n            order.append(block)\n            for successor in block.next:\n                if not successor in visited:\n                    dfs(successor)\n",
    )


def mut_no_visited(src):
    """(x5) _postorder does not mark the block as visited"""
    return replace_n(src, "            visited.add(block)\n", "            visited.add(entry)\n") if False else replace_n(src, "                if not successor in visited:\n                    dfs(successor)\n", "                if not successor in order:\n                    dfs(successor)\n")


def mut_no_entry(src):
    """(x6) the post-order of the function's main is not computed"""
    return replace_n(src, "        postorder = [self._postorder(self._entry_block)]\n", "        postorder = [[self._entry_block]]\n")


def mut_one_forward(src):
    """(x7) only the FIRST forward worklist uses post-order (the two constructions differ)"""
    return replace_first(src, "            worklist += l[::-1]  # Reverse postorder\n", "            worklist += l\n", 2)


def mut_prev_for_next(src):
    """(x8) _postorder follows the predecessors"""
    return replace_n(src, "            for successor in block.next:\n", "            for successor in block.prev:\n")


def mut_else_universal(src):
    """(x9) an impossible index gets the universal set"""
    return replace_n(src, "                    self._block_contexts[gtx_key][block] = self._null_set(gtx_key)\n", "                    self._block_contexts[gtx_key][block] = self._universal_set(gtx_key)\n")


def mut_abs_refined(src):
    """(x10) _update_gtxn_constraints refines the ABSOLUTE key"""
    return replace_first(src, "                gtx_key = get_gtxn_at_index_key(ind, key)\n", "                gtx_key = get_absolute_index_key(ind, key)\n", 1)


def mut_not_in(src):
    """(x11) the membership test is negated"""
    return replace_n(src, IN_TEST, IN_TEST.replace("if ind in", "if ind not in"))


def mut_base_only(src):
    """(x12) the refined value forgets the at-index constraint (base key only)"""
    return replace_n(
        src,
        "                        gtx_key,\n                        self._block_contexts[gtx_key][block],\n                        self._block_contexts[key][block],\n",
        "                        gtx_key,\n                        self._block_contexts[key][block],\n                        self._block_contexts[key][block],\n",
    )


def mut_subs_reversed(src):
    """(s1) the subroutines are visited in reverse order"""
    return replace_n(src, "        for subroutine in self._function.subroutines.values():\n", "        for subroutine in reversed(list(self._function.subroutines.values())):\n")


def mut_fstring(src):
    """(s2, key_helpers.py) the at-index key is no longer zero-padded"""
    return replace_n(src, '    return f"GTXN_AT_INDEX_{idx:02d}_{base_key}"\n', '    return f"GTXN_AT_INDEX_{idx}_{base_key}"\n')


def mut_store_results(src):
    """(s3, int_fields.py) GroupIndices._store_results stores the group sizes as group_indices"""
    return replace_n(src, "            self._function.transaction_context(block).group_indices = list(\n                group_index_block_context[block]\n", "            self._function.transaction_context(block).group_indices = list(\n                group_size_block_context[block]\n")


def mut_analysis_order(src):
    """(s4, parse_functions.py) the group-indices analysis no longer runs first"""
    return replace_n(
        src,
        "    group_indices_cls(function).run_analysis()\n    for cl in analyses_classes:\n",
        "    for cl in analyses_classes + [group_indices_cls]:\n",
    ).replace('        logger.debug(f\'[+] Running txn field analysis: "{cl.__name__}"\')\n        cl(function).run_analysis()\n', "        cl(function).run_analysis()\n")


def mut_override(src):
    """(s5, fee_field.py) a subclass overrides _update_gtxn_constraints"""
    return src + "\n\nclass Shadow(FeeField):\n    def _update_gtxn_constraints(self, keys_with_gtxn, block):\n        return None\n"


def mut_keys_runtime(src):
    """(s6, fee_field.py) KEYS_WITH_GTXN assigned at run time"""
    return src + "\n\nclass Shadow2(FeeField):\n    def run_analysis(self):\n        self.KEYS_WITH_GTXN = []\n"


def mut_debug_read(src):
    """(s7) a logging statement reads a key that is not guarded by `debug_key in self.BASE_KEYS`"""
    return replace_n(src, '        logger_txn_ctx.debug("After Forward:")\n', '        logger_txn_ctx.debug(f"After Forward: {self._block_contexts[\'X\'][self._entry_block]}")\n')


def mut_store_not_last(src):
    """(s8) a statement after self._store_results()"""
    return replace_n(src, "        self._store_results()\n", "        self._store_results()\n        self._block_contexts.clear()\n")


def mut_gtxn_before_update(src):
    """(s9) _update_gtxn_constraints is applied to one block only (loop replaced by the entry block)"""
    return replace_n(
        src,
        "        for block in self._function.blocks:\n            self._update_gtxn_constraints(self.KEYS_WITH_GTXN, block)\n",
        "        self._update_gtxn_constraints(self.KEYS_WITH_GTXN, self._entry_block)\n",
    )


def mut_base_keys_loop(src):
    """(x13) the gtxn keys are built for BASE_KEYS instead of KEYS_WITH_GTXN"""
    return replace_n(src, "        for key in self.KEYS_WITH_GTXN:\n", "        for key in self.BASE_KEYS:\n")


def mut_second_pass_all_keys(src):
    """(x14) the second pair of passes runs on all keys"""
    return replace_n(src, "        analysis_keys = gtx_keys\n", "        analysis_keys = all_keys\n")


def mut_update_after(src):
    """(x15) _update_gtxn_constraints runs BEFORE the passes of the base keys"""
    upd = "        for block in self._function.blocks:\n            self._update_gtxn_constraints(self.KEYS_WITH_GTXN, block)\n"
    src = replace_n(src, upd, "")
    return replace_n(src, "        analysis_keys = list(self.BASE_KEYS)\n", upd + "        analysis_keys = list(self.BASE_KEYS)\n")


# ---- twin audit (same-typed names written for each other, swapped argument order)
def mut_passes_exchanged(src):
    """(t1) the calls of forward_analyis and backward_analysis exchanged (twin methods of the same signature)"""
    src = src.replace("        self.forward_analyis(analysis_keys, worklist)\n", "        self.BACKWARD_TMP(analysis_keys, worklist)\n")
    src = src.replace("        self.backward_analysis(analysis_keys, worklist)\n", "        self.forward_analyis(analysis_keys, worklist)\n")
    if src.count("        self.BACKWARD_TMP(analysis_keys, worklist)\n") != 2:
        raise RuntimeError("mutation anchor not found: the two calls of forward_analyis")
    return src.replace("        self.BACKWARD_TMP(analysis_keys, worklist)\n", "        self.backward_analysis(analysis_keys, worklist)\n")


def mut_constraints_keys_base(src):
    """(t2) the constraints are initialised for BASE_KEYS only (twin key lists)"""
    return replace_n(src, "            self._block_level_constraints(all_keys, block)  # initialise information for all keys\n", "            self._block_level_constraints(self.BASE_KEYS, block)  # initialise information for all keys\n")


def mut_update_base_keys(src):
    """(t3) _update_gtxn_constraints is called with BASE_KEYS (twin class attributes)"""
    return replace_n(src, "            self._update_gtxn_constraints(self.KEYS_WITH_GTXN, block)\n", "            self._update_gtxn_constraints(self.BASE_KEYS, block)\n")


def mut_all_keys_order(src):
    """(a1) all_keys = gtx_keys + self.BASE_KEYS"""
    return replace_n(src, "        all_keys = self.BASE_KEYS + gtx_keys\n", "        all_keys = gtx_keys + self.BASE_KEYS\n")


def mut_update_args(src):
    """(a2) _update_gtxn_constraints: the two set arguments of _intersection swapped"""
    return replace_n(
        src,
        "                        self._block_contexts[gtx_key][block],\n                        self._block_contexts[key][block],\n",
        "                        self._block_contexts[key][block],\n                        self._block_contexts[gtx_key][block],\n",
    )


def mut_range_args(src):
    """(a3) range(MAX_GROUP_SIZE, -(MAX_GROUP_SIZE - 1)): the two arguments of range exchanged"""
    return replace_n(src, "            for offset in range(-(MAX_GROUP_SIZE - 1), MAX_GROUP_SIZE):\n", "            for offset in range(MAX_GROUP_SIZE, -(MAX_GROUP_SIZE - 1)):\n")


def mut_key_helper_args(src):
    """(a4) get_gtxn_at_index_key(key, ind) in run_analysis"""
    return replace_n(src, "                gtx_keys.append(get_gtxn_at_index_key(ind, key))\n", "                gtx_keys.append(get_gtxn_at_index_key(key, ind))\n")


MUTATIONS = [
    ("(i) `ind <= group_indices[-1] and ind in ..` (regression)", GEN, mut_sorted_assumption),
    ("(ii) relative offsets miss the most negative one", GEN, mut_offsets),
    ("(iii) backward worklist keeps leaf blocks", GEN, mut_backward_leaves),
    ("(iv) forward worklist in post-order", GEN, mut_forward_postorder),
    ("(v) _update_gtxn_constraints: union for intersection", GEN, mut_union),
    ("(x1) at-index/absolute keys: range(MAX_GROUP_SIZE - 1)", GEN, mut_index_range),
    ("(x2) relative offset 0 not skipped", GEN, mut_offset_zero),
    ("(x3) absolute key appended before at-index key", GEN, mut_abs_order),
    ("(x4) _postorder: pre-order", GEN, mut_preorder),
    ("(x5) _postorder: visited test on `order`", GEN, mut_no_visited),
    ("(x6) main's post-order replaced by [entry]", GEN, mut_no_entry),
    ("(x7) the two forward worklists differ", GEN, mut_one_forward),
    ("(x8) _postorder follows block.prev", GEN, mut_prev_for_next),
    ("(x9) impossible index: universal set", GEN, mut_else_universal),
    ("(x10) the absolute key is refined", GEN, mut_abs_refined),
    ("(x11) membership test negated", GEN, mut_not_in),
    ("(x12) refined value ignores the at-index cell", GEN, mut_base_only),
    ("(x13) gtxn keys built for BASE_KEYS", GEN, mut_base_keys_loop),
    ("(x14) second pair of passes on all keys", GEN, mut_second_pass_all_keys),
    ("(x15) _update_gtxn_constraints before the base passes", GEN, mut_update_after),
    ("(s1) subroutines in reverse order", GEN, mut_subs_reversed),
    ("(s2) key helper f-string edited", KH, mut_fstring),
    ("(s3) GroupIndices._store_results edited", IF, mut_store_results),
    ("(s4) group-indices analysis not first", PF, mut_analysis_order),
    ("(s5) subclass overrides _update_gtxn_constraints", FEE, mut_override),
    ("(s6) KEYS_WITH_GTXN assigned at run time", FEE, mut_keys_runtime),
    ("(s7) unguarded read in a logging statement", GEN, mut_debug_read),
    ("(s8) statement after self._store_results()", GEN, mut_store_not_last),
    ("(s9) _update_gtxn_constraints outside the block loop", GEN, mut_gtxn_before_update),
    ("(t1) TWIN forward / backward calls exchanged", GEN, mut_passes_exchanged),
    ("(t2) TWIN constraints initialised for BASE_KEYS", GEN, mut_constraints_keys_base),
    ("(t3) TWIN _update_gtxn_constraints(BASE_KEYS, ..)", GEN, mut_update_base_keys),
    ("(a1) ARGS all_keys = gtx_keys + BASE_KEYS", GEN, mut_all_keys_order),
    ("(a2) ARGS update: _intersection(key, y, x)", GEN, mut_update_args),
    ("(a3) ARGS range(MAX, -(MAX - 1))", GEN, mut_range_args),
    ("(a4) ARGS get_gtxn_at_index_key(key, ind)", GEN, mut_key_helper_args),
]
REQUIRED = 5  # the first five rows are the mutations required by the task


# ----------------------------------------------------------------------------- one run
def enclosing(vfile, line):
    name = "?"
    with open(vfile, encoding="utf-8") as f:
        for i, l in enumerate(f, 1):
            m = re.match(r"\s*(Lemma|Theorem|Corollary|Definition|Example)\s+(\w+)", l)
            if m and i <= line:
                name = m.group(2)
            if i > line:
                break
    return name


def probe_text():
    with open(os.path.join(COQ, "Lemmas", "RunGenLemmas.v"), encoding="utf-8") as fh:
        s = fh.read()
    a, b = s.index("(* PROBE-BEGIN *)"), s.index("(* PROBE-END *)")
    return PROBE_HEAD + s[a:b] + "\n"


def run_case(work, scratch, rel=None, mutate=None):
    gen = os.path.join(work, "Gen")
    lem = os.path.join(work, "Lemmas")
    os.makedirs(gen)
    os.makedirs(lem)
    path, orig = None, None
    if mutate:
        path = os.path.join(scratch, rel)
        with open(path, encoding="utf-8") as fh:
            orig = fh.read()
        new = mutate(orig)
        if new == orig:
            raise RuntimeError("mutation did not change the source")
        ast.parse(new)  # the mutant is valid Python
        with open(path, "w", encoding="utf-8") as fh:
            fh.write(new)
    try:
        rc, out = sh(f"{PY} {HERE}/translate_run.py {gen}", env={"VERIF_REPO": scratch})
    finally:
        if path:
            with open(path, "w", encoding="utf-8") as fh:
                fh.write(orig)
    res = {"translator": "ok" if rc == 0 else "STOPPED", "log": out.strip().replace(scratch + "/", ""), "text": None, "gen_ok": None, "lemmas_ok": None, "where": None, "probe_ok": None}
    if rc != 0:
        if rc != 2 or "translator:" not in out:
            res["translator"] = "CRASHED"
        return res
    with open(os.path.join(gen, "RunGen.v"), encoding="utf-8") as fh:
        res["text"] = fh.read()
    # the other generated files are taken (compiled) from the built tree
    for f in ("Tables.vo", "Leaves.vo", "KeysGen.vo", "SingleGen.vo", "AssertedGen.vo", "GraphGen.vo", "SolverGen.vo", "ConstraintsGen.vo"):
        os.symlink(os.path.join(COQ, "Gen", f), os.path.join(gen, f))
    lemv = os.path.join(lem, "RunGenLemmas.v")
    shutil.copy(os.path.join(COQ, "Lemmas", "RunGenLemmas.v"), lemv)
    q = f"-Q {COQ}/Model Tealer -Q {gen} Tealer -Q {COQ}/Spec Tealer -Q {COQ}/Lemmas Tealer"
    rc, out = sh(f"timeout 300 coqc {q} {gen}/RunGen.v 2>&1")
    res["gen_ok"] = rc == 0
    res["log"] += "\n" + out[-1500:]
    if rc == 0:
        rc, out = sh(f"timeout 900 coqc {q} {lemv} 2>&1")
        res["lemmas_ok"] = rc == 0
        res["log"] += "\n" + out[-1500:]
        if rc != 0:
            m = re.search(r"line (\d+), characters", out)
            res["where"] = f"{enclosing(lemv, int(m.group(1)))} (line {m.group(1)})" if m else ("timeout" if rc == 124 else "?")
        probe = os.path.join(lem, "RunGenProbe.v")
        with open(probe, "w", encoding="utf-8") as fh:
            fh.write(probe_text())
        rc, out = sh(f"timeout 300 coqc {q} {probe} 2>&1")
        res["probe_ok"] = rc == 0
    return res


def main():
    verbose = "-v" in sys.argv
    for f in ("Model/Analysis.vo", "Gen/KeysGen.vo", "Gen/GraphGen.vo", "Gen/SolverGen.vo", "Gen/ConstraintsGen.vo", "Lemmas/SolverGenLemmas.vo", "Lemmas/ConstraintsGenLemmas.vo", "Lemmas/GraphWf.vo", "Lemmas/TotalLemmas.vo"):
        if not os.path.exists(os.path.join(COQ, f)):
            print(f"precondition: {COQ}/{f} missing -- build coq/ first (make)")
            sys.exit(3)
    top = tempfile.mkdtemp(prefix="trun_")
    scratch = os.path.join(top, "repo")
    shutil.copytree(os.path.join(REPO, "tealer"), os.path.join(scratch, "tealer"), ignore=shutil.ignore_patterns("__pycache__"))
    rows = []
    ok = True
    try:
        base = run_case(os.path.join(top, "base"), scratch)
        same = None
        cur = os.path.join(COQ, "Gen", "RunGen.v")
        if base["text"] is not None and os.path.exists(cur):
            with open(cur, encoding="utf-8") as fh:
                same = fh.read() == base["text"]
        good = base["translator"] == "ok" and base["gen_ok"] and base["lemmas_ok"] and base["probe_ok"] and same is True
        ok &= bool(good)
        rows.append(("(a) clean source", base["translator"], "= coq/Gen/RunGen.v" if same else ("DIFFERS from coq/Gen" if same is False else "-"), base["gen_ok"], base["lemmas_ok"], base["probe_ok"], "PASS" if good else "FAIL"))
        if verbose or not good:
            print(base["log"])
        for i, (name, rel, fn) in enumerate(MUTATIONS):
            r = run_case(os.path.join(top, f"m{i}"), scratch, rel, fn)
            if r["translator"] == "STOPPED":
                verdict, good, diff = "caught: translator stops", True, "-"
            elif r["translator"] == "CRASHED":
                verdict, good, diff = "FAIL: translator crashed", False, "-"
            else:
                differs = r["text"] != base["text"]
                diff = "differs" if differs else "IDENTICAL"
                if differs and r["gen_ok"] and r["lemmas_ok"] is False:
                    verdict, good = f"caught: lemmas break in {r['where']}", True
                elif differs and not r["gen_ok"]:
                    verdict, good = "caught: RunGen.v ill-typed", True
                else:
                    verdict, good = "FAIL: NOT DETECTED", False
            ok &= good
            rows.append((name, r["translator"], diff, r["gen_ok"], r["lemmas_ok"], r["probe_ok"], verdict))
            if verbose or not good:
                print(f"--- {name}\n{r['log']}\n")
            elif r["translator"] == "STOPPED":
                print(f"--- {name}: {r['log'].splitlines()[0][:260]}")
    finally:
        shutil.rmtree(top, ignore_errors=True)
    hdr = ("case", "translator", "generated Gallina", "RunGen.v compiles", "RunGenLemmas.v compiles", "probes hold", "verdict")
    fmt = lambda x: "-" if x is None else ("yes" if x is True else ("NO" if x is False else str(x)))  # noqa: E731
    table = [hdr] + [tuple(fmt(c) for c in r) for r in rows]
    widths = [max(len(r[i]) for r in table) for i in range(len(hdr))]
    print()
    for k, r in enumerate(table):
        print(" | ".join(c.ljust(w) for c, w in zip(r, widths)))
        if k == 0:
            print("-+-".join("-" * w for w in widths))
    print(
        "\nNotes.  (i): the mutant is accepted by the translator (l[-1] is subscript_last, IndexError on the empty list); the generated test is\n"
        "`ind <= last and ind in l`, the unfolding lemma upd_unfold no longer holds, and the probe (possible indices [3; 1], unsorted) fails:\n"
        "index 3 is declared impossible.  (v), (x9): every translated function that uses one of union/inter (univ/null, BASE_KEYS/KEYS_WITH_GTXN)\n"
        "takes both as parameters (translate_run.TWINS), so writing one for the other changes the body, not just the name of a parameter:\n"
        "upd_unfold no longer holds and the probe fails (max for min / 9 for 0).  (x7): run_analysis builds each worklist twice; the translator\n"
        "requires the two texts to be the same.  (x13)-(x15), (s9): caught by run_analysis_gen_unfold / gtx_keys_gen_eq (the structure of run_analysis)."
    )
    print("\nRESULT:", "all mutations caught, clean source accepted" if ok else "FAILURE")
    sys.exit(0 if ok else 1)


if __name__ == "__main__":
    main()
