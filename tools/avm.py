"""A small concrete interpreter of the TEAL fragment (written from the AVM specification, independent of
tealer) used only by the violation search: it decides whether a transaction group is approved and which
source lines were executed.  Opcodes outside the fragment raise Unsupported (the program is then skipped).

Semantics notes (AVM): values are uint64 or bytes; `&&`,`||` need uint64 operands; `==`/`!=` need equal
types; `<`.. need uint64; `+` fails on overflow, `-` on underflow; `assert` fails on 0; `return` ends the
program (approve iff top != 0); falling off the end approves iff the stack holds exactly one non-zero
uint64; `bnz`/`bz` pop a uint64; gtxn/gtxns with an index >= group size fail; callsub/retsub use a call
stack; retsub with an empty call stack fails.  A program step budget guards loops."""

MAXU = 2**64 - 1


class Unsupported(Exception):
    pass


class Fail(Exception):
    pass


ZERO = "ZERO"

TYPE_NAMES = {"pay": 1, "keyreg": 2, "acfg": 3, "axfer": 4, "afrz": 5, "appl": 6}
OC_NAMES = {"NoOp": 0, "OptIn": 1, "CloseOut": 2, "ClearState": 3, "UpdateApplication": 4, "DeleteApplication": 5}
ADDR_FIELDS = ("Sender", "RekeyTo", "CloseRemainderTo", "AssetCloseTo", "Receiver", "AssetReceiver", "AssetSender")
INT_FIELDS = ("Fee", "TypeEnum", "OnCompletion", "ApplicationID", "Amount", "FirstValid", "LastValid", "NumAppArgs", "AssetAmount", "XferAsset", "GroupIndex")


def parse_int(tok):
    if tok.startswith("0x"):
        return int(tok[2:], 16)
    if tok.startswith("0") and len(tok) > 1:
        return int(tok, 8)
    return int(tok)


def tokenize(line):
    line = line.strip()
    if "//" in line:
        # no string literals containing // in generated programs
        line = line.split("//")[0].strip()
    return line.split()


class Program:
    def __init__(self, text):
        self.lines = []  # (lineno, tokens)
        self.labels = {}
        self.version = 1
        self.intcs = []
        for n, raw in enumerate(text.split("\n"), 1):
            toks = tokenize(raw)
            if not toks:
                continue
            if toks[0] == "#pragma":
                self.version = int(toks[2])
                self.lines.append((n, toks))
                continue
            if toks[0].endswith(":") and len(toks) == 1:
                self.labels[toks[0][:-1]] = len(self.lines)
            self.lines.append((n, toks))


def named_int(tok):
    if tok in TYPE_NAMES:
        return TYPE_NAMES[tok]
    if tok in OC_NAMES:
        return OC_NAMES[tok]
    return parse_int(tok)


def field_value(env, txn, fld):
    if fld == "GroupIndex":
        return txn["_index"]
    if fld in txn:
        return txn[fld]
    if fld in ADDR_FIELDS:
        return ("addr", ZERO)
    if fld in INT_FIELDS:
        return 0
    if fld == "Note":
        return ("bytes", "note")
    raise Unsupported("field " + fld)


def run(prog, env, max_steps=20000):
    """env: {"group": [txn dict...], "index": own index, "creator": name, "args": [...]}.
    Returns (approved: bool, executed line numbers in order)."""
    group = env["group"]
    me = group[env["index"]]
    stack = []
    calls = []
    scratch = {}
    intcs = list(prog.intcs)
    pc = 0
    trace = []
    steps = 0
    n = len(prog.lines)

    def pop_int():
        if not stack:
            raise Fail("stack underflow")
        v = stack.pop()
        if not isinstance(v, int):
            raise Fail("type")
        return v

    def pop_any():
        if not stack:
            raise Fail("stack underflow")
        return stack.pop()

    try:
        while pc < n:
            steps += 1
            if steps > max_steps:
                raise Unsupported("step budget")
            lineno, t = prog.lines[pc]
            trace.append(lineno)
            op = t[0]
            nxt = pc + 1
            if op == "#pragma" or (op.endswith(":") and len(t) == 1):
                pass
            elif op in ("int", "pushint"):
                stack.append(named_int(t[1]))
            elif op == "intcblock":
                intcs = [parse_int(x) for x in t[1:]]
            elif op == "intc":
                k = parse_int(t[1])
                if k >= len(intcs):
                    raise Fail("intc range")
                stack.append(intcs[k])
            elif op in ("intc_0", "intc_1", "intc_2", "intc_3"):
                k = int(op[-1])
                if k >= len(intcs):
                    raise Fail("intc range")
                stack.append(intcs[k])
            elif op == "addr":
                stack.append(("addr", ZERO if t[1] == "AAAAAAAAAAAAAAAAAAAAAAAAAAAAAAAAAAAAAAAAAAAAAAAAAAAAY5HFKQ" else t[1]))
            elif op == "byte":
                stack.append(("bytes", " ".join(t[1:])))
            elif op == "txn":
                stack.append(field_value(env, me, t[1]))
            elif op == "txna":
                stack.append(("bytes", "arg%s" % t[2]))
            elif op == "gtxn":
                i = parse_int(t[1])
                if i >= len(group):
                    raise Fail("gtxn index")
                stack.append(field_value(env, group[i], t[2]))
            elif op == "gtxns":
                i = pop_int()
                if i >= len(group):
                    raise Fail("gtxns index")
                stack.append(field_value(env, group[i], t[1]))
            elif op == "global":
                f = t[1]
                if f == "GroupSize":
                    stack.append(len(group))
                elif f == "ZeroAddress":
                    stack.append(("addr", ZERO))
                elif f == "CreatorAddress":
                    stack.append(("addr", env.get("creator", "CREATOR")))
                elif f == "MinTxnFee":
                    stack.append(1000)
                else:
                    raise Unsupported("global " + f)
            elif op in ("==", "!="):
                b, a = pop_any(), pop_any()
                if isinstance(a, int) != isinstance(b, int):
                    raise Fail("type")
                r = a == b if isinstance(a, int) else a[1] == b[1]
                stack.append(int(r if op == "==" else not r))
            elif op in ("<", "<=", ">", ">="):
                b, a = pop_int(), pop_int()
                stack.append(int({"<": a < b, "<=": a <= b, ">": a > b, ">=": a >= b}[op]))
            elif op == "&&":
                b, a = pop_int(), pop_int()
                stack.append(int(a != 0 and b != 0))
            elif op == "||":
                b, a = pop_int(), pop_int()
                stack.append(int(a != 0 or b != 0))
            elif op == "!":
                a = pop_int()
                stack.append(int(a == 0))
            elif op == "+":
                b, a = pop_int(), pop_int()
                if a + b > MAXU:
                    raise Fail("overflow")
                stack.append(a + b)
            elif op == "-":
                b, a = pop_int(), pop_int()
                if a < b:
                    raise Fail("underflow")
                stack.append(a - b)
            elif op == "pop":
                pop_any()
            elif op == "dup":
                a = pop_any()
                stack.extend([a, a])
            elif op == "swap":
                b, a = pop_any(), pop_any()
                stack.extend([b, a])
            elif op == "dig":
                k = parse_int(t[1])
                if k >= len(stack):
                    raise Fail("dig")
                stack.append(stack[-1 - k])
            elif op == "load":
                stack.append(scratch.get(parse_int(t[1]), 0))
            elif op == "store":
                scratch[parse_int(t[1])] = pop_any()
            elif op == "assert":
                if pop_int() == 0:
                    raise Fail("assert")
            elif op == "err":
                raise Fail("err")
            elif op == "return":
                v = pop_int()
                return v != 0, trace
            elif op == "b":
                nxt = prog.labels[t[1]]
            elif op == "bz":
                if pop_int() == 0:
                    nxt = prog.labels[t[1]]
            elif op == "bnz":
                if pop_int() != 0:
                    nxt = prog.labels[t[1]]
            elif op == "switch":
                v = pop_int()
                if v < len(t) - 1:
                    nxt = prog.labels[t[1 + v]]
            elif op == "match":
                labs = t[1:]
                a = pop_any()
                cands = [pop_any() for _ in labs][::-1]
                for k, c in enumerate(cands):
                    if isinstance(c, int) == isinstance(a, int) and (c == a if isinstance(a, int) else c[1] == a[1]):
                        nxt = prog.labels[labs[k]]
                        break
            elif op == "callsub":
                calls.append(pc + 1)
                nxt = prog.labels[t[1]]
            elif op == "retsub":
                if not calls:
                    raise Fail("retsub without call")
                nxt = calls.pop()
            else:
                raise Unsupported(op)
            pc = nxt
        # fell off the end
        ok = len(stack) == 1 and isinstance(stack[0], int) and stack[0] != 0
        return ok, trace
    except Fail:
        return False, trace
