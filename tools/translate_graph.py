#!/venv/bin/python
"""Statement-by-statement translation of tealer's global-graph helpers and of the solver's neighbourhood functions
into Gallina (Gen/GraphGen.v).

Translated (read with `ast` only, never imported):
  utils/analyses.py                                 : next_blocks_global   -> next_blocks_global_gen
                                                      prev_blocks_global   -> prev_blocks_global_gen
                                                      leaf_block_global    -> leaf_block_global_gen
  analyses/dataflow/transaction_context/generic.py  : DataflowTransactionContext._calculate_reachin -> calculate_reachin_gen
                                                      DataflowTransactionContext._calculate_livein  -> calculate_livein_gen
The hand-written counterparts are Model/Analysis.v: next_global, prev_global, leaf_global and (Section Domain) reachin,
livein; Lemmas/GraphGenLemmas.v proves generated = hand-written.

Reading of Python in Gallina.  The exception monad (`py A := option A`, ret, bind, ifE, andE, notE, opt_is_some) is the
one of the fixed prelude of Gen/KeysGen.v, imported, not repeated.  In addition:
  * the Python object graph.  The model represents a Function (with everything reachable from it: its basic blocks, the
    contract's subroutines) by one value `f : Analysis.func`; a BasicBlock object is represented by its idx (a `nat`),
    a Subroutine object by its name (a `string`, "" for the function's main).  Every expression of type Function
    (`function`, `self._function`) is the term `f`.  An attribute read or a method call on such an object is ONE
    function of the fixed glue table GLUE below (prelude text of GraphGen.v, each entry with the reason why it is the
    right reading); the Python text of every property/method the table stands for is fingerprinted (FINGERPRINTS):
    any edit of it stops the translator.  A block reference is dereferenced with `fblock f`: a dangling reference is
    the exception None.
  * everything else comes from the Python text: which attribute is read when, the order of the tests, which list is
    returned / iterated, what is united / intersected with what.
  * `assert e` is `assertE e (rest)`: a false (or raising) `e` is the exception None.
  * `d[k]` on a Dict[BasicBlock, Any] is the option lookup dict_get (KeyError = None); a key of type
    Optional[BasicBlock] goes through as_key (None is not a key: KeyError).  `path_context[b][p]` is path_get.
  * `for x in e: body` is `fold_left (fun acc x => bind acc (fun st => <body>)) <e> (ret <state>)` exactly as in
    tools/translate_asserted.py (state = the variables re-assigned in the body and bound before the loop).
  * what follows an `if` is duplicated into the branches that fall through (as in translate_keys.py).
  * the abstract methods of DataflowTransactionContext are the parameters of the Section, as in Model/Analysis.v:
    self._universal_set(key) = univ, self._null_set(key) = null, self._intersection(key, a, b) = inter a b,
    self._union(key, a, b) = union a b (the `key` argument must be the method's own `key`).
    A function that uses one of the same-typed parameters univ / null (union / inter) takes both (a dead `let`,
    tcommon.pin_twins): otherwise the Section discharge would give a function that starts from the universal set the
    same type as one that starts from the null set, and a positional lemma could not tell them apart.

Fail-closed: every statement kind, expression kind, attribute name, call name and variable type that is not whitelisted
below raises TranslateError.
"""
import ast
import os
import sys

from tcommon import TranslateError, fail, parse, strip_doc, pin_twins, T
from translate_keys import check_imports, indent, same_text
from translate_asserted import (
    seq,
    as_monadic,
    projections,
    assigned_in,
    tuple_term,
    find_toplevel,
    find_class,
    bound_names,
    is_self_call,
    need_origin,
    check_methods,
    check_no_override,
    DOMAIN_METHODS,
)

UA_REL = "utils/analyses.py"
GEN_REL = "analyses/dataflow/transaction_context/generic.py"
BB_REL = "teal/basic_blocks.py"
SUB_REL = "teal/subroutine.py"
FN_REL = "teal/functions.py"
INS_REL = "teal/instructions/instructions.py"
UA_MODULE = "tealer.utils.analyses"

# ----------------------------------------------------------------------------- types of the little typed language
BLK, OPTBLK, SUB, FUNC, BOOL, DOM, INT, DICT, PCTX, OPTTEAL = (
    "block", "optblock", "sub", "func", "bool", "T", "int", "dict", "pathctx", "optteal",
)  # fmt: skip
LIST_ANY = "list ?"  # the empty list literal
LBLK = "list block"
COQ_TYPE = {BLK: "nat", LBLK: "list nat", BOOL: "bool", DOM: "T", DICT: "state T"}

# ----------------------------------------------------------------------------- the glue table
# (attribute, type of the object) -> (glue function, type of the result, pure).  Every glue function takes `f` first.
ATTRS = {
    ("next", BLK): ("attr_next", LBLK, False),
    ("prev", BLK): ("attr_prev", LBLK, False),
    ("teal", BLK): ("attr_teal", OPTTEAL, False),
    ("is_retsub_block", BLK): ("attr_is_retsub_block", BOOL, False),
    ("is_callsub_block", BLK): ("attr_is_callsub_block", BOOL, False),
    ("subroutine", BLK): ("attr_subroutine", SUB, False),
    ("called_subroutine", BLK): ("attr_called_subroutine", SUB, False),
    ("sub_return_point", BLK): ("attr_sub_return_point", OPTBLK, False),
    ("is_sub_return_point", BLK): ("attr_is_sub_return_point", BOOL, False),
    ("callsub_block", BLK): ("attr_callsub_block", BLK, False),
    ("entry", SUB): ("attr_entry", BLK, False),
    ("retsub_blocks", SUB): ("attr_retsub_blocks", LBLK, False),
    ("main", FUNC): ("attr_main", SUB, True),
}
# methods of Function: name -> (glue function, argument type, result type)
METHODS = {
    "caller_blocks": ("meth_caller_blocks", SUB, LBLK),
    "return_point_blocks": ("meth_return_point_blocks", SUB, LBLK),
}
# attributes of self (DataflowTransactionContext): name -> (term, type)
SELF_ATTRS = {"_function": ("f", FUNC), "_entry_block": ("(self_entry_block f)", BLK)}
# the translated top-level functions: python name -> (generated name, argument types, result type)
GRAPH_FUNCS = {
    "next_blocks_global": ("next_blocks_global_gen", [FUNC, BLK], LBLK),
    "prev_blocks_global": ("prev_blocks_global_gen", [FUNC, BLK], LBLK),
    "leaf_block_global": ("leaf_block_global_gen", [BLK], BOOL),
}

# Python text (docstrings stripped, layout normalised) of everything the glue table stands for
FINGERPRINTS = [
    (BB_REL, "BasicBlock", "prev", "@property\ndef prev(self) -> List['BasicBlock']:\n    return self._prev"),
    (BB_REL, "BasicBlock", "next", "@property\ndef next(self) -> List['BasicBlock']:\n    return self._next"),
    (BB_REL, "BasicBlock", "teal", "@property\ndef teal(self) -> Optional['Teal']:\n    return self._teal"),
    (
        BB_REL, "BasicBlock", "subroutine",
        "@property\ndef subroutine(self) -> 'Subroutine':\n    if self._subroutine is None:\n"
        "        raise TealerException(f'subroutine of B{self._idx} is not initialized')\n    return self._subroutine",
    ),
    (
        BB_REL, "BasicBlock", "is_callsub_block",
        "@property\ndef is_callsub_block(self) -> bool:\n    return isinstance(self.exit_instr, Callsub)",
    ),
    (
        BB_REL, "BasicBlock", "called_subroutine",
        "@property\ndef called_subroutine(self) -> 'Subroutine':\n    if not isinstance(self.exit_instr, Callsub):\n"
        "        raise TealerException('called subroutine of a non callsub block is accessed')\n"
        "    return self.exit_instr.called_subroutine",
    ),
    (
        BB_REL, "BasicBlock", "sub_return_point",
        "@property\ndef sub_return_point(self) -> Optional['BasicBlock']:\n    if not self.is_callsub_block:\n"
        "        raise TealerException('sub_return_point block of a non callsub block is accessed')\n"
        "    return self.next[0] if self.next else None",
    ),
    (
        BB_REL, "BasicBlock", "is_sub_return_point",
        "@property\ndef is_sub_return_point(self) -> bool:\n    for bi in self.prev:\n        if bi.is_callsub_block:\n"
        "            return True\n    return False",
    ),
    (
        BB_REL, "BasicBlock", "callsub_block",
        "@property\ndef callsub_block(self) -> 'BasicBlock':\n    for bi in self.prev:\n        if bi.is_callsub_block:\n"
        "            return bi\n    raise TealerException('callsub_block of a non sub_return_point block is accessed')",
    ),
    (
        BB_REL, "BasicBlock", "is_retsub_block",
        "@property\ndef is_retsub_block(self) -> bool:\n    return isinstance(self.exit_instr, Retsub)",
    ),
    (
        BB_REL, "BasicBlock", "exit_instr",
        "@property\ndef exit_instr(self) -> Instruction:\n    return self._instructions[-1]",
    ),
    (
        INS_REL, "Callsub", "called_subroutine",
        "@property\ndef called_subroutine(self) -> 'Subroutine':\n    if self._called_subroutine is None:\n"
        "        raise TealerException(f'callsub.called_subroutine is accessed before assignment: {str(self)}')\n"
        "    return self._called_subroutine",
    ),
    (
        SUB_REL, "Subroutine", "__init__",
        "def __init__(self, name: str, entry: 'BasicBlock', blocks: List['BasicBlock']) -> None:\n"
        "    self._name = name\n    self._entry = entry\n    self._blocks = blocks\n"
        "    self._exit_blocks = [b for b in blocks if len(b.next) == 0 or isinstance(b.exit_instr, Retsub)]\n"
        "    self._contract: Optional['Teal'] = None\n    self._caller_callsub_blocks: List['BasicBlock'] = []\n"
        "    self._return_point_blocks: List['BasicBlock'] = []",
    ),
    (SUB_REL, "Subroutine", "entry", "@property\ndef entry(self) -> 'BasicBlock':\n    return self._entry"),
    (
        SUB_REL, "Subroutine", "retsub_blocks",
        "@property\ndef retsub_blocks(self) -> List['BasicBlock']:\n"
        "    return [b for b in self._exit_blocks if isinstance(b.exit_instr, Retsub)]",
    ),
    (
        FN_REL, "Function", "__init__",
        "def __init__(self, function_name: str, entry: 'BasicBlock', blocks: List['BasicBlock'], contract: 'Teal', "
        "main: 'Subroutine', subroutines: Dict[str, 'Subroutine']) -> None:\n"
        "    self.function_name: str = function_name\n    self.entry: 'BasicBlock' = entry\n"
        "    self._blocks: List['BasicBlock'] = blocks\n    self.contract: 'Teal' = contract\n"
        "    self.main: 'Subroutine' = main\n    self.subroutines: Dict[str, 'Subroutine'] = subroutines\n"
        "    self._transaction_contexts: Dict['BasicBlock', 'BlockTransactionContext'] = "
        "{block: BlockTransactionContext() for block in self._blocks}\n"
        "    self._subroutine_caller_blocks: Dict['Subroutine', List['BasicBlock']] = {sub: [] for sub in subroutines.values()}\n"
        "    for block in self._blocks:\n        if block.is_callsub_block:\n"
        "            self._subroutine_caller_blocks[block.called_subroutine].append(block)\n"
        "    self._subroutine_return_point_blocks: Dict['Subroutine', List['BasicBlock']] = {}\n"
        "    for (sub, caller_blocks) in self._subroutine_caller_blocks.items():\n"
        "        self._subroutine_return_point_blocks[sub] = [bi.next[0] for bi in caller_blocks if len(bi.next) == 1]",
    ),
    (
        FN_REL, "Function", "caller_blocks",
        "def caller_blocks(self, subroutine: 'Subroutine') -> List['BasicBlock']:\n    return self._subroutine_caller_blocks[subroutine]",
    ),
    (
        FN_REL, "Function", "return_point_blocks",
        "def return_point_blocks(self, subroutine: 'Subroutine') -> List['BasicBlock']:\n"
        "    return self._subroutine_return_point_blocks[subroutine]",
    ),
]
# classes whose objects are compared with == / != by the translated code: identity comparison, no __eq__/__hash__
IDENTITY_CLASSES = [(BB_REL, "BasicBlock"), (SUB_REL, "Subroutine")]
# statements of DataflowTransactionContext.__init__ behind SELF_ATTRS and `self._path_contexts[key]`
INIT_STATEMENTS = [
    "self._function: 'Function' = function",
    "self._entry_block: 'BasicBlock' = function.entry",
    "self._path_contexts: Dict[str, Dict['BasicBlock', Dict['BasicBlock', Any]]] = defaultdict(dict)",
]

RESERVED = {
    "f", "fuel", "acc", "st", "l", "k", "T", "univ", "null", "union", "inter", "single", "ret", "bind", "py", "ifE", "notE", "andE", "orE",
    "assertE", "subscript", "opt_is_some", "dict_get", "as_key", "path_get", "pathctx", "self_path_contexts", "self_entry_block",
    "fold_left", "fst", "snd", "negb", "andb", "orb", "true", "false", "nil", "cons", "app", "length", "Some", "None", "O", "S",
    "state", "lookup", "func", "nat", "bool", "string", "list", "option", "fblock",
    "in", "at", "as", "fun", "let", "match", "end", "if", "then", "else", "return", "with", "forall", "exists", "fix", "cofix", "for",
    "where", "using", "Type", "Prop", "Set", "SProp", "struct", "key", "self",
}  # fmt: skip
RESERVED |= {g for g, _, _ in ATTRS.values()} | {g for g, _, _ in METHODS.values()} | {g for g, _, _ in GRAPH_FUNCS.values()}
RESERVED |= {"calculate_reachin_gen", "calculate_livein_gen"}

PRELUDE = r"""
(* ====================================================================== *)
(* PRELUDE (fixed text): the glue table.  The exception monad is the one of Gen/KeysGen.v.                  *)
(* ====================================================================== *)
(* How the Python object graph is read.  The model represents the Function under analysis, with everything that is
   reachable from it (its BasicBlocks, the contract's Subroutines, the program text), by ONE value f : Analysis.func.
     - a BasicBlock object is represented by the id the model gives it (nat, Cfg.b_idx): the Python idx for the blocks
       of the contract (pairwise distinct: _add_basic_blocks_idx), fresh ids for the err blocks construct_function
       creates (Model/Group.v; their Python idx is not used as an identity).  BasicBlock defines no __eq__/__hash__
       (checked by the translator), so `a == b` is object identity: Nat.eqb on the ids.  The attributes of the object
       are the fields of the record `fblock f id`; a reference that is not a block of f has no attributes: None.
     - a Subroutine object is represented by its name (string); "" is the function's main (Function.main, whose Python
       name "__main__.<function>" is not a label), as in Analysis.f_sub_of.  `a != b` on subroutines is identity
       (no __eq__), and the subroutines of a contract have pairwise distinct names (dictionary keys of parse_teal).
   The Python text of every property / method named below is fingerprinted by tools/translate_graph.py. *)

(* `assert e`: AssertionError, or the exception of e *)
Definition assertE {A : Type} (c : py bool) (k : py A) : py A :=
  match c with Some true => k | _ => None end.

(* block.next / block.prev = self._next / self._prev: the model's b_next / b_prev (ids, insertion order) *)
Definition attr_next (f : func) (b : nat) : py (list nat) := option_map b_next (fblock f b).
Definition attr_prev (f : func) (b : nat) : py (list nat) := option_map b_prev (fblock f b).
(* block.teal (Optional[Teal]): set by parse_teal / construct_function on every block they create; the model has no
   block outside a contract: Some tt on every block of f *)
Definition attr_teal (f : func) (b : nat) : py (option unit) := option_map (fun _ => Some tt) (fblock f b).
(* block.is_retsub_block / is_callsub_block = isinstance(self.exit_instr, Retsub / Callsub), exit_instr the last
   instruction: Analysis.f_is_retsub / f_is_callsub (fexit_op) *)
Definition attr_is_retsub_block (f : func) (b : nat) : py bool := option_map (f_is_retsub f) (fblock f b).
Definition attr_is_callsub_block (f : func) (b : nat) : py bool := option_map (f_is_callsub f) (fblock f b).
(* block.subroutine: the Subroutine the block was assigned to (function main blocks: construct_function; the others:
   parse_teal), TealerException when unset: Analysis.f_sub_of *)
Definition attr_subroutine (f : func) (b : nat) : py string := bind (fblock f b) (fun _ => f_sub_of f b).
(* block.called_subroutine: TealerException unless the exit instruction is a Callsub; then Callsub.called_subroutine,
   the Subroutine object parse_teal registered under the label (TealerException when unset): the label, provided the
   contract has a subroutine of that name (Analysis.f_find_sub, as in Analysis.next_global) *)
Definition attr_called_subroutine (f : func) (b : nat) : py string :=
  bind (fblock f b) (fun x =>
    match fexit_op f x with
    | Some (ICallsub l) => match f_find_sub f l with Some _ => Some l | None => None end
    | _ => None
    end).
(* block.sub_return_point: TealerException unless is_callsub_block; `self.next[0] if self.next else None`:
   Analysis.sub_return_point *)
Definition attr_sub_return_point (f : func) (b : nat) : py (option nat) :=
  bind (fblock f b) (fun x => if f_is_callsub f x then Some (sub_return_point x) else None).
(* block.is_sub_return_point: `for bi in self.prev: if bi.is_callsub_block: return True` / False:
   Analysis.is_sub_return_point *)
Definition attr_is_sub_return_point (f : func) (b : nat) : py bool := option_map (is_sub_return_point f) (fblock f b).
(* block.callsub_block: the first callsub block of self.prev, TealerException when there is none:
   Analysis.callsub_block_of *)
Definition attr_callsub_block (f : func) (b : nat) : py nat := bind (fblock f b) (callsub_block_of f).
(* subroutine.entry: Analysis.sub_entry_of (fn_entry for main: construct_function passes the same `entry` to
   Subroutine(function_main_name, entry, ..) and to Function(.., entry, ..)) *)
Definition attr_entry (f : func) (s : string) : py nat := sub_entry_of f s.
(* subroutine.retsub_blocks: the blocks of the subroutine that end in retsub (_exit_blocks filtered by Retsub),
   computed from the parse-time blocks: Analysis.sub_retsub_blocks.  Only read on a called subroutine *)
Definition attr_retsub_blocks (f : func) (s : string) : py (list nat) := option_map (sub_retsub_blocks f) (f_find_sub f s).
(* function.main *)
Definition attr_main (f : func) : string := ""%string.
(* function.caller_blocks(sub) / function.return_point_blocks(sub): dictionaries keyed by the USED subroutines
   (function.subroutines.values(): Analysis.f_used_sub), KeyError otherwise; values: the callsub blocks of
   function.blocks calling sub, in function.blocks order (Analysis.f_callers), resp.
   [bi.next[0] for bi in caller_blocks if len(bi.next) == 1] (Analysis.f_return_points) *)
Definition meth_caller_blocks (f : func) (s : string) : py (list nat) :=
  match f_used_sub f s with Some _ => Some (map b_idx (f_callers f s)) | None => None end.
Definition meth_return_point_blocks (f : func) (s : string) : py (list nat) :=
  match f_used_sub f s with Some _ => Some (f_return_points f s) | None => None end.
(* self._entry_block = function.entry (DataflowTransactionContext.__init__) *)
Definition self_entry_block (f : func) : nat := fn_entry f.
(* a key of type Optional[BasicBlock] used in d[k]: None is not a key (KeyError) *)
Definition as_key (k : option nat) : py nat := k.
"""

SECTION_HEAD = r"""
(* the abstract methods of DataflowTransactionContext for one analysis key and the function under analysis (same
   parameters as Model/Analysis.v, Section Domain) *)
Section GraphGenDomain.
  Variable T : Type.
  Variable univ null : T.
  Variable union inter : T -> T -> T.
  Variable single : instr -> nat -> list sval -> T * T.
  Variable f : func.

  (* reachout / liveout : Dict[BasicBlock, Any] is the model's association list Analysis.state; d[k]: KeyError = None *)
  Definition dict_get (d : state T) (k : nat) : py T := lookup T d k.
  (* self._path_contexts[key] (a defaultdict: the read never raises): path_context[b][p] is the constraint of the
     edge p -> b that _path_level_constraints stored while it processed p (KeyError when it stored none):
     Analysis.edge_constraint of the block p towards b *)
  Definition pathctx : Type := nat -> nat -> py T.
  Definition self_path_contexts : pathctx :=
    fun b p => bind (fblock f p) (fun pb => edge_constraint T univ null union inter single f pb b).
  Definition path_get (d : pathctx) (b p : nat) : py T := d b p.
"""


# ----------------------------------------------------------------------------- environment
class Env:
    def __init__(self, path, vars_, kind, ret_type, imports=None):
        self.path = path
        self.imports = imports or {}
        self.vars = dict(vars_)  # python name -> type (the Coq name is the Python name; a Function is always `f`)
        self.kind = kind  # "graph" (utils/analyses.py) | "domain" (methods of DataflowTransactionContext)
        self.ret_type = ret_type
        self.counter = [0]
        self.in_loop = False

    def child(self, **new):
        e = Env(self.path, self.vars, self.kind, self.ret_type, self.imports)
        e.counter = self.counter
        e.in_loop = self.in_loop
        e.vars.update(new)
        return e

    def fresh(self):
        self.counter[0] += 1
        return f"tmp{self.counter[0]}"


def compatible(a, b):
    if a == b:
        return a
    if a == LIST_ANY and b.startswith("list "):
        return b
    if b == LIST_ANY and a.startswith("list "):
        return a
    return None


def is_none(e):
    return isinstance(e, ast.Constant) and e.value is None


def is_self_attr(e):
    return isinstance(e, ast.Attribute) and isinstance(e.value, ast.Name) and e.value.id == "self"


def own_key(env, e):
    return env.kind == "domain" and isinstance(e, ast.Name) and e.id == "key" and "key" not in env.vars


# ----------------------------------------------------------------------------- expressions
def expr(env, e):
    """-> (term, type, pure)"""
    p = env.path
    if isinstance(e, ast.Constant):
        if e.value is True:
            return "true", BOOL, True
        if e.value is False:
            return "false", BOOL, True
        if isinstance(e.value, int) and not isinstance(e.value, bool) and e.value >= 0:
            return str(e.value), INT, True
        fail(p, e, "constant " + ast.unparse(e))
    if isinstance(e, ast.Name):
        if e.id in env.vars:
            ty = env.vars[e.id]
            return ("f" if ty == FUNC else e.id), ty, True
        fail(p, e, f"unknown name {e.id}")
    if isinstance(e, ast.Attribute):
        if is_self_attr(e):
            if env.kind == "domain" and e.attr in SELF_ATTRS:
                t, ty = SELF_ATTRS[e.attr]
                return t, ty, True
            fail(p, e, "attribute of self " + ast.unparse(e))
        t, ty, pure = expr(env, e.value)
        if (e.attr, ty) not in ATTRS:
            fail(p, e, f"attribute .{e.attr} of a value of type {ty}")
        g, rty, gpure = ATTRS[(e.attr, ty)]
        if ty == FUNC:
            return f"({g} f)", rty, True
        if gpure:
            out, pure2 = seq(env, [(t, pure)], lambda a: f"({g} f {a})")
            return out, rty, pure2
        out, _ = seq(env, [(t, pure)], lambda a: f"({g} f {a})", monadic_result=True)
        return out, rty, False
    if isinstance(e, ast.Subscript):
        # self._path_contexts[key]
        if is_self_attr(e.value) and e.value.attr == "_path_contexts" and own_key(env, e.slice):
            return "self_path_contexts", PCTX, True
        # path_context[b][p]
        if isinstance(e.value, ast.Subscript):
            d, dty, dp = expr(env, e.value.value)
            if dty == PCTX:
                a, aty, ap = expr(env, e.value.slice)
                b, bty, bp = expr(env, e.slice)
                if aty != BLK or bty != BLK:
                    fail(p, e, f"path context subscripted with values of types {aty}, {bty}")
                out, _ = seq(env, [(d, dp), (a, ap), (b, bp)], lambda x, y, z: f"(path_get {x} {y} {z})", monadic_result=True)
                return out, DOM, False
            fail(p, e, "subscript " + ast.unparse(e))
        d, dty, dp = expr(env, e.value)
        if dty != DICT:
            fail(p, e, f"subscript of a value of type {dty}")
        k, kty, kp = expr(env, e.slice)
        if kty == OPTBLK:
            k, kp = seq(env, [(k, kp)], lambda a: f"(as_key {a})", monadic_result=True)
        elif kty != BLK:
            fail(p, e, f"dictionary key of type {kty}")
        out, _ = seq(env, [(d, dp), (k, kp)], lambda x, y: f"(dict_get {x} {y})", monadic_result=True)
        return out, DOM, False
    if isinstance(e, ast.UnaryOp):
        if isinstance(e.op, ast.Not):
            t, ty, pure = expr(env, e.operand)
            if ty != BOOL:
                fail(p, e, f"`not` of a value of type {ty}")
            return (f"(negb {t})" if pure else f"(notE {t})"), BOOL, pure
        fail(p, e, "unary operator")
    if isinstance(e, ast.BoolOp):
        parts = [expr(env, v) for v in e.values]
        for (_, ty, _), v in zip(parts, e.values):
            if ty != BOOL:
                fail(p, v, f"operand of and/or of type {ty}")
        allpure = all(pure for _, _, pure in parts)
        if isinstance(e.op, ast.And):
            fn = "andb" if allpure else "andE"
        elif isinstance(e.op, ast.Or):
            fn = "orb" if allpure else "orE"
        else:
            fail(p, e, "boolean operator")
        terms = [t if allpure else as_monadic(t, pure) for t, _, pure in parts]
        out = terms[-1]
        for t in reversed(terms[:-1]):
            out = f"({fn} {t} {out})"
        return out, BOOL, allpure
    if isinstance(e, ast.Compare):
        if len(e.ops) != 1:
            fail(p, e, "comparison chain " + ast.unparse(e))
        op, rhs = e.ops[0], e.comparators[0]
        if isinstance(op, (ast.Is, ast.IsNot)):
            if not is_none(rhs):
                fail(p, e, "`is` with something else than None")
            t, ty, pure = expr(env, e.left)
            if ty not in (OPTBLK, OPTTEAL):
                fail(p, e, f"`is None` test of a value of type {ty}")
            build = (lambda a: f"(opt_is_some {a})") if isinstance(op, ast.IsNot) else (lambda a: f"(negb (opt_is_some {a}))")
            out, pure2 = seq(env, [(t, pure)], build)
            return out, BOOL, pure2
        if not isinstance(op, (ast.Eq, ast.NotEq)):
            fail(p, e, "comparison " + ast.unparse(e))
        l, lty, lp = expr(env, e.left)
        r, rty, rp = expr(env, rhs)
        if lty == rty == BLK or lty == rty == INT:
            fn = "Nat.eqb"
        elif lty == rty == SUB:
            fn = "String.eqb"
        else:
            fail(p, e, f"comparison of {lty} with {rty}")
        neg = isinstance(op, ast.NotEq)
        out, pure = seq(env, [(l, lp), (r, rp)], lambda a, b: (f"(negb ({fn} {a} {b}))" if neg else f"({fn} {a} {b})"))
        return out, BOOL, pure
    if isinstance(e, ast.List):
        if not e.elts:
            return "[]", LIST_ANY, True
        parts = [expr(env, x) for x in e.elts]
        tys = {ty for _, ty, _ in parts}
        if tys != {BLK}:
            fail(p, e, "list literal " + ast.unparse(e))
        out, pure = seq(env, [(t, pu) for t, _, pu in parts], lambda *a: "[" + "; ".join(a) + "]")
        return out, LBLK, pure
    if isinstance(e, ast.BinOp):
        if isinstance(e.op, ast.Add):
            l, lty, lp = expr(env, e.left)
            r, rty, rp = expr(env, e.right)
            ty = compatible(lty, rty)
            if ty is None or not ty.startswith("list ") or ty == LIST_ANY:
                fail(p, e, f"`+` on values of types {lty}, {rty}")
            out, pure = seq(env, [(l, lp), (r, rp)], lambda a, b: f"({a} ++ {b})")
            return out, ty, pure
        fail(p, e, "binary operator " + ast.unparse(e))
    if isinstance(e, ast.Call):
        return call(env, e)
    fail(p, e, "expression " + ast.unparse(e)[:60])


def call(env, e):
    p = env.path
    if e.keywords:
        fail(p, e, "keyword arguments " + ast.unparse(e)[:60])
    if is_self_call(e):
        # the abstract domain operations of the method's own key
        m = e.func.attr
        if env.kind != "domain" or m not in DOMAIN_METHODS:
            fail(p, e, "method call " + ast.unparse(e)[:60])
        if not e.args or not own_key(env, e.args[0]):
            fail(p, e, "method call whose first argument is not `key`: " + ast.unparse(e)[:60])
        coq, n = DOMAIN_METHODS[m]
        args = e.args[1:]
        if len(args) != n:
            fail(p, e, f"self.{m} with {len(args)} arguments after key")
        parts = [expr(env, a) for a in args]
        for (_, ty, _), a in zip(parts, args):
            if ty != DOM:
                fail(p, a, f"argument of self.{m} of type {ty}")
        if n == 0:
            return coq, DOM, True
        out, pure = seq(env, [(t, pu) for t, _, pu in parts], lambda *a: f"({coq} " + " ".join(a) + ")")
        return out, DOM, pure
    if isinstance(e.func, ast.Attribute):
        # function.caller_blocks(sub) / function.return_point_blocks(sub)
        o, oty, _ = expr(env, e.func.value)
        if oty != FUNC or e.func.attr not in METHODS or len(e.args) != 1:
            fail(p, e, "method call " + ast.unparse(e)[:60])
        g, aty, rty = METHODS[e.func.attr]
        t, ty, pure = expr(env, e.args[0])
        if ty != aty:
            fail(p, e, f"{e.func.attr} of a value of type {ty}")
        out, _ = seq(env, [(t, pure)], lambda a: f"({g} f {a})", monadic_result=True)
        return out, rty, False
    if not isinstance(e.func, ast.Name):
        fail(p, e, "call " + ast.unparse(e)[:60])
    fn = e.func.id
    if fn in env.vars:
        fail(p, e, f"call of the local variable {fn}")
    if fn == "len" and len(e.args) == 1 and "len" not in env.imports:
        t, ty, pure = expr(env, e.args[0])
        if not ty.startswith("list "):
            fail(p, e, f"len of a value of type {ty}")
        out, pure2 = seq(env, [(t, pure)], lambda a: f"(length {a})")
        return out, INT, pure2
    if fn in GRAPH_FUNCS:
        need_origin(env, e, fn, {"<local>"} if env.kind == "graph" else {UA_MODULE + "." + fn})
        g, atys, rty = GRAPH_FUNCS[fn]
        if len(e.args) != len(atys):
            fail(p, e, f"{fn} with {len(e.args)} arguments")
        parts = [expr(env, a) for a in e.args]
        for (_, ty, _), a, aty in zip(parts, e.args, atys):
            if ty != aty:
                fail(p, a, f"argument of {fn} of type {ty}, expected {aty}")
        # the Function argument is `f` itself: it is the first argument of every generated function
        rest = [(t, pu) for (t, ty, pu) in parts if ty != FUNC]
        out, _ = seq(env, rest, lambda *a: f"({g} f " + " ".join(a) + ")", monadic_result=True)
        return out, rty, False
    fail(p, e, "call " + ast.unparse(e)[:60])


# ----------------------------------------------------------------------------- statements
def check_name(env, name, node):
    if name in RESERVED or name.startswith("tmp"):
        fail(env.path, node, f"variable name {name} is reserved by the translator")
    if not name.isidentifier() or not name.isascii():
        fail(env.path, node, f"variable name {name}")


def bind_var(env, name, node, t, ty, pure, rest_of):
    """`name = <t>`; a re-assignment must keep the type of the variable"""
    check_name(env, name, node)
    if ty in (FUNC, LIST_ANY):
        fail(env.path, node, f"assignment of a value of type {ty} to {name}")
    if name in env.vars and env.vars[name] != ty:
        fail(env.path, node, f"re-assignment of {name} changes its type from {env.vars[name]} to {ty}")
    rest = rest_of(env.child(**{name: ty}))
    if pure:
        return f"(let {name} := {t} in\n{rest})"
    return f"(bind {t} (fun {name} =>\n{rest}))"


def block(env, stmts, fall):
    """stmts: statement list; fall: function env -> term for what follows the block (None: the function ends).
    Returns a term of type py R."""
    p = env.path
    stmts = strip_doc(stmts)
    if not stmts:
        if fall is None:
            raise TranslateError(f"translator: {p}: control reaches the end of the function without return")
        return fall(env)
    st, rest = stmts[0], stmts[1:]
    rest_of = lambda env2: block(env2, rest, fall)  # noqa: E731
    if isinstance(st, ast.Return):
        if env.in_loop:
            fail(p, st, "return in a loop body")
        if rest:
            fail(p, rest[0], "statement after return")
        if st.value is None:
            fail(p, st, "bare return")
        t, ty, pure = expr(env, st.value)
        if compatible(ty, env.ret_type) is None:
            fail(p, st, f"return of a value of type {ty}, expected {env.ret_type}")
        return as_monadic(t, pure)
    if isinstance(st, ast.Assert):
        if st.msg is not None:
            fail(p, st, "assert with a message")
        t, ty, pure = expr(env, st.test)
        if ty != BOOL:
            fail(p, st, f"assert of a value of type {ty}")
        if not rest and fall is None:
            raise TranslateError(f"translator: {p}:{st.lineno}: assert at the end of the function")
        return f"(assertE {as_monadic(t, pure)}\n{rest_of(env)})"
    if isinstance(st, ast.Assign):
        if len(st.targets) != 1 or not isinstance(st.targets[0], ast.Name):
            fail(p, st, "assignment target " + ast.unparse(st)[:60])
        t, ty, pure = expr(env, st.value)
        return bind_var(env, st.targets[0].id, st, t, ty, pure, rest_of)
    if isinstance(st, ast.If):
        t, ty, pure = expr(env, st.test)
        if ty != BOOL:
            fail(p, st, f"if-condition of type {ty}")
        cont = (lambda env2: block(env2, rest, fall)) if (rest or fall is not None) else None
        then_t = block(env, st.body, cont)
        if st.orelse:
            else_t = block(env, st.orelse, cont)
        else:
            if cont is None:
                raise TranslateError(f"translator: {p}:{st.lineno}: if without else at the end of the function")
            else_t = cont(env)
        if pure:
            return f"(if {t}\n then\n{indent(then_t)}\n else\n{else_t})"
        return f"(ifE {t}\n{indent(then_t)}\n{else_t})"
    if isinstance(st, ast.For):
        if st.orelse or getattr(st, "type_comment", None) or env.in_loop:
            fail(p, st, "for-else / nested loop")
        if not isinstance(st.target, ast.Name):
            fail(p, st, "loop header " + ast.unparse(st)[:60])
        x = st.target.id
        check_name(env, x, st)
        if x in env.vars:
            fail(p, st, f"loop variable {x} shadows a variable")
        # the iterated list is evaluated once, before the loop
        it, lty, ipure = expr(env, st.iter)
        if not lty.startswith("list ") or lty == LIST_ANY:
            fail(p, st, f"iteration over a value of type {lty}")
        body = strip_doc(st.body)
        assigned = assigned_in(env, body)
        if x in assigned:
            fail(p, st, "loop body assigns the loop variable")
        for n in assigned:
            if n not in env.vars:
                # a name first bound in the body would be visible after the loop in Python: not accepted
                fail(p, st, f"loop body binds the new variable {n}")
        state = list(assigned)
        if not state:
            fail(p, st, "loop without carried variable")
        stv = "st"
        stys = [env.vars[n] for n in state]
        benv = env.child(**{x: lty[len("list "):]})
        benv.in_loop = True

        def body_end(env2):
            for n, ty in zip(state, stys):
                if env2.vars[n] != ty:
                    fail(p, st, f"loop body changes the type of {n} from {ty} to {env2.vars[n]}")
            return f"(ret {tuple_term(state)})"

        lst = it if ipure else env.fresh()
        body_t = block(benv, body, body_end)
        for n, pr in reversed(list(zip(state, projections(len(state), stv)))):
            body_t = f"(let {n} := {pr} in\n{body_t})"
        loop = f"(fold_left (fun acc {x} => (bind acc (fun {stv} =>\n{indent(body_t, 2)})))\n  {lst} (ret {tuple_term(state)}))"
        after = block(env, rest, fall)
        tmp = env.fresh()
        for n, pr in reversed(list(zip(state, projections(len(state), tmp)))):
            after = f"(let {n} := {pr} in\n{after})"
        out = f"(bind {loop} (fun {tmp} =>\n{after}))"
        if not ipure:
            out = f"(bind {it} (fun {lst} =>\n{out}))"
        return out
    fail(p, st, "statement " + ast.unparse(st)[:60])


# ----------------------------------------------------------------------------- source checks
def signature(path, fn, expected, returns, decorators=()):
    a = fn.args
    if a.vararg or a.kwarg or a.kwonlyargs or a.posonlyargs or a.defaults:
        fail(path, fn, "signature of " + fn.name)
    if [ast.unparse(d) for d in fn.decorator_list] != list(decorators):
        fail(path, fn, f"decorators of {fn.name}: {[ast.unparse(d) for d in fn.decorator_list]}")
    got = [(x.arg, ast.unparse(x.annotation) if x.annotation else None) for x in a.args]
    if got != expected:
        fail(path, fn, f"signature of {fn.name}: {got}")
    r = ast.unparse(fn.returns) if fn.returns else None
    if r != returns:
        fail(path, fn, f"return annotation of {fn.name}: {r}")


def member(path, cls, name):
    """the definition of [name] in the class body: the property getter when there is a setter as well"""
    found = [n for n in cls.body if isinstance(n, ast.FunctionDef) and n.name == name]
    getters = [n for n in found if [ast.unparse(d) for d in n.decorator_list] in ([], ["property"])]
    others = [n for n in found if n not in getters]
    if len(getters) != 1 or any([ast.unparse(d) for d in n.decorator_list] != [f"{name}.setter"] for n in others):
        raise TranslateError(f"translator: {path}: expected exactly one definition of {cls.name}.{name}")
    for n in cls.body:
        for tg in (n.targets if isinstance(n, ast.Assign) else [n.target] if isinstance(n, ast.AnnAssign) else []):
            if isinstance(tg, ast.Name) and tg.id == name:
                fail(path, n, f"{cls.name}.{name} is also a class attribute")
    return getters[0]


def member_text(node):
    node = ast.parse(ast.unparse(node)).body[0]
    node.body = strip_doc(node.body) or [ast.Pass()]
    return ast.unparse(node)


def check_fingerprints():
    trees = {}
    for rel, cname, mname, text in FINGERPRINTS:
        path = os.path.join(T, rel)
        if rel not in trees:
            trees[rel] = parse(path)
        cls = find_class(trees[rel], cname, path)
        got = member_text(member(path, cls, mname))
        if not same_text(ast.parse(got), text):
            raise TranslateError(
                f"translator: {path}: {cname}.{mname} changed (its entry in the glue table of Gen/GraphGen.v is no longer justified):\n{got}"
            )
    for rel, cname in IDENTITY_CLASSES:
        path = os.path.join(T, rel)
        cls = find_class(trees[rel], cname, path)
        if cls.bases or cls.keywords or cls.decorator_list:
            fail(path, cls, f"class {cname} has bases / decorators: == may no longer be object identity")
        for n in cls.body:
            if isinstance(n, ast.FunctionDef) and n.name in ("__eq__", "__ne__", "__hash__"):
                fail(path, n, f"class {cname} defines {n.name}: == is no longer object identity")


def check_init(path, cls):
    """the attributes of self the translated methods read are set once, in __init__, by the expected statements"""
    init = member(path, cls, "__init__")
    texts = [ast.unparse(s) for s in strip_doc(init.body)]
    for want in INIT_STATEMENTS:
        if sum(1 for t in texts if same_text(ast.parse(t), want)) != 1:
            fail(path, init, f"__init__ of {cls.name} no longer contains exactly once: {want}")
    names = ("_function", "_entry_block")
    hits = []
    tc = os.path.join(T, os.path.dirname(GEN_REL))
    for root, _, files in os.walk(tc):
        for fn in sorted(files):
            if fn.endswith(".py"):
                fp = os.path.join(root, fn)
                for node in ast.walk(parse(fp)):
                    tgs = node.targets if isinstance(node, ast.Assign) else [node.target] if isinstance(node, (ast.AnnAssign, ast.AugAssign)) else []
                    for tg in tgs:
                        # the assigned objects themselves (also as components of a tuple target)
                        for n in tg.elts if isinstance(tg, (ast.Tuple, ast.List)) else [tg]:
                            n = n.value if isinstance(n, ast.Starred) else n
                            if isinstance(n, ast.Attribute) and n.attr in names + ("_path_contexts",):
                                hits.append(f"{fp}:{node.lineno}")
                    if isinstance(node, ast.Call) and isinstance(node.func, ast.Name) and node.func.id in ("setattr", "delattr"):
                        hits.append(f"{fp}:{node.lineno}")
                    if isinstance(node, ast.Delete):
                        hits.append(f"{fp}:{node.lineno}")
    if len(hits) != 3 or any(not h.startswith(path + ":") for h in hits):
        raise TranslateError(f"translator: {tc}: _function / _entry_block / _path_contexts must be assigned once, in __init__ of generic.py; found {hits}")


def check_single_binding(path, tree, names):
    """each of [names] is bound exactly once at module level (by its def) and never declared global"""
    for name in names:
        n = 0
        for node in tree.body:
            if isinstance(node, (ast.FunctionDef, ast.AsyncFunctionDef, ast.ClassDef)) and node.name == name:
                n += 1
            elif isinstance(node, (ast.Import, ast.ImportFrom)):
                n += sum(1 for al in node.names if (al.asname or al.name).split(".")[0] == name or al.name == "*")
            elif not isinstance(node, (ast.FunctionDef, ast.AsyncFunctionDef, ast.ClassDef)):
                # any other statement (assignment, if, for, with, try, ...) that stores the name
                n += sum(1 for x in ast.walk(node) if isinstance(x, ast.Name) and x.id == name and isinstance(x.ctx, (ast.Store, ast.Del)))
                n += sum(1 for x in ast.walk(node) if isinstance(x, (ast.FunctionDef, ast.ClassDef)) and x.name == name)
        for node in ast.walk(tree):
            if isinstance(node, (ast.Global, ast.Nonlocal)) and name in node.names:
                n += 1
        if n != 1:
            raise TranslateError(f"translator: {path}: {name} must be bound exactly once at module level; found {n} bindings")


def find_method(path, cls, name):
    found = [n for n in cls.body if isinstance(n, ast.FunctionDef) and n.name == name]
    if len(found) != 1:
        raise TranslateError(f"translator: {path}: expected exactly one method {name}")
    return found[0]


# ----------------------------------------------------------------------------- emission
def emit_graph(outdir):
    ua = os.path.join(T, UA_REL)
    gp = os.path.join(T, GEN_REL)
    utree, gtree = parse(ua), parse(gp)

    check_fingerprints()
    check_imports(ua, utree, {n: "<local>" for n in GRAPH_FUNCS})
    check_single_binding(ua, utree, list(GRAPH_FUNCS))
    check_imports(gp, gtree, {**{n: UA_MODULE + "." + n for n in GRAPH_FUNCS}, "defaultdict": "collections.defaultdict"})
    check_single_binding(gp, gtree, list(GRAPH_FUNCS) + ["defaultdict"])
    cls = find_class(gtree, "DataflowTransactionContext", gp)
    check_methods(gp, cls)  # the domain operations are the abstract methods
    check_init(gp, cls)
    check_no_override("_calculate_reachin")
    check_no_override("_calculate_livein")

    L = []
    w = L.append
    w("(* GENERATED by tools/translate.py (translate_graph) from /repo/tealer -- do not edit *)")
    w("(* utils/analyses.py (next_blocks_global, prev_blocks_global, leaf_block_global) and transaction_context/generic.py")
    w("   (DataflowTransactionContext._calculate_reachin, _calculate_livein), statement by statement.")
    w("   See tools/translate_graph.py for the reading. *)")
    w("From Coq Require Import String List NArith ZArith Bool Arith.")
    w("From Tealer Require Import Syntax Cfg StackAst Keys KeysGen Analysis.")
    w("Import ListNotations.")
    w("Open Scope list_scope.")
    w(PRELUDE.rstrip("\n"))
    w("")
    w("(* ====================================================================== *)")
    w("(* TRANSLATED functions                                                     *)")
    w("(* ====================================================================== *)")
    ubound = bound_names(utree)
    specs = [
        ("next_blocks_global", [("function", "'Function'"), ("block", "'BasicBlock'")], "List['BasicBlock']", {"function": FUNC, "block": BLK}),
        ("prev_blocks_global", [("function", "'Function'"), ("block", "'BasicBlock'")], "List['BasicBlock']", {"function": FUNC, "block": BLK}),
        ("leaf_block_global", [("block", "'BasicBlock'")], "bool", {"block": BLK}),
    ]
    for name, sig, rann, vars_ in specs:
        fn = find_toplevel(utree, name, ua)
        signature(ua, fn, sig, rann)
        g, _, rty = GRAPH_FUNCS[name]
        env = Env(ua, vars_, "graph", rty, ubound)
        note = "`function` is f" if FUNC in vars_.values() else "f is the object graph the block lives in"
        w(f"(* {UA_REL}: {name} (line {fn.lineno}); {note} *)")
        rt = COQ_TYPE[rty] if " " not in COQ_TYPE[rty] else f"({COQ_TYPE[rty]})"
        w(f"Definition {g} (f : func) (block : nat) : py {rt} :=\n{indent(block(env, fn.body, None), 2)}.")
        w("")
    w(SECTION_HEAD.strip("\n"))
    w("")
    gbound = bound_names(gtree)
    for name, dname, g in [("_calculate_reachin", "reachout", "calculate_reachin_gen"), ("_calculate_livein", "liveout", "calculate_livein_gen")]:
        fn = find_method(gp, cls, name)
        signature(gp, fn, [("self", None), ("key", "str"), ("block", "'BasicBlock'"), (dname, "Dict['BasicBlock', Any]")], "Any")
        env = Env(gp, {"block": BLK, dname: DICT}, "domain", DOM, gbound)
        w(f"  (* {GEN_REL}: DataflowTransactionContext.{name} (line {fn.lineno}) *)")
        # a definition that uses one of univ / null (union / inter) takes both: see tcommon.pin_twins
        w(f"  Definition {g} (block : nat) ({dname} : state T) : py T :=\n{indent(pin_twins(block(env, fn.body, None)), 4)}.")
        w("")
    w("End GraphGenDomain.")
    os.makedirs(outdir, exist_ok=True)
    with open(os.path.join(outdir, "GraphGen.v"), "w") as fh:
        fh.write("\n".join(L) + "\n")
    return 5


def main():
    outdir = sys.argv[1] if len(sys.argv) > 1 else os.path.join(os.path.dirname(os.path.abspath(__file__)), "..", "coq", "Gen")
    try:
        n = emit_graph(outdir)
    except TranslateError as e:
        print(str(e))
        sys.exit(2)
    print(f"translate_graph: {n} global-graph / neighbourhood functions -> {outdir}/GraphGen.v")


if __name__ == "__main__":
    main()
