#!/venv/bin/python
"""Self-test of tools/translate_output.py (the regenerated structure of the exporters, Gen/OutputGen.v).

(a) runs the translator on the clean source ($VERIF_REPO, default /tmp/cleanrepo) and checks that the output is the
    committed coq/Gen/OutputGen.v, compiles, and that Lemmas/OutputGenLemmas.v compiles against it;
(b) applies small mutations to a scratch copy of utils/output.py / printers/call_graph.py / basic_blocks.py /
    subroutine.py and shows that, for each, either the translator stops (TranslateError) or the generated Gallina differs
    AND Lemmas/OutputGenLemmas.v no longer compiles against it.

Precondition: coq/ has been built (`make`).  Every coqc runs under `timeout`.  Exit status 0 iff every row has the
expected verdict.

usage: VERIF_REPO=/tmp/cleanrepo /venv/bin/python tools/test_translate_output.py [-v]
"""
import ast
import os
import re
import shutil
import subprocess
import sys
import tempfile

HERE = os.path.dirname(os.path.abspath(__file__))
ROOT = os.path.dirname(HERE)
COQ = os.path.join(ROOT, "coq")
PY = "/venv/bin/python"
REPO = os.environ.get("VERIF_REPO", "/tmp/cleanrepo")

OUT = "tealer/utils/output.py"
CG = "tealer/printers/call_graph.py"
BB = "tealer/teal/basic_blocks.py"
SUBR = "tealer/teal/subroutine.py"


def sh(cmd, cwd=None, env=None):
    e = dict(os.environ)
    if env:
        e.update(env)
    p = subprocess.run(cmd, shell=True, cwd=cwd, stdout=subprocess.PIPE, stderr=subprocess.STDOUT, env=e, check=False)
    return p.returncode, p.stdout.decode(errors="replace")


# ----------------------------------------------------------------------------- mutations (text -> text)
def replace_once(src, old, new):
    if src.count(old) != 1:
        raise RuntimeError(f"mutation anchor found {src.count(old)} times: " + old[:60])
    return src.replace(old, new, 1)


def mut_guard_dropped(src):
    """(i) full_cfg_to_dot: the `return_point_block is None` guard is dropped"""
    return replace_once(src, "            if return_point_block is None:\n                continue\n", "")


def mut_entry_edge_after_guard(src):
    """(ii) full_cfg_to_dot: the callsub -> callee-entry edge is skipped when there is no return point"""
    s = replace_once(
        src,
        "            bb_nodes_dot.append(\n                graph_edge_str(bb, bb.called_subroutine.entry, config.callsub_edge_color)\n            )\n",
        "",
    )
    return replace_once(
        s,
        "            if return_point_block is None:\n                continue\n",
        "            if return_point_block is None:\n                continue\n"
        "            bb_nodes_dot.append(\n                graph_edge_str(bb, bb.called_subroutine.entry, config.callsub_edge_color)\n            )\n",
    )


def mut_len_exit_next(src):
    """(iii) _bb_to_dot: len(bb.exit_instr.next) instead of len(bb.next) in the bz/bnz colouring"""
    return replace_once(src, "            if len(bb.next) == 1:\n", "            if len(bb.exit_instr.next) == 1:\n")


def mut_colours_swapped(src):
    """(iv) _bb_to_dot: the colours of the two branches are swapped"""
    s = replace_once(src, "graph_edge_str(bb, default_branch, config.default_branch_color)", "graph_edge_str(bb, default_branch, config.JUMP)")
    s = replace_once(s, "graph_edge_str(bb, jump_branch, config.jump_branch_color)", "graph_edge_str(bb, jump_branch, config.default_branch_color)")
    return s.replace("config.JUMP", "config.jump_branch_color")


def mut_filter_removes_in_place(src):
    """(v) filter_paths removes from the list it iterates"""
    return replace_once(
        src,
        "        filtered_paths: List[List[\"BasicBlock\"]] = []\n        for path in self.paths:\n"
        "            if re.search(filter_regex, self._short_notation(path)) is None:\n"
        "                # short notation does not contain string matching the regex\n"
        "                filtered_paths.append(path)\n        self.paths = filtered_paths\n",
        "        for path in self.paths:\n            if re.search(filter_regex, self._short_notation(path)) is not None:\n"
        "                self.paths.remove(path)\n",
    )


def mut_callgraph_reversed(src):
    """(vi) call graph: edge direction reversed"""
    return replace_once(src, 'graph_edges += f"{source_sub} -> {destination_sub};\\n"', 'graph_edges += f"{destination_sub} -> {source_sub};\\n"')


def mut_edge_template(src):
    """(x1) the edge template is edited (no entry of ITEM_TEMPLATES)"""
    return src.replace("{src_bb.idx}:s -> {dest_bb.idx}:{dest_bb.entry_instr.line}:n [color=", "{src_bb.idx}:n -> {dest_bb.idx}:{dest_bb.entry_instr.line}:s [color=")


def mut_branches_swapped(src):
    """(x2) _bb_to_dot: next[0] is taken for the jump branch, next[1] for the default branch"""
    return replace_once(
        src,
        "                default_branch = bb.next[0]\n                jump_branch = bb.next[1]\n",
        "                default_branch = bb.next[1]\n                jump_branch = bb.next[0]\n",
    )


def mut_len_two(src):
    """(x3) _bb_to_dot: the single-successor test is len(bb.next) == 2"""
    return replace_once(src, "            if len(bb.next) == 1:\n", "            if len(bb.next) == 2:\n")


def mut_ignore_retsub(src):
    """(x4) full_cfg_to_dot: ignore_edge suppresses the edges of retsub blocks"""
    return replace_once(
        src,
        "    # ignore callsub block to return point edges. Add edges from callsub blocks to subroutine entry and retsubs to return points\n"
        "    config.ignore_edge = lambda bi, _: isinstance(bi.exit_instr, (Callsub))\n",
        "    config.ignore_edge = lambda bi, _: isinstance(bi.exit_instr, (Retsub))\n",
    )


def mut_ignore_not_set(src):
    """(x5) full_cfg_to_dot no longer assigns config.ignore_edge"""
    return replace_once(
        src,
        "    # ignore callsub block to return point edges. Add edges from callsub blocks to subroutine entry and retsubs to return points\n"
        "    config.ignore_edge = lambda bi, _: isinstance(bi.exit_instr, (Callsub))\n",
        "",
    )


def mut_cluster_members(src):
    """(x6) full_cfg_to_dot: the cluster lists the blocks of __main__"""
    return replace_once(src, "        subroutine_bbs = subroutine.blocks\n", "        subroutine_bbs = teal.main.blocks\n")


def mut_retsub_all_blocks(src):
    """(x7) full_cfg_to_dot: return edges from every block of the callee"""
    return replace_once(src, "            for src_bb in bb.called_subroutine.retsub_blocks:\n", "            for src_bb in bb.called_subroutine.blocks:\n")


def mut_short_separator(src):
    """(x8) _short_notation joins with "->" (no entry of NUMS_SEPARATORS)"""
    return replace_once(src, '        return " -> ".join(map(str, [bb.idx for bb in path_bbs]))\n', '        return "->".join(map(str, [bb.idx for bb in path_bbs]))\n')


def mut_enumerate_zero(src):
    """(x9) generate_output numbers the files from 0"""
    return replace_once(src, "        for idx, path in enumerate(self.paths, start=1):\n", "        for idx, path in enumerate(self.paths):\n")


def mut_highlight_swapped(src):
    """(x10) generate_output: RED for the blocks that are NOT in the path"""
    return replace_once(src, "                if bb.idx not in path_ids  # pylint: disable=cell-var-from-loop\n", "                if bb.idx in path_ids\n")


def mut_filter_keeps_matches(src):
    """(x11) filter_paths keeps the matching paths"""
    return replace_once(src, "            if re.search(filter_regex, self._short_notation(path)) is None:\n", "            if re.search(filter_regex, self._short_notation(path)) is not None:\n")


def mut_callgraph_callee(src):
    """(x12) call graph: the source is the subroutine the caller block CALLS"""
    return replace_once(src, "map(lambda bi: bi.subroutine.name, subroutine.caller_blocks)", "map(lambda bi: bi.called_subroutine.name, subroutine.caller_blocks)")


def mut_box_needs_return_point(src):
    """(x13) subroutine_to_dot: no box for a call site without return point"""
    return replace_once(src, "        if bi.is_callsub_block:\n            # add empty box", "        if bi.is_callsub_block and bi.sub_return_point is not None:\n            # add empty box")


def mut_version(src):
    """(x14) call graph exported from version 3"""
    return replace_once(src, "        if self.teal.version < 4:\n", "        if self.teal.version < 3:\n")


def mut_no_escape(src):
    """(x15) call graph: the destination name is no longer html-escaped"""
    return replace_once(src, "            destination_sub = html.escape(destination_sub, quote=True)\n", "")


def mut_border_main(src):
    """(x16) full_cfg_to_dot: the dark border goes to the blocks that are NOT in teal.main.blocks"""
    return replace_once(src, "set(bb.idx for bb in teal.bbs if bb in teal.main.blocks)", "set(bb.idx for bb in teal.bbs if bb not in teal.main.blocks)")


def mut_box_edge_to_callsub(src):
    """(x17) subroutine_to_dot: the box -> return point edge points at the callsub block"""
    return replace_once(
        src,
        'edge2 = f"{node_name}:s -> {return_point_block.idx}:{return_point_block.entry_instr.line}:n;\\n"',
        'edge2 = f"{node_name}:s -> {callsub_block.idx}:{return_point_block.entry_instr.line}:n;\\n"',
    )


def mut_color_edges_kept(src):
    """(x18) generate_output keeps the bz/bnz colouring"""
    return replace_once(src, "        config.color_edges = False\n", "")


def mut_fingerprint_return_point(src):
    """(s1, basic_blocks.py) BasicBlock.sub_return_point returns the last successor"""
    return replace_once(src, "        return self.next[0] if self.next else None\n", "        return self.next[-1] if self.next else None\n")


def mut_config_default(src):
    """(s2) CFGDotConfig.color_edges defaults to False"""
    return replace_once(src, "    color_edges: bool = True\n", "    color_edges: bool = False\n")


def mut_colour_field_assigned(src):
    """(s3) generate_output assigns a colour field of the config"""
    return replace_once(src, "        config.color_edges = False\n", "        config.color_edges = False\n        config.callsub_edge_color = \"BLACK\"\n")


def mut_capture_reassigned(src):
    """(s4) generate_output re-assigns path_ids after the closure captured it"""
    return replace_once(
        src,
        "            full_cfg_to_dot(self._teal, config, filename)\n",
        "            path_ids = set(bb.idx for bb in path[:0])\n            full_cfg_to_dot(self._teal, config, filename)\n",
    )


def mut_new_emission(src):
    """(s5) _bb_to_dot emits an extra edge with a string concatenation"""
    return replace_once(
        src,
        "    table_str = (\n        f'<<TABLE",
        "    graph_edges.append(str(bb.idx) + \":s -> 0:n;\\n\")\n    table_str = (\n        f'<<TABLE",
    )


def mut_new_emission_template(src):
    """(s6) _bb_to_dot emits an extra edge with the call-graph template (holes of the wrong type)"""
    return replace_once(
        src,
        "    table_str = (\n        f'<<TABLE",
        "    graph_edges.append(f\"{bb.idx} -> {bb.idx};\\n\")\n    table_str = (\n        f'<<TABLE",
    )


def mut_retsub_blocks(src):
    """(s7, subroutine.py) Subroutine.retsub_blocks lists every exit block"""
    return replace_once(src, "return [b for b in self._exit_blocks if isinstance(b.exit_instr, Retsub)]", "return list(self._exit_blocks)")


def mut_label_statement(src):
    """(s8) _bb_to_dot: the PORT of the comments cell is the line of the exit instruction (label statement edited)"""
    return replace_once(src, 'PORT="{bb.entry_instr.line}"', 'PORT="{bb.exit_instr.line}"')


def mut_block_eq(src):
    """(s9, basic_blocks.py) BasicBlock defines __eq__"""
    return replace_once(src, "    def __str__(self) -> str:\n", "    def __eq__(self, other: object) -> bool:\n        return True\n\n    def __str__(self) -> str:\n")


def mut_while(src):
    """(s10) a statement kind outside the whitelist"""
    return replace_once(src, "        graph_edges = \"\"\n", "        graph_edges = \"\"\n        while False:\n            pass\n")


def mut_second_write(src):
    """(s11) full_cfg_to_dot returns the text after writing the file"""
    return replace_once(src, "        f.write(dot_output)\n    return None\n", "        f.write(dot_output)\n    return dot_output\n")


MUTATIONS = [
    ("(i) full_cfg: `return_point_block is None` guard dropped", OUT, mut_guard_dropped),
    ("(ii) full_cfg: callee-entry edge skipped without return point", OUT, mut_entry_edge_after_guard),
    ("(iii) _bb_to_dot: len(bb.exit_instr.next)", OUT, mut_len_exit_next),
    ("(iv) _bb_to_dot: branch colours swapped", OUT, mut_colours_swapped),
    ("(v) filter_paths removes from the iterated list", OUT, mut_filter_removes_in_place),
    ("(vi) call graph: edge direction reversed", CG, mut_callgraph_reversed),
    ("(x1) edge template edited", OUT, mut_edge_template),
    ("(x2) _bb_to_dot: next[0] / next[1] swapped", OUT, mut_branches_swapped),
    ("(x3) _bb_to_dot: len(bb.next) == 2", OUT, mut_len_two),
    ("(x4) full_cfg: ignore_edge tests Retsub", OUT, mut_ignore_retsub),
    ("(x5) full_cfg: ignore_edge not assigned", OUT, mut_ignore_not_set),
    ("(x6) full_cfg: cluster members = main blocks", OUT, mut_cluster_members),
    ("(x7) full_cfg: return edges from all callee blocks", OUT, mut_retsub_all_blocks),
    ("(x8) _short_notation: separator \"->\"", OUT, mut_short_separator),
    ("(x9) generate_output: files numbered from 0", OUT, mut_enumerate_zero),
    ("(x10) generate_output: highlight inverted", OUT, mut_highlight_swapped),
    ("(x11) filter_paths keeps the matches", OUT, mut_filter_keeps_matches),
    ("(x12) call graph: source = called subroutine", CG, mut_callgraph_callee),
    ("(x13) subroutine_to_dot: box only with return point", OUT, mut_box_needs_return_point),
    ("(x14) call graph: version < 3", CG, mut_version),
    ("(x15) call graph: destination not escaped", CG, mut_no_escape),
    ("(x16) full_cfg: dark border for non-main blocks", OUT, mut_border_main),
    ("(x17) subroutine_to_dot: box edge to the callsub block", OUT, mut_box_edge_to_callsub),
    ("(x18) generate_output: colouring kept", OUT, mut_color_edges_kept),
    ("(s1) BasicBlock.sub_return_point edited", BB, mut_fingerprint_return_point),
    ("(s2) CFGDotConfig default edited", OUT, mut_config_default),
    ("(s3) a colour field of the config assigned", OUT, mut_colour_field_assigned),
    ("(s4) captured variable re-assigned", OUT, mut_capture_reassigned),
    ("(s5) new emission by string concatenation", OUT, mut_new_emission),
    ("(s6) new emission, template with wrong hole types", OUT, mut_new_emission_template),
    ("(s7) Subroutine.retsub_blocks edited", SUBR, mut_retsub_blocks),
    ("(s8) label statement edited (PORT)", OUT, mut_label_statement),
    ("(s9) BasicBlock defines __eq__", BB, mut_block_eq),
    ("(s10) while statement", CG, mut_while),
    ("(s11) full_cfg: return of the text after the write", OUT, mut_second_write),
]
REQUIRED = 6  # the first six rows are the mutations required by the task


# ----------------------------------------------------------------------------- one run
def enclosing(vfile, line):
    name = "?"
    with open(vfile, encoding="utf-8") as f:
        for i, l in enumerate(f, 1):
            m = re.match(r"\s*(Lemma|Theorem|Corollary|Definition|Example)\s+(\w+)", l)
            if m and i <= line:
                name = m.group(2)
            if i > line:
                break
    return name


def run_case(work, scratch, rel=None, mutate=None):
    """-> dict(translator=..., text=..., gen_ok=..., lemmas_ok=..., where=..., log=...)"""
    gen = os.path.join(work, "Gen")
    lem = os.path.join(work, "Lemmas")
    os.makedirs(gen)
    os.makedirs(lem)
    path, orig = None, None
    if mutate:
        path = os.path.join(scratch, rel)
        with open(path, encoding="utf-8") as fh:
            orig = fh.read()
        new = mutate(orig)
        if new == orig:
            raise RuntimeError("mutation did not change the source")
        ast.parse(new)  # the mutant is valid Python
        with open(path, "w", encoding="utf-8") as fh:
            fh.write(new)
    try:
        rc, out = sh(f"{PY} {HERE}/translate_output.py {gen}", env={"VERIF_REPO": scratch})
    finally:
        if path:
            with open(path, "w", encoding="utf-8") as fh:
                fh.write(orig)
    res = {"translator": "ok" if rc == 0 else "STOPPED", "log": out.strip().replace(scratch + "/", ""), "text": None, "gen_ok": None, "lemmas_ok": None, "where": None}
    if rc != 0:
        if rc != 2 or "translator:" not in out:
            res["translator"] = "CRASHED"
        return res
    with open(os.path.join(gen, "OutputGen.v"), encoding="utf-8") as fh:
        res["text"] = fh.read()
    # the other generated files are taken (compiled) from the built tree
    for f in os.listdir(os.path.join(COQ, "Gen")):
        if f.endswith(".vo") and f != "OutputGen.vo":
            os.symlink(os.path.join(COQ, "Gen", f), os.path.join(gen, f))
    lemv = os.path.join(lem, "OutputGenLemmas.v")
    shutil.copy(os.path.join(COQ, "Lemmas", "OutputGenLemmas.v"), lemv)
    q = f"-Q {COQ}/Model Tealer -Q {gen} Tealer -Q {COQ}/Spec Tealer -Q {COQ}/Lemmas Tealer"
    rc, out = sh(f"timeout 300 coqc {q} {gen}/OutputGen.v 2>&1")
    res["gen_ok"] = rc == 0
    res["log"] += "\n" + out[-1500:]
    if rc == 0:
        rc, out = sh(f"timeout 900 coqc {q} {lemv} 2>&1")
        res["lemmas_ok"] = rc == 0
        res["log"] += "\n" + out[-1500:]
        if rc != 0:
            m = re.search(r"line (\d+), characters", out)
            res["where"] = f"{enclosing(lemv, int(m.group(1)))} (line {m.group(1)})" if m else ("timeout" if rc == 124 else "?")
    return res


def main():
    verbose = "-v" in sys.argv
    for f in ("Model/Output.vo", "Gen/KeysGen.vo", "Lemmas/OutputLemmas.vo", "Lemmas/GraphWf.vo"):
        if not os.path.exists(os.path.join(COQ, f)):
            print(f"precondition: {COQ}/{f} missing -- build coq/ first (make)")
            sys.exit(3)
    top = tempfile.mkdtemp(prefix="toutput_")
    scratch = os.path.join(top, "repo")
    shutil.copytree(os.path.join(REPO, "tealer"), os.path.join(scratch, "tealer"), ignore=shutil.ignore_patterns("__pycache__"))
    rows = []
    ok = True
    try:
        base = run_case(os.path.join(top, "base"), scratch)
        same = None
        cur = os.path.join(COQ, "Gen", "OutputGen.v")
        if base["text"] is not None and os.path.exists(cur):
            with open(cur, encoding="utf-8") as fh:
                same = fh.read() == base["text"]
        good = base["translator"] == "ok" and base["gen_ok"] and base["lemmas_ok"] and same is True
        ok &= bool(good)
        rows.append(("(a) clean source", base["translator"], "= coq/Gen/OutputGen.v" if same else ("DIFFERS from coq/Gen" if same is False else "-"), base["gen_ok"], base["lemmas_ok"], "PASS" if good else "FAIL"))
        if verbose or not good:
            print(base["log"])
        for i, (name, rel, fn) in enumerate(MUTATIONS):
            r = run_case(os.path.join(top, f"m{i}"), scratch, rel, fn)
            if r["translator"] == "STOPPED":
                verdict, good, diff = "caught: translator stops", True, "-"
            elif r["translator"] == "CRASHED":
                verdict, good, diff = "FAIL: translator crashed", False, "-"
            else:
                differs = r["text"] != base["text"]
                diff = "differs" if differs else "IDENTICAL"
                if differs and r["gen_ok"] and r["lemmas_ok"] is False:
                    verdict, good = f"caught: lemmas break in {r['where']}", True
                elif differs and not r["gen_ok"]:
                    verdict, good = "caught: OutputGen.v ill-typed", True
                else:
                    verdict, good = "FAIL: NOT DETECTED", False
            ok &= good
            rows.append((name, r["translator"], diff, r["gen_ok"], r["lemmas_ok"], verdict))
            if verbose or not good:
                print(f"--- {name}\n{r['log']}\n")
            elif r["translator"] == "STOPPED":
                print(f"--- {name}: {r['log'].splitlines()[0][:260]}")
    finally:
        shutil.rmtree(top, ignore_errors=True)
    hdr = ("case", "translator", "generated Gallina", "OutputGen.v compiles", "OutputGenLemmas.v compiles", "verdict")
    fmt = lambda x: "-" if x is None else ("yes" if x is True else ("NO" if x is False else str(x)))  # noqa: E731
    table = [hdr] + [tuple(fmt(c) for c in r) for r in rows]
    widths = [max(len(r[i]) for r in table) for i in range(len(hdr))]
    print()
    for k, r in enumerate(table):
        print(" | ".join(c.ljust(w) for c, w in zip(r, widths)))
        if k == 0:
            print("-+-".join("-" * w for w in widths))
    print("\nRESULT:", "all mutations caught, clean source accepted" if ok else "FAILURE")
    sys.exit(0 if ok else 1)


if __name__ == "__main__":
    main()
